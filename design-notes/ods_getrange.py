import random, sys
D=0
def get_range(cells, cols, reps, fixed):
    row_min=None; row_max=0; col_min=10**18; col_max=0; first_empty=0
    for i in range(len(cols)-1):
        row=cells[cols[i]:cols[i+1]]
        ne=[j for j,c in enumerate(row) if c!=D]
        if ne:
            if row_min is None:
                row_min=i; first_empty=max(sum(reps[:i])-i,0)
            row_max=i
            col_min=min(col_min,ne[0]); col_max=max(col_max,ne[-1])
    if row_min is None: return None
    new=[]; empty=[D]*(col_max+1); er=0; ce=0
    ws=list(zip([(cols[i],cols[i+1]) for i in range(len(cols)-1)], reps))
    ws=ws[row_min:][:row_max+1]
    rm=row_max
    for (a,b),rr in ws:
        row=cells[a:b]
        if all(c==D for c in row):
            er+=rr; ce+=1; continue
        if er>0:
            rm=rm+er-ce
            for _ in range(er):
                new.extend(empty[col_min:] if fixed else empty)
            er=0; ce=0
        if rr>1: rm=rm+rr-1
        for _ in range(rr):
            if len(row)<col_max+1:
                new.extend(row[col_min:]); new.extend(empty[len(row):])
            elif len(row)==col_max+1: new.extend(row[col_min:])
            else: new.extend(row[col_min:col_max+1])
    return (row_min+first_empty,col_min,rm+first_empty,col_max,new)
def spec(rows):  # rows: list of (rep, [cells])
    grid={}
    r=0
    for rep,cs in rows:
        for _ in range(rep):
            for j,c in enumerate(cs):
                if c!=D: grid[(r,j)]=c
            r+=1
    if not grid: return None
    r0=min(p[0] for p in grid); r1=max(p[0] for p in grid); c0=min(p[1] for p in grid); c1=max(p[1] for p in grid)
    inner=[grid.get((r,c),D) for r in range(r0,r1+1) for c in range(c0,c1+1)]
    return (r0,c0,r1,c1,inner)
def gen():
    rows=[]
    for _ in range(random.randint(0,6)):
        rep=random.choice([1,1,1,2,3,5])
        n=random.randint(0,5)
        cs=[random.choice([D,D,1,2,3]) for _ in range(n)]
        # mimic read_row: trailing empties are never materialised
        if TRIM:
            while cs and cs[-1]==D: cs.pop()
        rows.append((rep,cs))
    return rows
def run(fixed,N=200000):
    bad=0; first=None
    for _ in range(N):
        rows=gen()
        cells=[]; cols=[0]; reps=[]
        for rep,cs in rows:
            cells.extend(cs); cols.append(len(cells)); reps.append(rep)
        try: got=get_range(cells,cols,reps,fixed)
        except Exception as e: got=('EXC',repr(e))
        exp=spec(rows)
        if got!=exp:
            bad+=1
            if first is None or len(str(rows))<len(str(first[0])): first=(rows,got,exp)
    return bad,first
TRIM=False
random.seed(2)
print("unfixed:",run(False,50000))
print("fixed  :",run(True))
