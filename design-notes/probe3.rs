use calamine::*;
fn show<E: std::fmt::Display>(r: Result<Range<Data>, E>) -> String { match r { Ok(r) => format!("start={:?} end={:?} cells={:?}", r.start(), r.end(), r.used_cells().collect::<Vec<_>>()), Err(e) => format!("range err {e}") } }
fn main() {
    let d = "/tmp/cal-probe/";
    for f in ["plain_v3", "plain_v3_big", "plain_v4_big", "plain_v4_small", "filepass_xor", "filepass_rc4", "badchain"] {
        let p = format!("{d}{f}.xls");
        let r = std::panic::catch_unwind(|| { match open_workbook::<Xls<_>, _>(&p) { Ok(mut w) => show(w.worksheet_range("S")), Err(e) => format!("open err: {e}") } });
        println!("PROBE {f}: {:?}", r.map_err(|_| "panic"));
    }
    for f in ["enc_pkg", "enc_pkg_small", "enc_pkg_v4"] {
        let p = format!("{d}{f}.xlsx");
        let r = std::panic::catch_unwind(|| { match open_workbook::<Xlsx<_>, _>(&p) { Ok(_) => "opened".to_string(), Err(e) => format!("open err: {e}") } });
        println!("PROBE {f}: {:?}", r.map_err(|_| "panic"));
    }
    let r = std::panic::catch_unwind(|| { match open_workbook::<Xlsb<_>, _>(format!("{d}probe.xlsb")) { Ok(mut w) => show(w.worksheet_range("S")), Err(e) => format!("open err: {e}") } });
    println!("PROBE xlsb: {:?}", r.map_err(|_| "panic"));
}
