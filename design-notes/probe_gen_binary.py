import struct, zipfile
END=0xFFFFFFFE; FREE=0xFFFFFFFF; FATSECT=0xFFFFFFFD
def cfb(streams, ss=512, major=3, bad_chain=None):
    """streams: list of (name, bytes). All streams >=4096 go to regular sectors; smaller to ministream."""
    shift = 9 if ss==512 else 12
    # build ministream
    mini = b''; minifat=[]; entries=[]
    regular=[]  # (name, data)
    for name,data in streams:
        if len(data) < 4096:
            start = len(mini)//64
            n = (len(data)+63)//64
            for i in range(n): minifat.append(start+i+1 if i<n-1 else END)
            mini += data + b'\0'*(n*64-len(data))
            entries.append((name, start if n else END, len(data), 'mini'))
        else:
            entries.append((name, None, len(data), 'reg')); regular.append(data)
    # sectors: 0=FAT,1=DIR, then minifat sectors, ministream sectors, regular streams
    sectors=[]; fat=[]
    def add_chain(data):
        n=(len(data)+ss-1)//ss
        start=len(sectors)+2
        for i in range(n):
            sectors.append(data[i*ss:(i+1)*ss].ljust(ss,b'\0'))
            fat.append(start+i+1 if i<n-1 else END)
        return start if n else END
    minifat_bytes = b''.join(struct.pack('<I',x) for x in minifat)
    minifat_start = add_chain(minifat_bytes.ljust(((len(minifat_bytes)+ss-1)//ss)*ss, b'\xff')) if minifat else END
    n_minifat = (len(minifat_bytes)+ss-1)//ss
    mini_start = add_chain(mini) if mini else END
    reg_starts=[add_chain(d) for d in regular]
    # directory
    def dirent(name, typ, start, size, child=FREE):
        n = name.encode('utf-16le')+b'\0\0'
        e = n.ljust(64,b'\0') + struct.pack('<H',len(n)) + bytes([typ,1]) + struct.pack('<III',FREE,FREE,child) + b'\0'*16 + struct.pack('<I',0) + b'\0'*16 + struct.pack('<I',start) + struct.pack('<Q',size)
        assert len(e)==128; return e
    d = dirent('Root Entry',5,mini_start,len(mini),child=1 if entries else FREE)
    ri=0
    for (name,start,size,kind) in entries:
        if kind=='reg': start=reg_starts[ri]; ri+=1
        d += dirent(name,2,start,size)
    per = ss//128
    while (len(d)//128)%per: d += dirent('',0,END,0) if False else (b'\0'*68+struct.pack('<III',FREE,FREE,FREE)+b'\0'*(128-80))
    assert len(d)==ss, "single dir sector only"
    fullfat=[FATSECT, END]+fat
    if bad_chain is not None:
        # corrupt: point first regular stream's first sector to bad id
        fullfat[reg_starts[0]] = bad_chain
    fatb=b''.join(struct.pack('<I',x) for x in fullfat).ljust(ss,b'\xff'); assert len(fatb)==ss
    hdr = bytes.fromhex('D0CF11E0A1B11AE1')+b'\0'*16+struct.pack('<HHHHH',0x3E,major,0xFFFE,shift,6)+b'\0'*6
    hdr += struct.pack('<IIIIIIIII', (1 if major==4 else 0), 1, 1, 0, 4096, minifat_start, n_minifat, END, 0)
    hdr += struct.pack('<I',0) + b'\xff'*(4*108)
    assert len(hdr)==512
    hdr = hdr.ljust(ss,b'\0')
    return hdr+fatb+d+b''.join(sectors)
def rec(t,data): return struct.pack('<HH',t,len(data))+data
def sstr(s): return bytes([len(s),0])+s.encode('latin1')
def biff(cells, filepass=None, pad=0, date1904=False):
    g = rec(0x0809, struct.pack('<HHHHII',0x0600,0x0005,0,0,0,0))
    if filepass is not None: g += rec(0x002F, filepass)
    g += rec(0x0042, struct.pack('<H',1200))
    if date1904: g+=rec(0x0022, struct.pack('<H',1))
    g += rec(0x00E0, struct.pack('<HH',0,0)+b'\0'*16)   # xf0 general
    g += rec(0x00E0, struct.pack('<HH',0,14)+b'\0'*16)  # xf1 date
    bs_len = 4+8+len(sstr('S'))-2+2
    bs = lambda pos: rec(0x0085, struct.pack('<IBB',pos,0,0)+sstr('S'))
    eof = rec(0x000A,b'')
    pos = len(g)+len(bs(0))+len(eof)
    g += bs(pos)+eof
    s = rec(0x0809, struct.pack('<HHHHII',0x0600,0x0010,0,0,0,0)) + cells + eof
    return g+s+b'\0'*pad
def number(r,c,xf,v): return rec(0x0203, struct.pack('<HHHd',r,c,xf,v))
def rk(r,c,xf,rkv): return rec(0x027E, struct.pack('<HHHI',r,c,xf,rkv))
wbk = biff(number(0,0,0,1.5)+rk(1,1,1,(44197<<2)|2))
open('plain_v3.xls','wb').write(cfb([('Workbook',wbk)]))
open('plain_v3_big.xls','wb').write(cfb([('Workbook',biff(number(0,0,0,1.5),pad=5000))]))
open('plain_v4_big.xls','wb').write(cfb([('Workbook',biff(number(0,0,0,1.5),pad=5000))],ss=4096,major=4))
open('plain_v4_small.xls','wb').write(cfb([('Workbook',wbk)],ss=4096,major=4))
open('filepass_xor.xls','wb').write(cfb([('Workbook',biff(number(0,0,0,1.5),filepass=struct.pack('<HHH',0,0x1234,0x5678)))]))
open('filepass_rc4.xls','wb').write(cfb([('Workbook',biff(number(0,0,0,1.5),filepass=struct.pack('<HHH',1,1,1)+b'\0'*48))]))
open('badchain.xls','wb').write(cfb([('Workbook',biff(number(0,0,0,1.5),pad=5000))],bad_chain=0x00FFFFF0))
open('cycle.xls','wb').write(cfb([('Workbook',biff(number(0,0,0,1.5),pad=5000))],bad_chain=2))
open('enc_pkg.xlsx','wb').write(cfb([('EncryptionInfo',b'\x04\0\x04\0'+b'x'*100),('EncryptedPackage',b'y'*5000)]))
open('enc_pkg_small.xlsx','wb').write(cfb([('EncryptionInfo',b'\x04\0\x04\0'+b'x'*100),('EncryptedPackage',b'y'*500)]))
open('enc_pkg_v4.xlsx','wb').write(cfb([('EncryptionInfo',b'\x04\0\x04\0'+b'x'*5000),('EncryptedPackage',b'y'*5000)],ss=4096,major=4))
# xlsb
def vint(n,maxb):
    out=b''
    for i in range(maxb):
        b=n&0x7F; n>>=7
        if n: out+=bytes([b|0x80])
        else: out+=bytes([b]); break
    return out
def brt(t,data=b''):
    tb = bytes([t]) if t<0x80 else bytes([(t&0x7F)|0x80, t>>7])
    return tb+vint(len(data),4)+data
def wstr(s): return struct.pack('<I',len(s))+s.encode('utf-16le')
def xlsb(path, cells, styles=None):
    z=zipfile.ZipFile(path,'w',zipfile.ZIP_DEFLATED)
    wb = brt(0x0083)+brt(0x0099,struct.pack('<III',0,0,0)+wstr(''))+brt(0x008F)+brt(0x009C,struct.pack('<II',0,1)+wstr('rId1')+wstr('S'))+brt(0x0090)+brt(0x0084)
    z.writestr('xl/workbook.bin',wb)
    z.writestr('xl/_rels/workbook.bin.rels','<Relationships xmlns="http://schemas.openxmlformats.org/package/2006/relationships"><Relationship Id="rId1" Type="x" Target="worksheets/sheet1.bin"/></Relationships>')
    sh = brt(0x0081)+brt(0x0094,struct.pack('<IIII',0,10,0,10))+brt(0x0091)+cells+brt(0x0092)+brt(0x0082)
    z.writestr('xl/worksheets/sheet1.bin',sh)
    if styles: z.writestr('xl/styles.bin',styles)
    z.close()
def row(r): return brt(0x0000, struct.pack('<I',r)+b'\0'*13)
def cellhdr(c,style): return struct.pack('<I',c)+struct.pack('<I',style)[:3]+b'\0'
styles = brt(0x0116)+brt(0x0267,struct.pack('<I',0))+brt(0x0268)+brt(0x0269,struct.pack('<I',2))+brt(0x002F,struct.pack('<HH',0xFFFF,0)+b'\0'*12)+brt(0x002F,struct.pack('<HH',0xFFFF,14)+b'\0'*12)+brt(0x026A)+brt(0x0117)
cells = row(0)+brt(0x0002,cellhdr(0,1)+struct.pack('<I',(44197<<2)|2))+brt(0x0005,cellhdr(1,1)+struct.pack('<d',44197.0)) \
      + row(1)+brt(0x000B,cellhdr(0,0)+bytes([0x07])+struct.pack('<H',0)+struct.pack('<I',2)+bytes([0x1C,0x07])+struct.pack('<I',0))+brt(0x0003,cellhdr(1,0)+bytes([0x07]))
xlsb('probe.xlsb',cells,styles)
