import random
OTHER,DT,TD='Other','DateTime','TimeDelta'
def detect(fmt, fixed=True):
    escaped=False; quote=False; brackets=0; prev=' '; hms=False; ap=False
    for s in fmt:
        done=False
        if escaped: escaped=False
        elif fixed and quote and s=='"': quote=False
        elif fixed and quote: pass
        elif s in '_\\': escaped=True
        elif s=='"' and quote: quote=False
        elif quote: pass
        elif s=='"': quote=True
        elif s==';': return OTHER
        elif s=='[':
            brackets+=1
            if brackets>255: raise OverflowError
        elif s==']' and brackets==1 and hms: return TD
        elif s==']': brackets=max(brackets-1,0)
        elif s in 'aA' and not ap and brackets==0: ap=True
        elif s in 'pm/PM' and ap and brackets==0: return DT
        elif s in 'dmhysDMHYS' and not ap and brackets==0: return DT
        else:
            if hms and s.lower()==prev.lower(): pass
            else: hms = prev=='[' and s in 'mhsMHS'
        prev=s
    return OTHER
# grammar
NEUTRAL_LIT='$-+():!^&\'~{}<>= '
NUMCH='0#?.,%'
def rcase(s): return ''.join(random.choice([c.lower(),c.upper()]) for c in s)
def gen_lit():
    n=random.randint(0,4)
    return '"'+''.join(random.choice('abdmhys_\;[]AM/P 0x') for _ in range(n))+'"'
def gen_esc(): return random.choice('\\_')+random.choice('dmhys"\\_;[]aAx0 ')
def gen_fill(): return '*'+random.choice(' -x0')
COLORS=['Red','Blue','Magenta','Green','Black','White','Cyan','Yellow','Color5','Color 12']
def gen_brk():
    k=random.random()
    if k<0.3: return '['+rcase(random.choice(COLORS))+']'
    if k<0.5: return '['+random.choice(['>','<','>=','<=','=','<>'])+str(random.choice([0,1,100,-5,0.5]))+']'
    if k<0.8: return '[$'+random.choice(['','€','USD','¥','kr.','m','h','s','d'])+'-'+random.choice(['409','407','F800','F400','1010409','x-sysdate'])+']'
    if k<0.9: return '[DBNum'+str(random.randint(1,4))+']'
    return '['+random.choice(['hm','sx','mh','Mx','hhm'])+']'   # bracket bodies that start like elapsed but are not
def gen_elapsed(): 
    c=random.choice('hms'); return '['+rcase(c*random.randint(1,3))+']'
def gen_datetok():
    k=random.random()
    if k<0.75: c=random.choice('dmyhs'); return rcase(c*random.randint(1,5))
    return random.choice(['AM/PM','am/pm','A/P','a/p','Am/Pm'])
def gen_num(): return random.choice(list(NUMCH)+list(NEUTRAL_LIT)+['E+','E-','e+','@','/','1','9'])
def gen_neutral(allow_slash=True):
    k=random.random()
    if k<0.2: return gen_lit()
    if k<0.35: return gen_esc()
    if k<0.4: return gen_fill()
    if k<0.6: return gen_brk()
    while True:
        t=gen_num()
        if allow_slash or t!='/': return t
def gen_section():
    """returns (text, class)"""
    kind=random.random()
    toks=[]; cls=OTHER
    if kind<0.15:   # General section
        for _ in range(random.randint(0,2)): toks.append(gen_brk())
        toks.append(random.choice(['General','GENERAL','general']))
        for _ in range(random.randint(0,3)): toks.append(random.choice([gen_lit(),gen_esc()]))
        return ''.join(toks),OTHER
    n=random.randint(0,7)
    has_date = kind>0.5
    seq=[]
    for _ in range(n): seq.append(('n',gen_neutral()))
    if has_date:
        # insert date-ish tokens at random positions
        for _ in range(random.randint(1,3)):
            pos=random.randint(0,len(seq))
            if random.random()<0.3: seq.insert(pos,('e',gen_elapsed()))
            else: seq.insert(pos,('d',gen_datetok()))
        for k,t in seq:
            if k=='d': cls=DT; break
            if k=='e': cls=TD; break
    return ''.join(t for _,t in seq),cls
def gen_fmt():
    s,c=gen_section()
    rest=''
    for _ in range(random.randint(0,3)):
        rest+=';'+''.join(random.choice('dmhys"\\_[]aAx0;@ #') for _ in range(random.randint(0,6)))
    return s+rest,c
random.seed(7)
bad=[]
for i in range(400000):
    f,c=gen_fmt()
    g=detect(f,True)
    if g!=c: bad.append((f,c,g))
print("fixed scanner mismatches:",len(bad)); 
for b in sorted(bad,key=lambda x:len(x[0]))[:15]: print("  ",b)
bad2=[ (f,c,detect(f,False)) for f,c in (gen_fmt() for _ in range(100000)) ]
bad2=[b for b in bad2 if b[1]!=b[2]]
print("unfixed scanner mismatches:",len(bad2))
for b in sorted(bad2,key=lambda x:len(x[0]))[:5]: print("  ",b)
