import random, struct
def bitcount(diff):
    for i in range(4,16):
        if (1<<i)>=diff: return i
    raise ValueError
def decompress(s, fixed=True):
    res=bytearray()
    if s[0]!=1: raise ValueError('sig')
    i=1
    while i<len(s):
        hdr=s[i]|(s[i+1]<<8); i+=2
        start=len(res)
        size=hdr&0xFFF; sig=(hdr>>12)&7; flag=hdr>>15
        assert sig==3, "sig assert"
        if flag==0:
            chunk=s[i:i+4096]; assert len(chunk)==4096; res+=chunk; i+=4096
        else:
            clen=0
            brk=False
            while True:
                if i>=len(s): break
                if fixed and clen>size: break
                flags=s[i]; i+=1; clen+=1
                for b in range(8):
                    if clen>size: brk=True; break
                    if flags&(1<<b)==0:
                        res.append(s[i]); i+=1; clen+=1
                    else:
                        tok=s[i]|(s[i+1]<<8); i+=2; clen+=2
                        d=len(res)-start; bc=bitcount(d)
                        lm=0xFFFF>>bc
                        ln=(tok&lm)+3; off=((tok&~lm&0xFFFF)>>(16-bc))+1
                        assert off<=len(res), "underflow"
                        for _ in range(ln): res.append(res[-off])
                if brk: break
    return bytes(res)
def gen_chunk(last):
    """returns (serialized chunk bytes, expansion)"""
    if random.random()<0.15 and True:
        data=bytes(random.randrange(256) for _ in range(4096))
        return struct.pack('<H',0x3000|4095)+data, data
    target = random.choice([1,2,7,8,9,16,17,100,4096]) if last else 4096
    out=bytearray(); toks=[]
    while len(out)<target:
        d=len(out)
        if d>=1 and random.random()<0.5 and target-d>=3:
            bc=bitcount(d); lm=0xFFFF>>bc
            off=random.randint(1,d) if random.random()<0.7 else random.choice([1,d])
            ln=random.randint(3,min(lm+3,target-d)) if random.random()<0.7 else min(lm+3,target-d)
            toks.append(('c',off,ln,bc))
            for _ in range(ln): out.append(out[-off])
        else:
            b=random.randrange(256) if random.random()<0.3 else random.choice(b'ab ')
            toks.append(('l',b)); out.append(b)
    # force group-boundary case sometimes: make token count multiple of 8 by trimming? just record
    data=bytearray()
    for g in range(0,len(toks),8):
        grp=toks[g:g+8]; fb=0; body=bytearray()
        for k,t in enumerate(grp):
            if t[0]=='l': body.append(t[1])
            else:
                fb|=1<<k; _,off,ln,bc=t
                tok=((off-1)<<(16-bc))|(ln-3); body+=struct.pack('<H',tok)
        data.append(fb); data+=body
    if len(data)>4096: return None
    return struct.pack('<H',0xB000|(len(data)-1)), bytes(out), bytes(data), len(toks)%8==0
def gen_container():
    n=random.randint(1,4); s=bytearray([1]); exp=bytearray(); boundary=False
    for k in range(n):
        last = k==n-1
        while True:
            c=gen_chunk(last)
            if c is not None: break
        if len(c)==2: s+=c[0]; exp+=c[1]
        else:
            s+=c[0]+c[2]; exp+=c[1]
            if c[3] and not last: boundary=True
    return bytes(s),bytes(exp),boundary
random.seed(3)
for fixed in (False,True):
    bad=0; nb=0; ex=None
    for _ in range(3000):
        s,e,b=gen_container(); nb+=b
        try: r=decompress(s,fixed)
        except Exception as x: r=('EXC',str(x))
        if r!=e:
            bad+=1
            if ex is None: ex=(len(s),b,r if isinstance(r,tuple) else 'wrong bytes')
    print("fixed" if fixed else "unfixed","mismatches",bad,"of 3000; containers with non-final chunk ending on a flag-group boundary:",nb,"first:",ex)
