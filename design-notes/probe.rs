use calamine::*;
fn main() {
    let d = "/tmp/cal-probe/";
    for f in ["si_empty", "ns_rich", "pr1904", "relprefix", "implicit"] {
        let r = std::panic::catch_unwind(|| {
            let mut wb: Xlsx<_> = match open_workbook(format!("{d}{f}.xlsx")) { Ok(w) => w, Err(e) => { return format!("open err {e}") } };
            match wb.worksheet_range("S") { Ok(r) => format!("start={:?} end={:?} cells={:?}", r.start(), r.end(), r.used_cells().collect::<Vec<_>>()), Err(e) => format!("range err {e}") }
        });
        println!("PROBE {f}: {:?}", r.map_err(|_| "panic"));
    }
    let mut wb: Xlsx<_> = open_workbook(format!("{d}shared.xlsx")).unwrap();
    println!("PROBE shared: {:?}", wb.worksheet_formula("S").map(|r| r.used_cells().map(|(r,c,v)| (r,c,v.clone())).collect::<Vec<_>>()).map_err(|e| e.to_string()));
    let mut wb: Xlsx<_> = open_workbook(format!("{d}table.xlsx")).unwrap();
    wb.load_tables().unwrap();
    let t = wb.table_by_name("T").unwrap();
    println!("PROBE table: cols={:?} start={:?} end={:?} (declared B2:C5, header 0, totals 1 => data B2:C4 = (1,1)-(3,2))", t.columns(), t.data().start(), t.data().end());
}
