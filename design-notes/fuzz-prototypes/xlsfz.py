import struct, random, sys, subprocess, os
from cfbw import cfb_write
ERR={0x00:'Null',0x07:'Div0',0x0F:'Value',0x17:'Ref',0x1D:'Name',0x24:'Num',0x2A:'NA',0x2B:'GettingData'}
def rec(t,data):
    assert len(data)<=8224
    return struct.pack('<HH',t,len(data))+data
def f64bits(x): return struct.unpack('<Q',struct.pack('<d',x))[0]
def rand_str(rnd, maxlen=12):
    n=rnd.choice([0,1,2,3,5,8,maxlen,40]) 
    k=rnd.random()
    if k<0.5: alpha='abcXYZ 019&<>"\''
    elif k<0.8: alpha='abcé ü£ÿ'
    else: alpha='aЖы中文😀é'
    return ''.join(rnd.choice(alpha) for _ in range(n))
def units(s): 
    b=s.encode('utf-16le'); return [b[i:i+2] for i in range(0,len(b),2)]
def xlstr16(s, rnd, force16=None):
    """XLUnicodeString: cch u16, flags, chars"""
    u=units(s); can8=all(x[1]==0 for x in u)
    use8 = can8 and (rnd.random()<0.6) if force16 is None else (not force16 and can8)
    return struct.pack('<HB',len(u),0 if use8 else 1)+(b''.join(x[:1] for x in u) if use8 else b''.join(u))
def short_str(s,rnd):
    u=units(s); can8=all(x[1]==0 for x in u); use8=can8 and rnd.random()<0.6
    return struct.pack('<BB',len(u),0 if use8 else 1)+(b''.join(x[:1] for x in u) if use8 else b''.join(u))
def build_sst(strings, rnd, frag_hint):
    """returns list of record payload fragments [first(SST data), cont1, cont2...] with random legal splits"""
    frags=[]; cur=bytearray(struct.pack('<II',len(strings)+3,len(strings)))
    limit=lambda: rnd.choice([frag_hint, frag_hint*2, 8224]) 
    lim=max(limit(),len(cur)+1)
    def newfrag():
        nonlocal cur,lim
        frags.append(bytes(cur)); cur=bytearray(); lim=limit()
    for s in strings:
        u=units(s); rich=rnd.random()<0.2; ext=rnd.random()<0.15
        crun=rnd.randint(1,3) if rich else 0; cbext=rnd.randint(1,30) if ext else 0
        can8_all=all(x[1]==0 for x in u)
        first8 = can8_all and rnd.random()<0.6  # header flag applies to first segment
        hdrlen=3+(2 if rich else 0)+(4 if ext else 0)
        if len(cur)+hdrlen>lim or (rnd.random()<0.15 and len(cur)>0): newfrag()
        # segments of chars
        i=0; n=len(u)
        # first segment: decide how many chars fit
        hdr=struct.pack('<H',n)
        segs=[]
        # choose segment boundaries randomly
        pos=0
        while pos<n:
            seglen=rnd.randint(1,n-pos) if rnd.random()<0.5 else n-pos
            # avoid splitting surrogate pairs
            end=pos+seglen
            if end<n and 0xDC00<=struct.unpack('<H',u[end])[0]<=0xDFFF: end+=1
            segs.append((pos,end)); pos=end
        if not segs: segs=[(0,0)]
        flags_first=None
        for k,(a,b) in enumerate(segs):
            seg=u[a:b]; can8=all(x[1]==0 for x in seg)
            use8 = can8 and rnd.random()<0.6
            body=(b''.join(x[:1] for x in seg) if use8 else b''.join(seg))
            fl=(0 if use8 else 1)
            if k==0:
                cur+=hdr+bytes([fl|(8 if rich else 0)|(4 if ext else 0)])
                if rich: cur+=struct.pack('<H',crun)
                if ext: cur+=struct.pack('<i',cbext)
                cur+=body
            else:
                newfrag(); cur+=bytes([fl])+body
        # runs and ext: may be split at arbitrary byte positions (runs at 4-byte units)
        runs=bytes(rnd.randrange(256) for _ in range(4*crun))
        for r in range(crun):
            if rnd.random()<0.3: newfrag()
            cur+=runs[4*r:4*r+4]
        extb=bytes(rnd.randrange(256) for _ in range(cbext))
        p=0
        while p<len(extb):
            if rnd.random()<0.3: newfrag()
            q=rnd.randint(p+1,len(extb)); cur+=extb[p:q]; p=q
    frags.append(bytes(cur))
    return frags
def gen_workbook(rnd):
    nsheets=rnd.randint(1,3)
    names=[]
    while len(names)<nsheets:
        n=rand_str(rnd,8).replace('\0','') or 'S'
        n=n[:31]
        if n not in names and len(units(n))<=31 and len(units(n))>0: names.append(n)
    strings=[rand_str(rnd) for _ in range(rnd.randint(0,8))]
    sheets=[]
    for sn in names:
        cells={}
        nrows=rnd.randint(0,6)
        rows=sorted(rnd.sample([0,1,2,3,7,100,255,256,1000,40000,65535],min(nrows,11)))
        recs=[]
        for r in rows:
            cols=sorted(rnd.sample([0,1,2,3,4,5,25,26,27,100,254,255],rnd.randint(1,6)))
            i=0
            while i<len(cols):
                c=cols[i]; k=rnd.random()
                xf=0
                if k<0.15:
                    v=rnd.choice([0.0,1.5,-2.25,1e300,123456.789,float(rnd.randint(-10**6,10**6))/7])
                    recs.append((0x0203,struct.pack('<HHHd',r,c,xf,v))); cells[(r,c)]='F:%016x'%f64bits(v)
                elif k<0.35:
                    # RK
                    if rnd.random()<0.5:
                        iv=rnd.choice([0,1,-1,5,-5,100,12345,-12300,2**29-1,-2**29, rnd.randint(-2**29,2**29-1)])
                        d100=rnd.random()<0.4
                        rk=((iv&0x3FFFFFFF)<<2)|2|(1 if d100 else 0)
                        if d100:
                            if iv%100==0: exp='I:%d'%(int(iv/100) if iv>=0 else -((-iv)//100))
                            else: exp='F:%016x'%f64bits(float(iv)/100.0)
                        else: exp='I:%d'%iv
                    else:
                        v=rnd.choice([1.0,0.5,-3.0,1234.0,2.0**40,-0.0])
                        bits=f64bits(v)&0xFFFFFFFC00000000
                        d100=rnd.random()<0.4
                        rk=(bits>>32)|(1 if d100 else 0)
                        fv=struct.unpack('<d',struct.pack('<Q',bits))[0]
                        exp='F:%016x'%f64bits(fv/100.0 if d100 else fv)
                    recs.append((0x027E,struct.pack('<HHHI',r,c,xf,rk))); cells[(r,c)]=exp
                elif k<0.45 and i+1<len(cols) and cols[i+1]==c+1:
                    # MULRK over consecutive columns
                    j=i
                    body=b''
                    while j<len(cols) and cols[j]==c+(j-i) and j-i<4:
                        iv=rnd.randint(-1000,1000); body+=struct.pack('<HI',xf,((iv&0x3FFFFFFF)<<2)|2); cells[(r,cols[j])]='I:%d'%iv; j+=1
                    recs.append((0x00BD,struct.pack('<HH',r,c)+body+struct.pack('<H',cols[j-1]))); i=j; continue
                elif k<0.6 and strings:
                    si=rnd.randrange(len(strings)); recs.append((0x00FD,struct.pack('<HHHI',r,c,xf,si)))
                    if strings[si]!='': cells[(r,c)]='S:'+strings[si].encode().hex()
                elif k<0.68:
                    s=rand_str(rnd) or 'q'; recs.append((0x0204,struct.pack('<HHH',r,c,xf)+xlstr16(s,rnd))); cells[(r,c)]='S:'+s.encode().hex()
                elif k<0.78:
                    if rnd.random()<0.5:
                        b=rnd.randint(0,1); recs.append((0x0205,struct.pack('<HHHBB',r,c,xf,b,0))); cells[(r,c)]='B:%d'%b
                    else:
                        e=rnd.choice(list(ERR)); recs.append((0x0205,struct.pack('<HHHBB',r,c,xf,e,1))); cells[(r,c)]='E:'+ERR[e]
                else:
                    # FORMULA with cached value; rgce = PtgInt 1
                    rg=bytes([0x1E,1,0]); kind=rnd.random()
                    tail=struct.pack('<HIH',0,0,len(rg))+rg
                    if kind<0.3:
                        v=rnd.choice([2.0,-7.5,1e10]); recs.append((0x0006,struct.pack('<HHHd',r,c,xf,v)+tail)); cells[(r,c)]='F:%016x'%f64bits(v)
                    elif kind<0.5:
                        b=rnd.randint(0,1); recs.append((0x0006,struct.pack('<HHH',r,c,xf)+bytes([1,0,b,0,0,0,0xFF,0xFF])+tail)); cells[(r,c)]='B:%d'%b
                    elif kind<0.7:
                        e=rnd.choice(list(ERR)); recs.append((0x0006,struct.pack('<HHH',r,c,xf)+bytes([2,0,e,0,0,0,0xFF,0xFF])+tail)); cells[(r,c)]='E:'+ERR[e]
                    else:
                        s=rand_str(rnd) or 'x'
                        recs.append((0x0006,struct.pack('<HHH',r,c,xf)+bytes([0,0,0,0,0,0,0xFF,0xFF])+tail))
                        if rnd.random()<0.3: recs.append((0x04BC,b'\0'*8))   # unrelated record between FORMULA and STRING
                        recs.append((0x0207,xlstr16(s,rnd))); cells[(r,c)]='S:'+s.encode().hex()
                # ignorable records
                if rnd.random()<0.2: recs.append((rnd.choice([0x0201,0x0208,0x00D7,0x1234]),bytes(rnd.randrange(256) for _ in range(rnd.randint(0,20)))))
                i+=1
        sheets.append((sn,cells,recs))
    return names,strings,sheets
def encode(names,strings,sheets,rnd):
    g=rec(0x0809,struct.pack('<HHHHII',0x0600,0x0005,0,0,0,0))+rec(0x0042,struct.pack('<H',1200))
    g+=rec(0x00E0,struct.pack('<HH',0,0)+b'\0'*16)
    sst=build_sst(strings,rnd,rnd.choice([12,30,100,8224]))
    sstb=rec(0x00FC,sst[0])+b''.join(rec(0x003C,f) for f in sst[1:])
    eof=rec(0x000A,b'')
    # sheet substreams
    subs=[]
    for sn,cells,recs in sheets:
        s=rec(0x0809,struct.pack('<HHHHII',0x0600,0x0010,0,0,0,0))
        for t,d in recs: s+=rec(t,d)
        s+=eof; subs.append(s)
    bss=[short_str(sn,rnd) for sn in names]
    glen=len(g)+sum(4+6+len(b) for b in bss)+len(sstb)+len(eof)
    pos=glen; bs=b''
    for b,s in zip(bss,subs):
        bs+=rec(0x0085,struct.pack('<IBB',pos,0,0)+b); pos+=len(s)
    return g+bs+sstb+eof+b''.join(subs)
def expected_dump(names,sheets):
    out=[]
    for sn,cells,_ in sheets:
        out.append('sheet %s WorkSheet Visible'%sn.encode().hex())
        if cells:
            rs=[p[0] for p in cells]; cs=[p[1] for p in cells]
            out.append(' range Some((%d, %d)) Some((%d, %d))'%(min(rs),min(cs),max(rs),max(cs)))
        else: out.append(' range None None')
        for (r,c) in sorted(cells): out.append(' cell %d %d %s'%(r,c,cells[(r,c)]))
    return out
def main(seed,N):
    rnd=random.Random(seed); os.makedirs('out',exist_ok=True)
    cases=[]
    for i in range(N):
        names,strings,sheets=gen_workbook(rnd)
        wb=encode(names,strings,sheets,rnd)
        pad=rnd.choice([0,0,4096,9000]); wb2=wb+b'\0'*pad
        ss=rnd.choice([512,512,4096])
        f=cfb_write([('Workbook',wb2)]+([('Junk',bytes(rnd.randrange(256) for _ in range(rnd.choice([10,100,5000]))))] if rnd.random()<0.5 else []),rnd,ss=ss,shuffle=rnd.random()<0.7,extra_free=rnd.choice([0,0,3]),unused_dirs=rnd.choice([0,0,2,5]))
        p='out/x%05d.xls'%i; open(p,'wb').write(f); cases.append((p,expected_dump(names,sheets)))
    out=''
    for c in cases:
        try:
            o=subprocess.run(['/tmp/cal-fix/target/debug/examples/dump','xls',c[0]],capture_output=True,text=True,timeout=10).stdout
        except subprocess.TimeoutExpired:
            o='FILE %s\nTIMEOUT\nEND\n'%c[0]
        out+=o
    blocks=out.split('FILE ')[1:]
    bad=0
    for (p,exp),b in zip(cases,blocks):
        lines=b.split('\n'); assert lines[0]==p,(lines[0],p)
        got=[l for l in lines[1:] if l and l!='END' and not l.startswith(' fml')]
        got=[l for l in got if not l.startswith('name ')]
        if got!=exp:
            bad+=1
            if bad<=3:
                print('MISMATCH',p); 
                for a,b2 in zip(got+['<none>']*10,exp+['<none>']*10):
                    if a!=b2: print('   got:',a,'\n   exp:',b2); break
    print('seed',seed,'cases',N,'mismatches',bad)
if __name__=='__main__': main(int(sys.argv[1]),int(sys.argv[2]))
