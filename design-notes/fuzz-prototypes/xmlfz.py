import random, sys, subprocess, zipfile, struct, os
from xml.sax.saxutils import escape, quoteattr
import os
DUMP=os.environ.get('DUMP','/tmp/cal-fix/target/debug/examples/dump')
def f64bits(x): return struct.unpack('<Q',struct.pack('<d',x))[0]
def colname(c):
    s=''; n=c+1
    while n>0: s=chr(65+(n-1)%26)+s; n=(n-1)//26
    return s
def rand_str(rnd):
    n=rnd.choice([0,1,2,3,5,8,20])
    alpha=rnd.choice(['abc XYZ019','a&<>"\' b','  x  y ','aé中😀\t','line1\nline2'])
    return ''.join(rnd.choice(alpha) for _ in range(n))
def gen_sheet(rnd, maxrow, maxcol):
    cells={}
    rows=sorted(rnd.sample(range(0,maxrow),rnd.randint(0,min(6,maxrow))))
    for r in rows:
        for c in sorted(rnd.sample(range(0,maxcol),rnd.randint(1,min(5,maxcol)))):
            k=rnd.random()
            if k<0.3: v=('n',rnd.choice([0.0,1.5,-2.25,1e300,1/3,123456789.0,float(rnd.randint(-999,999))]))
            elif k<0.55: v=('s',rand_str(rnd))
            elif k<0.65: v=('b',rnd.randint(0,1))
            elif k<0.75: v=('e',rnd.choice(['#DIV/0!','#N/A','#NAME?','#NULL!','#NUM!','#REF!','#VALUE!']))
            elif k<0.8: v=('d','2021-01-0%dT10:00:00'%rnd.randint(1,9))
            elif k<0.9: v=('date',float(rnd.randint(1,50000))+rnd.choice([0,0.5]))
            else: v=('empty',None)
            cells[(r,c)]=v
    return cells
ERRN={'#DIV/0!':'Div0','#N/A':'NA','#NAME?':'Name','#NULL!':'Null','#NUM!':'Num','#REF!':'Ref','#VALUE!':'Value'}
def expect(cells, is1904=False):
    out={}
    for p,(t,v) in cells.items():
        if t=='n': out[p]='F:%016x'%f64bits(v)
        elif t=='s': out[p]='S:'+v.encode().hex()
        elif t=='b': out[p]='B:%d'%v
        elif t=='e': out[p]='E:'+ERRN[v]
        elif t=='d': out[p]='DI:'+v.encode().hex()
        elif t=='date': out[p]='D:%016x:ExcelDateTime { value: %s, datetime_type: DateTime, is_1904: %s }'%(f64bits(v),repr(v),'true' if is1904 else 'false')
    return out
def dump_expected(sheets, exps):
    out=[]
    for (name,_),cells in zip(sheets,exps):
        out.append('sheet %s WorkSheet Visible'%name.encode().hex())
        if cells:
            rs=[p[0] for p in cells]; cs=[p[1] for p in cells]
            out.append(' range Some((%d, %d)) Some((%d, %d))'%(min(rs),min(cs),max(rs),max(cs)))
        else: out.append(' range None None')
        for p in sorted(cells): out.append(' cell %d %d %s'%(p[0],p[1],cells[p]))
    return out
NS='http://schemas.openxmlformats.org/spreadsheetml/2006/main'
def xlsx_write(path, sheets, rnd):
    pre=rnd.choice(['','x:'])
    nsdecl=('xmlns="%s"'%NS) if pre=='' else ('xmlns:x="%s"'%NS)
    sst=[]; 
    def sst_idx(s):
        if rnd.random()<0.5 and s in sst: return sst.index(s)
        sst.append(s); return len(sst)-1
    def T(s): return '<%st xml:space="preserve">%s</%st>'%(pre,escape(s).replace('\n','&#10;').replace('\t','&#9;'),pre)
    parts={}
    is1904=rnd.random()<0.3
    for si,(name,cells) in enumerate(sheets):
        x='<%sworksheet %s>'%(pre,nsdecl)
        dm=rnd.random()
        if dm<0.3: x+='<%sdimension ref="A1:C3"/>'%pre
        elif dm<0.5 and cells:
            rs=[p[0] for p in cells]; cs=[p[1] for p in cells]
            x+='<%sdimension ref="%s%d:%s%d"/>'%(pre,colname(min(cs)),min(rs)+1,colname(max(cs)),max(rs)+1)
        x+='<%ssheetData>'%pre
        rows=sorted(set(p[0] for p in cells))
        cur_row=0
        for r in rows:
            explicit_row = (r!=cur_row) or rnd.random()<0.6
            x+='<%srow%s>'%(pre,' r="%d"'%(r+1) if explicit_row else '')
            cur_col=0
            for c in sorted(p[1] for p in cells if p[0]==r):
                t,v=cells[(r,c)]
                explicit = (c!=cur_col) or (not explicit_row and False) or rnd.random()<0.6
                # implicit cell ref only legal if cursor matches; row part of cursor is r only if row explicit or sequential
                ref=' r="%s%d"'%(colname(c) if rnd.random()<0.8 else colname(c).lower(),r+1) if explicit else ''
                if t=='n':
                    tt=rnd.choice(['',' t="n"']); x+='<%sc%s%s><%sv>%s</%sv></%sc>'%(pre,ref,tt,pre,repr(v),pre,pre)
                elif t=='s':
                    k=rnd.random()
                    if k<0.4: x+='<%sc%s t="s"><%sv>%d</%sv></%sc>'%(pre,ref,pre,sst_idx(v),pre,pre)
                    elif k<0.7: x+='<%sc%s t="inlineStr"><%sis>%s</%sis></%sc>'%(pre,ref,pre,T(v),pre,pre)
                    else: x+='<%sc%s t="str"><%sf>A1</%sf><%sv>%s</%sv></%sc>'%(pre,ref,pre,pre,pre,escape(v).replace('\n','&#10;').replace('\t','&#9;'),pre,pre)
                elif t=='b': x+='<%sc%s t="b"><%sv>%d</%sv></%sc>'%(pre,ref,pre,v,pre,pre)
                elif t=='e': x+='<%sc%s t="e"><%sv>%s</%sv></%sc>'%(pre,ref,pre,escape(v),pre,pre)
                elif t=='d': x+='<%sc%s t="d"><%sv>%s</%sv></%sc>'%(pre,ref,pre,v,pre,pre)
                elif t=='date': x+='<%sc%s s="1"><%sv>%s</%sv></%sc>'%(pre,ref,pre,repr(v),pre,pre)
                else: x+='<%sc%s s="1"/>'%(pre,ref) if rnd.random()<0.5 else '<%sc%s t="s"></%sc>'%(pre,ref,pre)
                cur_col=c+1
            x+='</%srow>'%pre
            cur_row=r+1
        x+='</%ssheetData></%sworksheet>'%(pre,pre)
        parts['xl/worksheets/sheet%d.xml'%(si+1)]=x
    # rich variants for sst
    ss='<%ssst %s>'%(pre,nsdecl)
    for s in sst:
        k=rnd.random()
        if k<0.6 or len(s)<2: ss+='<%ssi>%s</%ssi>'%(pre,T(s),pre)
        else:
            m=rnd.randint(1,len(s)-1)
            ss+='<%ssi><%sr><%srPr/>%s</%sr><%sr>%s</%sr><%srPh><%st>PHON</%st></%srPh></%ssi>'%(pre,pre,pre,T(s[:m]),pre,pre,T(s[m:]),pre,pre,pre,pre,pre,pre)
    ss+='</%ssst>'%pre
    parts['xl/sharedStrings.xml']=ss
    parts['xl/styles.xml']='<%sstyleSheet %s><%snumFmts count="1"><%snumFmt numFmtId="164" formatCode="yyyy\\-mm\\-dd"/></%snumFmts><%scellXfs count="2"><%sxf numFmtId="0"/><%sxf numFmtId="%s"/></%scellXfs></%sstyleSheet>'%(pre,nsdecl,pre,pre,pre,pre,pre,pre,rnd.choice(['14','164','22']),pre,pre)
    rp=rnd.choice(['r','relationships'])
    wb='<%sworkbook %s xmlns:%s="http://schemas.openxmlformats.org/officeDocument/2006/relationships">%s<%ssheets>'%(pre,nsdecl,rp,('<%sworkbookPr date1904="%s"/>'%(pre,rnd.choice(['1','true'])) if is1904 else ''),pre)
    rels='<Relationships xmlns="http://schemas.openxmlformats.org/package/2006/relationships">'
    for si,(name,_) in enumerate(sheets):
        wb+='<%ssheet name=%s sheetId="%d" %s:id="rId%d"/>'%(pre,quoteattr(name),si+1,rp,si+1)
        rels+='<Relationship Id="rId%d" Type="http://schemas.openxmlformats.org/officeDocument/2006/relationships/worksheet" Target="%sworksheets/sheet%d.xml"/>'%(si+1,rnd.choice(['','/xl/','xl/']),si+1)
    wb+='</%ssheets></%sworkbook>'%(pre,pre); rels+='</Relationships>'
    parts['xl/workbook.xml']=wb; parts['xl/_rels/workbook.xml.rels']=rels
    z=zipfile.ZipFile(path,'w')
    for k,v in parts.items():
        name=k if rnd.random()<0.7 else (k.upper() if k.startswith('xl/worksheets') or k.startswith('xl/shared') else k)
        z.writestr(zipfile.ZipInfo(name),v.encode(),compress_type=rnd.choice([zipfile.ZIP_STORED,zipfile.ZIP_DEFLATED]))
    z.close()
    return is1904
def ods_write(path, sheets, rnd):
    x='<office:document-content xmlns:office="urn:oasis:names:tc:opendocument:xmlns:office:1.0" xmlns:table="urn:oasis:names:tc:opendocument:xmlns:table:1.0" xmlns:text="urn:oasis:names:tc:opendocument:xmlns:text:1.0"><office:body><office:spreadsheet>'
    for name,cells in sheets:
        x+='<table:table table:name=%s>'%quoteattr(name)
        maxr=max([p[0] for p in cells],default=-1)
        r=0
        def cellxml(t,v):
            if t=='n' or t=='date':
                vt=rnd.choice(['float','percentage','currency']); return ('office:value-type="%s" office:value="%s"'%(vt,repr(v)),'<text:p>x</text:p>' if rnd.random()<0.5 else '')
            if t=='s':
                if rnd.random()<0.3 and '\n' not in v: return ('office:value-type="string" office:string-value=%s'%quoteattr(v).replace('\t','&#9;'),'')
                paras=v.split('\n')
                def enc(p):
                    out=''; i=0
                    while i<len(p):
                        if p[i]==' ' and rnd.random()<0.5:
                            j=i
                            while j<len(p) and p[j]==' ': j+=1
                            n=j-i; out+='<text:s text:c="%d"/>'%n if n>1 or rnd.random()<0.5 else '<text:s/>'; i=j
                        else: out+=escape(p[i]).replace('\t','&#9;'); i+=1
                    return out
                return ('office:value-type="string"',''.join('<text:p>%s</text:p>'%enc(p) for p in paras))
            if t=='b': return ('office:value-type="boolean" office:boolean-value="%s"'%('true' if v else 'false'),'')
            if t=='d': return ('office:value-type="date" office:date-value="%s"'%v,'')
            if t=='e': return ('office:value-type="string" office:string-value=%s'%quoteattr(v),'')
        while r<=maxr:
            rowcells={p[1]:cells[p] for p in cells if p[0]==r and cells[p][0]!='empty'}
            # count identical following rows (only empties) to group
            if not rowcells:
                n=1
                while r+n<=maxr and not any(p[0]==r+n and cells[p][0]!='empty' for p in cells): n+=1
                # split the empty run randomly
                left=n
                while left>0:
                    k=rnd.randint(1,left)
                    x+='<table:table-row%s><table:table-cell%s/></table:table-row>'%(' table:number-rows-repeated="%d"'%k if k>1 or rnd.random()<0.3 else '', ' table:number-columns-repeated="%d"'%rnd.choice([1,3,1024]) if rnd.random()<0.7 else '')
                    left-=k
                r+=n; continue
            x+='<table:table-row>'
            c=0; maxc=max(rowcells)
            while c<=maxc:
                if c in rowcells:
                    a,body=cellxml(*rowcells[c])
                    tag='table:table-cell'
                    x+='<%s %s>%s</%s>'%(tag,a,body,tag) if body or rnd.random()<0.5 else '<%s %s/>'%(tag,a)
                    c+=1
                else:
                    n=1
                    while c+n<=maxc and (c+n) not in rowcells: n+=1
                    left=n
                    while left>0:
                        k=rnd.randint(1,left)
                        tag=rnd.choice(['table:table-cell','table:covered-table-cell'])
                        x+='<%s%s/>'%(tag,' table:number-columns-repeated="%d"'%k if k>1 or rnd.random()<0.3 else '')
                        left-=k
                    c+=n
            if rnd.random()<0.5: x+='<table:table-cell table:number-columns-repeated="%d"/>'%rnd.choice([1,5,1000])
            x+='</table:table-row>'
            r+=1
        if rnd.random()<0.5: x+='<table:table-row table:number-rows-repeated="1048000"><table:table-cell table:number-columns-repeated="1024"/></table:table-row>'
        x+='</table:table>'
    x+='</office:spreadsheet></office:body></office:document-content>'
    z=zipfile.ZipFile(path,'w')
    z.writestr('mimetype','application/vnd.oasis.opendocument.spreadsheet',compress_type=zipfile.ZIP_STORED)
    z.writestr('META-INF/manifest.xml','<manifest:manifest xmlns:manifest="urn:oasis:names:tc:opendocument:xmlns:manifest:1.0"><manifest:file-entry manifest:full-path="/" manifest:media-type="application/vnd.oasis.opendocument.spreadsheet"/></manifest:manifest>',compress_type=zipfile.ZIP_DEFLATED)
    z.writestr('content.xml',x.encode(),compress_type=rnd.choice([zipfile.ZIP_STORED,zipfile.ZIP_DEFLATED]))
    z.close()
def main(kind,seed,N):
    rnd=random.Random(seed); os.makedirs('outx',exist_ok=True); bad=0
    for i in range(N):
        ns=rnd.randint(1,3); names=[]
        while len(names)<ns:
            n=(rand_str(rnd).replace('\n','').replace('\t','') or 'S')[:31]
            if n not in names and n.strip()==n: names.append(n)
        big=rnd.random()<0.2
        sheets=[(n,gen_sheet(rnd,(1048576 if big else 40),(8 if big else 16384 if rnd.random()<0.2 else 30))) for n in names]
        p='outx/c%05d.%s'%(i,kind)
        if kind=='xlsx':
            is1904=xlsx_write(p,sheets,rnd); exps=[expect(c,is1904) for _,c in sheets]
        else:
            sheets=[(n,{k:v for k,v in c.items()}) for n,c in sheets]
            ods_write(p,sheets,rnd)
            exps=[]
            for _,c in sheets:
                e={}
                for pp,(t,v) in c.items():
                    if t=='n' or t=='date': e[pp]='F:%016x'%f64bits(v)
                    elif t=='s': e[pp]='S:'+v.encode().hex()
                    elif t=='b': e[pp]='B:%d'%v
                    elif t=='d': e[pp]='DI:'+v.encode().hex()
                    elif t=='e': e[pp]='S:'+v.encode().hex()
                exps.append(e)
        exp=dump_expected(sheets,exps)
        try: o=subprocess.run([DUMP,kind,p],capture_output=True,text=True,timeout=20).stdout
        except subprocess.TimeoutExpired: o='FILE\nTIMEOUT\nEND'
        got=[l for l in o.split('\n')[1:] if l and l!='END' and not l.startswith(' fml') and not l.startswith('name ')]
        if got!=exp:
            bad+=1
            if bad<=4:
                print('MISMATCH',p)
                for a,b in zip(got+['<none>']*10,exp+['<none>']*10):
                    if a!=b: print('   got:',a[:200],'\n   exp:',b[:200]); break
    print(kind,'seed',seed,'cases',N,'mismatches',bad)
if __name__=='__main__': main(sys.argv[1],int(sys.argv[2]),int(sys.argv[3]))
