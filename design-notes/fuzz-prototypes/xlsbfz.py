import random, sys, subprocess, zipfile, struct, os
DUMP=os.environ.get('DUMP','/tmp/cal-fix/target/debug/examples/dump')
ERR={0x00:'Null',0x07:'Div0',0x0F:'Value',0x17:'Ref',0x1D:'Name',0x24:'Num',0x2A:'NA',0x2B:'GettingData'}
def f64bits(x): return struct.unpack('<Q',struct.pack('<d',x))[0]
def vint(n,rnd=None,width=None):
    out=b''
    while True:
        b=n&0x7F; n>>=7
        if n: out+=bytes([b|0x80])
        else: out+=bytes([b]); break
    return out
def vint_w(n,w):
    # non-minimal width encoding (legal? record length uses up to 4 bytes; continuation bit set on all but last)
    bs=[]
    for i in range(w): bs.append((n>>(7*i))&0x7F)
    assert n>>(7*w)==0
    return bytes([b|0x80 for b in bs[:-1]]+[bs[-1]])
def brt(t,data=b'',rnd=None):
    tb = bytes([t]) if t<0x80 else bytes([(t&0x7F)|0x80, t>>7])
    return tb+vint(len(data))+data
def wstr(s): 
    u=s.encode('utf-16le'); return struct.pack('<I',len(u)//2)+u
def rand_str(rnd):
    n=rnd.choice([0,1,2,3,5,8,20,130])
    alpha=rnd.choice(['abc XYZ019','a&<>"\' b','aé中😀\t\n'])
    return ''.join(rnd.choice(alpha) for _ in range(n))
def cellhdr(c,style): return struct.pack('<I',c)+struct.pack('<I',style)[:3]+b'\0'
def fmla(): 
    rg=bytes([0x1E,1,0]); return struct.pack('<I',len(rg))+rg+struct.pack('<I',0)
def gen(rnd):
    sst=[rand_str(rnd) for _ in range(rnd.randint(0,6))]
    nsh=rnd.randint(1,3); names=[]
    while len(names)<nsh:
        n=(rand_str(rnd).replace('\n','').replace('\t','') or 'S')[:31]
        if n not in names: names.append(n)
    sheets=[]
    for n in names:
        cells={}; recs=b''
        big=rnd.random()<0.2
        rows=sorted(rnd.sample(range(0,1048576 if big else 50),rnd.randint(0,6)))
        for r in rows:
            recs+=brt(0x0000,struct.pack('<I',r)+b'\0'*13)
            for c in sorted(rnd.sample(range(0,8 if big else 16384),rnd.randint(1,5))):
                k=rnd.random(); st=rnd.choice([0,0,1])
                date=lambda v:'D:%016x:ExcelDateTime { value: %s, datetime_type: DateTime, is_1904: false }'%(f64bits(v),repr(float(v)))
                if k<0.1: recs+=brt(0x0001,cellhdr(c,st))
                elif k<0.3:
                    iv=rnd.choice([0,1,-1,44197,-5,100,12345,2**29-1,-2**29]); d100=rnd.random()<0.3
                    recs+=brt(0x0002,cellhdr(c,st)+struct.pack('<I',((iv&0x3FFFFFFF)<<2)|2|(1 if d100 else 0)))
                    if d100: cells[(r,c)]= date(iv/100.0) if st==1 else 'F:%016x'%f64bits(iv/100.0)
                    else: cells[(r,c)]= date(float(iv)) if st==1 else 'I:%d'%iv
                elif k<0.4:
                    v=rnd.choice([1.5,-2.25,1e300,0.1]); recs+=brt(rnd.choice([0x0005]),cellhdr(c,st)+struct.pack('<d',v)); cells[(r,c)]= date(v) if st==1 else 'F:%016x'%f64bits(v)
                elif k<0.5:
                    b=rnd.randint(0,1); recs+=brt(0x0004,cellhdr(c,st)+bytes([b])); cells[(r,c)]='B:%d'%b
                elif k<0.6:
                    e=rnd.choice(list(ERR)); recs+=brt(0x0003,cellhdr(c,st)+bytes([e])); cells[(r,c)]='E:'+ERR[e]
                elif k<0.7:
                    s=rand_str(rnd); recs+=brt(0x0006,cellhdr(c,st)+wstr(s)); cells[(r,c)]='S:'+s.encode().hex()
                elif k<0.8 and sst:
                    i=rnd.randrange(len(sst)); recs+=brt(0x0007,cellhdr(c,st)+struct.pack('<I',i)); cells[(r,c)]='S:'+sst[i].encode().hex()
                elif k<0.85:
                    v=rnd.choice([2.0,-7.5]); recs+=brt(0x0009,cellhdr(c,st)+struct.pack('<d',v)+struct.pack('<H',0)+fmla()); cells[(r,c)]= date(v) if st==1 else 'F:%016x'%f64bits(v)
                elif k<0.9:
                    s=rand_str(rnd); recs+=brt(0x0008,cellhdr(c,st)+wstr(s)+struct.pack('<H',0)+fmla()); cells[(r,c)]='S:'+s.encode().hex()
                elif k<0.95:
                    b=rnd.randint(0,1); recs+=brt(0x000A,cellhdr(c,st)+bytes([b])+struct.pack('<H',0)+fmla()); cells[(r,c)]='B:%d'%b
                else:
                    e=rnd.choice(list(ERR)); recs+=brt(0x000B,cellhdr(c,st)+bytes([e])+struct.pack('<H',0)+fmla()); cells[(r,c)]='E:'+ERR[e]
                if rnd.random()<0.2: recs+=brt(rnd.choice([0x0031,0x01AA,0x0427,0x007F,0x0080,0x3FFF]),bytes(rnd.randrange(256) for _ in range(rnd.choice([0,5,127,128,300]))))
        sheets.append((n,cells,recs))
    return sst,sheets
def write(path,sst,sheets,rnd):
    z=zipfile.ZipFile(path,'w',zipfile.ZIP_DEFLATED)
    wb=brt(0x0083)+brt(0x0099,struct.pack('<III',0,0,0)+wstr(''))+brt(0x008F)
    rels='<Relationships xmlns="http://schemas.openxmlformats.org/package/2006/relationships">'
    for i,(n,_,recs) in enumerate(sheets):
        wb+=brt(0x009C,struct.pack('<II',0,i+1)+wstr('rId%d'%(i+1))+wstr(n))
        rels+='<Relationship Id="rId%d" Type="x" Target="worksheets/sheet%d.bin"/>'%(i+1,i+1)
        sh=brt(0x0081)+brt(0x0094,struct.pack('<IIII',0,10,0,10))+brt(0x0085)+brt(0x0089,b'\0'*30)+brt(0x0086)+brt(0x0091)+recs+brt(0x0092)+brt(0x0082)
        z.writestr('xl/worksheets/sheet%d.bin'%(i+1),sh)
    wb+=brt(0x0090)+brt(0x0084); rels+='</Relationships>'
    z.writestr('xl/workbook.bin',wb); z.writestr('xl/_rels/workbook.bin.rels',rels)
    s=brt(0x009F,struct.pack('<II',len(sst),len(sst)))
    for x in sst: s+=brt(0x0013,b'\0'+wstr(x))
    s+=brt(0x00A0); z.writestr('xl/sharedStrings.bin',s)
    styles=brt(0x0116)+brt(0x0267,struct.pack('<I',0))+brt(0x0268)+brt(0x0269,struct.pack('<I',2))+brt(0x002F,struct.pack('<HH',0xFFFF,0)+b'\0'*12)+brt(0x002F,struct.pack('<HH',0xFFFF,14)+b'\0'*12)+brt(0x026A)+brt(0x0117)
    z.writestr('xl/styles.bin',styles); z.close()
def main(seed,N):
    rnd=random.Random(seed); os.makedirs('outb',exist_ok=True); bad=0
    for i in range(N):
        sst,sheets=gen(rnd); p='outb/b%05d.xlsb'%i; write(p,sst,sheets,rnd)
        exp=[]
        for n,cells,_ in sheets:
            exp.append('sheet %s WorkSheet Visible'%n.encode().hex())
            if cells:
                rs=[q[0] for q in cells]; cs=[q[1] for q in cells]; exp.append(' range Some((%d, %d)) Some((%d, %d))'%(min(rs),min(cs),max(rs),max(cs)))
            else: exp.append(' range None None')
            for q in sorted(cells): exp.append(' cell %d %d %s'%(q[0],q[1],cells[q]))
        try: o=subprocess.run([DUMP,'xlsb',p],capture_output=True,text=True,timeout=20).stdout
        except subprocess.TimeoutExpired: o='FILE\nTIMEOUT\nEND'
        got=[l for l in o.split('\n')[1:] if l and l!='END' and not l.startswith(' fml') and not l.startswith('name ')]
        import re
        norm=lambda L:[re.sub(r'(D:[0-9a-f]{16}):ExcelDateTime \{ value: [^,]*,',r'\1:',l) for l in L]
        got=norm(got); exp=norm(exp)
        if got!=exp:
            bad+=1
            if bad<=4:
                print('MISMATCH',p)
                for a,b in zip(got+['<none>']*10,exp+['<none>']*10):
                    if a!=b: print('   got:',a[:200],'\n   exp:',b[:200]); break
    print('xlsb seed',seed,'cases',N,'mismatches',bad)
main(int(sys.argv[1]),int(sys.argv[2]))
