use calamine::*;
use std::io::Write;
fn canon(d: &Data) -> String {
    match d {
        Data::Int(i) => format!("I:{i}"),
        Data::Float(f) => format!("F:{:016x}", f.to_bits()),
        Data::String(s) => format!("S:{}", hex(s.as_bytes())),
        Data::Bool(b) => format!("B:{}", *b as u8),
        Data::DateTime(e) => format!("D:{:016x}:{:?}", e.as_f64().to_bits(), e),
        Data::DateTimeIso(s) => format!("DI:{}", hex(s.as_bytes())),
        Data::DurationIso(s) => format!("DU:{}", hex(s.as_bytes())),
        Data::Error(e) => format!("E:{:?}", e),
        Data::Empty => "_".into(),
    }
}
fn hex(b: &[u8]) -> String { b.iter().map(|x| format!("{:02x}", x)).collect() }
fn dump<R: Reader<std::io::BufReader<std::fs::File>>>(mut wb: R, out: &mut impl Write) where R::Error: std::fmt::Display {
    for sh in wb.sheets_metadata().to_vec() {
        writeln!(out, "sheet {} {:?} {:?}", hex(sh.name.as_bytes()), sh.typ, sh.visible).unwrap();
        match wb.worksheet_range(&sh.name) {
            Ok(r) => {
                writeln!(out, " range {:?} {:?}", r.start(), r.end()).unwrap();
                let (sr, sc) = r.start().unwrap_or((0, 0));
                for (i, j, v) in r.used_cells() { writeln!(out, " cell {} {} {}", sr as usize + i, sc as usize + j, canon(v)).unwrap(); }
            }
            Err(e) => writeln!(out, " rangeerr {e}").unwrap(),
        }
        match wb.worksheet_formula(&sh.name) {
            Ok(r) => { let (sr, sc) = r.start().unwrap_or((0, 0)); for (i, j, v) in r.used_cells() { writeln!(out, " fml {} {} {}", sr as usize + i, sc as usize + j, hex(v.as_bytes())).unwrap(); } }
            Err(e) => writeln!(out, " fmlerr {e}").unwrap(),
        }
    }
    for (n, f) in wb.defined_names() { writeln!(out, "name {} {}", hex(n.as_bytes()), hex(f.as_bytes())).unwrap(); }
}
fn main() {
    // usage: dump <kind> <file>...   prints one block per file
    let args: Vec<String> = std::env::args().collect();
    let kind = args[1].clone();
    let stdout = std::io::stdout();
    let mut out = std::io::BufWriter::new(stdout.lock());
    for f in &args[2..] {
        writeln!(out, "FILE {f}").unwrap();
        let k = kind.clone(); let f2 = f.clone();
        let mut buf: Vec<u8> = Vec::new();
        let r = std::panic::catch_unwind(move || {
            let mut b: Vec<u8> = Vec::new();
            match k.as_str() {
                "xls" => match open_workbook::<Xls<_>, _>(&f2) { Ok(w) => dump(w, &mut b), Err(e) => writeln!(b, "openerr {e}").unwrap() },
                "xlsx" => match open_workbook::<Xlsx<_>, _>(&f2) { Ok(w) => dump(w, &mut b), Err(e) => writeln!(b, "openerr {e}").unwrap() },
                "xlsb" => match open_workbook::<Xlsb<_>, _>(&f2) { Ok(w) => dump(w, &mut b), Err(e) => writeln!(b, "openerr {e}").unwrap() },
                "ods" => match open_workbook::<Ods<_>, _>(&f2) { Ok(w) => dump(w, &mut b), Err(e) => writeln!(b, "openerr {e}").unwrap() },
                _ => panic!("kind"),
            }
            b
        });
        match r { Ok(b) => buf = b, Err(_) => writeln!(buf, "PANIC").unwrap() }
        out.write_all(&buf).unwrap();
        writeln!(out, "END").unwrap();
    }
}
