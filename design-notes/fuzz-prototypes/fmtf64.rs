fn main(){ let h=std::env::args().nth(1).unwrap(); let mut b=[0u8;8]; for i in 0..8 { b[i]=u8::from_str_radix(&h[2*i..2*i+2],16).unwrap(); } println!("{}", f64::from_le_bytes(b)); }
