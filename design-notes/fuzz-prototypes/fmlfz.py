import random, sys, subprocess, struct, os, re, zipfile
sys.path.insert(0,'.')
from cfbw import cfb_write
DUMP=os.environ.get('DUMP','/tmp/cal-fix/target/debug/examples/dump')
# ---- the "translator": extract FTAB / FTAB_ARGC from the source
src=open('/repo/src/utils.rs').read()
ft=src[src.index('pub const FTAB: [&str; FTAB_LEN] = ['):]
ft=ft[:ft.index('];')]
FTAB=re.findall(r'^\s*"([^"]*)",',ft,re.M)
fa=src[src.index('pub const FTAB_ARGC: [u8; FTAB_LEN] = ['):]
fa=fa[fa.index('= [')+3:fa.index('];')]
ARGC=[int(x) for x in re.findall(r'^\s*(\d+),',fa,re.M)]
assert len(FTAB)==485 and len(ARGC)==485,(len(FTAB),len(ARGC))
def colname(c):
    s=''; n=c+1
    while n>0: s=chr(65+(n-1)%26)+s; n=(n-1)//26
    return s
BIN={0x03:'+',0x04:'-',0x05:'*',0x06:'/',0x07:'^',0x08:'&',0x09:'<',0x0A:'<=',0x0B:'=',0x0C:'>',0x0D:'>=',0x0E:'<>',0x0F:' ',0x10:',',0x11:':'}
ERRS={0x00:'#NULL!',0x07:'#DIV/0!',0x0F:'#VALUE!',0x17:'#REF!',0x1D:'#NAME?',0x24:'#NUM!',0x2A:'#N/A'}
def fmtnum(v):
    # Rust Display for f64
    return subprocess.run(['/tmp/fz/fmtf64',struct.pack('<d',v).hex()],capture_output=True,text=True).stdout.strip()
def gen_expr(rnd,depth,ctx):
    k=rnd.random()
    if depth<=0 or k<0.35:
        j=rnd.random()
        if j<0.3:
            col=rnd.choice([0,1,25,26,27,51,52,255]+([701,702,16383] if ctx['wide'] else [])); row=rnd.choice([0,1,9,99,65535]+([1048575] if ctx['wide'] else []))
            return ('ref',row,col,rnd.random()<0.5,rnd.random()<0.5)
        if j<0.4:
            c1=rnd.choice([0,1,26,200]); c2=c1+rnd.choice([0,1,30]); r1=rnd.choice([0,5,100]); r2=r1+rnd.choice([0,1,1000])
            return ('area',r1,c1,rnd.random()<0.5,rnd.random()<0.5,r2,c2,rnd.random()<0.5,rnd.random()<0.5)
        if j<0.5: return ('ref3d',rnd.randrange(len(ctx['xti'])),rnd.choice([0,7]),rnd.choice([0,1,30]),rnd.random()<0.5,rnd.random()<0.5)
        if j<0.55: return ('area3d',rnd.randrange(len(ctx['xti'])),0,0,rnd.random()<0.5,rnd.random()<0.5,3,2,rnd.random()<0.5,rnd.random()<0.5)
        if j<0.65: return ('int',rnd.choice([0,1,42,65535]))
        if j<0.72: return ('num',rnd.choice([1.5,0.1,-2.25,1e21,123456.789]))
        if j<0.82: return ('str',''.join(rnd.choice(rnd.choice(['abc XY','aé£','Жы中'])) for _ in range(rnd.choice([0,1,3,10]))))
        if j<0.87: return ('bool',rnd.randint(0,1))
        if j<0.92: return ('err',rnd.choice(list(ERRS)))
        if ctx['names']: return ('name',rnd.randrange(len(ctx['names'])))
        return ('int',7)
    if k<0.6: return ('bin',rnd.choice([0x03,0x04,0x05,0x06,0x07,0x08,0x09,0x0A,0x0B,0x0C,0x0D,0x0E]),gen_expr(rnd,depth-1,ctx),gen_expr(rnd,depth-1,ctx))
    if k<0.68: return ('pre',rnd.choice([0x12,0x13]),gen_expr(rnd,depth-1,ctx))
    if k<0.73: return ('pct',gen_expr(rnd,depth-1,ctx))
    if k<0.83: return ('paren',gen_expr(rnd,depth-1,ctx))
    # function
    if rnd.random()<0.5:
        idx=rnd.choice([i for i in range(485) if ARGC[i]<=4 and FTAB[i]])
        return ('func',idx,[gen_expr(rnd,depth-1,ctx) for _ in range(ARGC[idx])])
    idx=rnd.choice([i for i in range(485) if ARGC[i]>4 and FTAB[i]]+[0,4,5,6,7])  # variable arity ones
    return ('funcvar',idx,[gen_expr(rnd,depth-1,ctx) for _ in range(rnd.randint(1,4))])
def cellref(row,col,ca,ra): return ('$' if ca else '')+colname(col)+('$' if ra else '')+str(row+1)
def render(e,ctx):
    t=e[0]
    if t=='ref': return cellref(*e[1:])
    if t=='area': return cellref(*e[1:5])+':'+cellref(*e[5:9])
    if t=='ref3d': return ctx['sheets'][ctx['xti'][e[1]]]+'!'+cellref(*e[2:])
    if t=='area3d': return ctx['sheets'][ctx['xti'][e[1]]]+'!'+cellref(*e[2:6])+':'+cellref(*e[6:10])
    if t=='int': return str(e[1])
    if t=='num': return fmtnum(e[1])
    if t=='str': return '"'+e[1]+'"'
    if t=='bool': return 'TRUE' if e[1] else 'FALSE'
    if t=='err': return ERRS[e[1]]
    if t=='name': return ctx['names'][e[1]]
    if t=='bin': return render(e[2],ctx)+BIN[e[1]]+render(e[3],ctx)
    if t=='pre': return ('+' if e[1]==0x12 else '-')+render(e[2],ctx)
    if t=='pct': return render(e[1],ctx)+'%'
    if t=='paren': return '('+render(e[1],ctx)+')'
    if t in('func','funcvar'): return FTAB[e[1]]+'('+','.join(render(a,ctx) for a in e[2])+')'
def colrel(col,ca,ra): return col|(0 if ca else 0x4000)|(0 if ra else 0x8000)
def enc(e,ctx,fmt,rnd):
    t=e[0]; cls=rnd.choice([0x00,0x20,0x40])  # ptg class bits (ref/value/array)
    R=(lambda r: struct.pack('<H',r)) if fmt=='xls' else (lambda r: struct.pack('<I',r))
    if t=='ref': return bytes([0x24+cls])+R(e[1])+struct.pack('<H',colrel(e[2],e[3],e[4]))
    if t=='area': return bytes([0x25+cls])+R(e[1])+R(e[5])+struct.pack('<HH',colrel(e[2],e[3],e[4]),colrel(e[6],e[7],e[8]))
    if t=='ref3d': return bytes([0x3A+cls])+struct.pack('<H',e[1])+R(e[2])+struct.pack('<H',colrel(e[3],e[4],e[5]))
    if t=='area3d': return bytes([0x3B+cls])+struct.pack('<H',e[1])+R(e[2])+R(e[6])+struct.pack('<HH',colrel(e[3],e[4],e[5]),colrel(e[7],e[8],e[9]))
    if t=='int': return bytes([0x1E])+struct.pack('<H',e[1])
    if t=='num': return bytes([0x1F])+struct.pack('<d',e[1])
    if t=='str':
        u=e[1].encode('utf-16le')
        if fmt=='xls':
            can8=all(u[i+1]==0 for i in range(0,len(u),2)); use8=can8 and rnd.random()<0.6
            return bytes([0x17,len(u)//2,0 if use8 else 1])+(bytes(u[0::2]) if use8 else u)
        return bytes([0x17])+struct.pack('<H',len(u)//2)+u
    if t=='bool': return bytes([0x1D,e[1]])
    if t=='err': return bytes([0x1C,e[1]])
    if t=='name': return bytes([0x23+cls])+struct.pack('<I',e[1]+1)+(b'' if True else b'')
    if t=='bin': return enc(e[2],ctx,fmt,rnd)+enc(e[3],ctx,fmt,rnd)+bytes([e[1]])
    if t=='pre': return enc(e[2],ctx,fmt,rnd)+bytes([e[1]])
    if t=='pct': return enc(e[1],ctx,fmt,rnd)+bytes([0x14])
    if t=='paren': return enc(e[1],ctx,fmt,rnd)+bytes([0x15])
    if t=='func': return b''.join(enc(a,ctx,fmt,rnd) for a in e[2])+bytes([0x21+cls])+struct.pack('<H',e[1])
    if t=='funcvar': return b''.join(enc(a,ctx,fmt,rnd) for a in e[2])+bytes([0x22+cls,len(e[2])])+struct.pack('<H',e[1])
def rec(t,d): return struct.pack('<HH',t,len(d))+d
def short_str(s): u=s.encode('utf-16le'); return bytes([len(u)//2,1])+u
def xls_file(ctx,fmls,rnd):
    g=rec(0x0809,struct.pack('<HHHHII',0x0600,0x0005,0,0,0,0))+rec(0x0042,struct.pack('<H',1200))+rec(0x00E0,b'\0'*20)
    # EXTERNSHEET + names
    ext=rec(0x0017,struct.pack('<H',len(ctx['xti']))+b''.join(struct.pack('<Hhh',0,i,i) for i in ctx['xti']))
    lbl=b''
    for n in ctx['names']:
        rg=bytes([0x3A])+struct.pack('<HHH',0,0,0)
        u=n.encode('utf-16le'); can8=all(u[i+1]==0 for i in range(0,len(u),2))
        nm=(bytes([0])+bytes(u[0::2])) if can8 else (bytes([1])+u)
        lbl+=rec(0x0018,struct.pack('<HBBHHH',0,0,len(u)//2,len(rg),0,0)+b'\0'*4+nm+rg)
    eof=rec(0x000A,b'')
    subs=[]
    for si,name in enumerate(ctx['sheets']):
        s=rec(0x0809,struct.pack('<HHHHII',0x0600,0x0010,0,0,0,0))
        for (r,c,e) in sorted(fmls.get(si,[]),key=lambda x:(x[0],x[1])):
            rg=enc(e,ctx,'xls',rnd)
            s+=rec(0x0006,struct.pack('<HHHd',r,c,0,1.0)+struct.pack('<HIH',0,0,len(rg))+rg)
        s+=eof; subs.append(s)
    bss=[short_str(n) for n in ctx['sheets']]
    glen=len(g)+sum(4+6+len(b) for b in bss)+len(ext)+len(lbl)+len(eof)
    pos=glen; bs=b''
    for b,s in zip(bss,subs): bs+=rec(0x0085,struct.pack('<IBB',pos,0,0)+b); pos+=len(s)
    wb=g+bs+ext+lbl+eof+b''.join(subs)
    return cfb_write([('Workbook',wb)],rnd,ss=rnd.choice([512,4096]),shuffle=True)
def vint(n):
    out=b''
    while True:
        b=n&0x7F; n>>=7
        if n: out+=bytes([b|0x80])
        else: return out+bytes([b])
def brt(t,d=b''): return (bytes([t]) if t<0x80 else bytes([(t&0x7F)|0x80,t>>7]))+vint(len(d))+d
def wstr(s): u=s.encode('utf-16le'); return struct.pack('<I',len(u)//2)+u
def xlsb_file(path,ctx,fmls,rnd):
    z=zipfile.ZipFile(path,'w',zipfile.ZIP_DEFLATED)
    wb=brt(0x0083)+brt(0x0099,struct.pack('<III',0,0,0)+wstr(''))+brt(0x008F)
    rels='<Relationships xmlns="http://schemas.openxmlformats.org/package/2006/relationships">'
    for i,n in enumerate(ctx['sheets']):
        wb+=brt(0x009C,struct.pack('<II',0,i+1)+wstr('rId%d'%(i+1))+wstr(n)); rels+='<Relationship Id="rId%d" Type="x" Target="worksheets/sheet%d.bin"/>'%(i+1,i+1)
        sh=brt(0x0081)+brt(0x0094,struct.pack('<IIII',0,10,0,10))+brt(0x0091)
        last=None
        for (r,c,e) in sorted(fmls.get(i,[]),key=lambda x:(x[0],x[1])):
            if r!=last: sh+=brt(0x0000,struct.pack('<I',r)+b'\0'*13); last=r
            rg=enc(e,ctx,'xlsb',rnd)
            sh+=brt(0x0009,struct.pack('<I',c)+b'\0\0\0\0'+struct.pack('<d',1.0)+struct.pack('<H',0)+struct.pack('<I',len(rg))+rg+struct.pack('<I',0))
        sh+=brt(0x0092)+brt(0x0082); z.writestr('xl/worksheets/sheet%d.bin'%(i+1),sh)
    wb+=brt(0x0090)
    wb+=brt(0x016A,struct.pack('<I',len(ctx['xti']))+b''.join(struct.pack('<Iii',0,i,i) for i in ctx['xti']))
    for n in ctx['names']:
        rg=bytes([0x3A])+struct.pack('<HIH',0,0,0)
        wb+=brt(0x0027,struct.pack('<IBI',0,0,0xFFFFFFFF)+wstr(n)+struct.pack('<I',len(rg))+rg+struct.pack('<I',0)+struct.pack('<I',0xFFFFFFFF))
    wb+=brt(0x009D,b'\0'*26)+brt(0x0084); rels+='</Relationships>'
    z.writestr('xl/workbook.bin',wb); z.writestr('xl/_rels/workbook.bin.rels',rels); z.close()
def main(fmt,seed,N):
    rnd=random.Random(seed); os.makedirs('outf',exist_ok=True); bad=0; kinds={}
    for i in range(N):
        sheets=['S1','Data','Été'][:rnd.randint(1,3)]
        ctx={'sheets':sheets,'xti':[rnd.randrange(len(sheets)) for _ in range(rnd.randint(1,3))],'names':['MyName','Nom_é'][:rnd.randint(0,2)],'wide':fmt=='xlsb'}
        fmls={}; exp=[]
        for si in range(len(sheets)):
            used=set(); L=[]
            for _ in range(rnd.randint(0,4)):
                r=rnd.choice([0,1,5,300]); c=rnd.choice([0,1,27,200])
                if (r,c) in used: continue
                used.add((r,c)); L.append((r,c,gen_expr(rnd,rnd.randint(0,3),ctx)))
            fmls[si]=L
        p='outf/f%05d.%s'%(i,fmt)
        if fmt=='xls': open(p,'wb').write(xls_file(ctx,fmls,rnd))
        else: xlsb_file(p,ctx,fmls,rnd)
        for si,n in enumerate(sheets):
            exp.append('sheet '+n.encode().hex())
            for (r,c,e) in sorted(fmls[si],key=lambda x:(x[0],x[1])): exp.append(' fml %d %d %s'%(r,c,render(e,ctx)))
        try: o=subprocess.run([DUMP,fmt,p],capture_output=True,text=True,timeout=20).stdout
        except subprocess.TimeoutExpired: o='FILE\nTIMEOUT\nEND'
        got=[]
        for l in o.split('\n')[1:]:
            if l.startswith('sheet '): got.append('sheet '+l.split()[1])
            elif l.startswith(' fml '):
                a=l.split(); got.append(' fml %s %s %s'%(a[1],a[2],bytes.fromhex(a[3]).decode() if len(a)>3 else ''))
            elif l.startswith('openerr') or l=='PANIC' or l=='TIMEOUT' or l.startswith(' fmlerr'): got.append(l)
        if got!=exp:
            bad+=1
            if bad<=6:
                print('MISMATCH',p)
                for a,b in zip(got+['<none>']*10,exp+['<none>']*10):
                    if a!=b: print('   got:',a[:160],'\n   exp:',b[:160]); break
    print(fmt,'seed',seed,'cases',N,'mismatches',bad)
if __name__=='__main__': main(sys.argv[1],int(sys.argv[2]),int(sys.argv[3]))
