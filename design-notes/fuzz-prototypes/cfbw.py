import struct, random
END=0xFFFFFFFE; FREE=0xFFFFFFFF; FATSECT=0xFFFFFFFD; DIFSECT=0xFFFFFFFC
def cfb_write(streams, rnd, ss=512, shuffle=True, extra_free=0, unused_dirs=0, dir_shuffle=True, force_difat=False):
    """streams: list of (name, bytes).  Returns bytes of a compound file with a random valid layout."""
    major = 3 if ss==512 else 4
    per_fat = ss//4
    # --- mini stream
    mini=bytearray(); minifat=[]; ents=[]
    for name,data in streams:
        if len(data)<4096:
            n=(len(data)+63)//64
            if n==0: ents.append([name,END,0,'mini']); continue
            # allocate mini sectors, optionally fragmented
            base=len(minifat)
            ids=list(range(base,base+n))
            minifat.extend([0]*n)
            mini.extend(b'\0'*(n*64))
            ents.append([name,ids,len(data),'mini',data])
        else:
            ents.append([name,None,len(data),'reg',data])
    # shuffle mini sector allocation globally
    nm=len(minifat)
    perm=list(range(nm))
    if shuffle: rnd.shuffle(perm)
    for e in ents:
        if e[3]=='mini' and e[1]!=END and isinstance(e[1],list):
            ids=[perm[i] for i in e[1]]; data=e[4]
            for k,i in enumerate(ids):
                mini[i*64:(i+1)*64]=data[k*64:(k+1)*64].ljust(64,b'\0')
                minifat[i]=ids[k+1] if k+1<len(ids) else END
            e[1]=ids[0]
    # --- regular chains: list of (tag, data)
    chains=[]
    if nm:
        mf=b''.join(struct.pack('<I',x) for x in minifat)
        mf=mf.ljust(((len(mf)+ss-1)//ss)*ss,b'\xff')
        chains.append(('minifat',mf)); chains.append(('mini',bytes(mini)))
    for e in ents:
        if e[3]=='reg': chains.append((e[0],e[4]))
    # directory entries
    ndir_entries=1+len(ents)+unused_dirs
    per_dir=ss//128
    ndir_sect=(ndir_entries+per_dir-1)//per_dir
    chains.append(('dir',b'\0'*(ndir_sect*ss)))
    nsect=[(len(d)+ss-1)//ss for _,d in chains]
    data_sectors=sum(nsect)+extra_free
    # number of FAT sectors (fixpoint), DIFAT sectors
    nfat=1
    while True:
        ndif=0 if nfat<=109 else (nfat-109+per_fat-2)//(per_fat-1)
        if force_difat and nfat<=109: pass
        total=data_sectors+nfat+ndif
        need=(total+per_fat-1)//per_fat
        if need<=nfat: break
        nfat=need
    total=data_sectors+nfat+ndif
    ids=list(range(total))
    if shuffle: rnd.shuffle(ids)
    it=iter(ids)
    fat=[FREE]*(nfat*per_fat)
    sectors=[b'\0'*ss]*total
    fat_ids=[next(it) for _ in range(nfat)]
    dif_ids=[next(it) for _ in range(ndif)]
    for i in fat_ids: fat[i]=FATSECT
    for i in dif_ids: fat[i]=DIFSECT
    starts={}
    alloc={}
    for (tag,d),n in zip(chains,nsect):
        cid=[next(it) for _ in range(n)]
        alloc[tag]=cid
        for k,i in enumerate(cid):
            sectors[i]=d[k*ss:(k+1)*ss].ljust(ss,b'\0')
            fat[i]=cid[k+1] if k+1<n else END
        starts[tag]=cid[0] if n else END
    # directory content
    def dirent(name,typ,start,size):
        n=name.encode('utf-16le')+b'\0\0'
        return n.ljust(64,b'\0')+struct.pack('<H',len(n))+bytes([typ,1])+struct.pack('<III',FREE,FREE,FREE)+b'\0'*36+struct.pack('<I',start)+struct.pack('<Q',size)
    unused=b'\0'*68+struct.pack('<III',FREE,FREE,FREE)+b'\0'*36+struct.pack('<IQ',0,0)
    assert len(unused)==128
    root=dirent('Root Entry',5,starts.get('mini',END),len(mini))
    others=[]
    for e in ents:
        st = e[1] if e[3]=='mini' else starts[e[0]]
        others.append(dirent(e[0],2,st,e[2]))
    others += [unused]*unused_dirs
    if dir_shuffle: rnd.shuffle(others)
    d=root+b''.join(others)
    d=d.ljust(ndir_sect*ss, b'\0')
    # pad remaining entries as unused
    dl=bytearray(d)
    for k in range(ndir_entries, ndir_sect*per_dir): dl[k*128:(k+1)*128]=unused
    for k,i in enumerate(alloc['dir']): sectors[i]=bytes(dl[k*ss:(k+1)*ss])
    # write FAT sectors
    for k,i in enumerate(fat_ids):
        sectors[i]=b''.join(struct.pack('<I',x) for x in fat[k*per_fat:(k+1)*per_fat])
    # DIFAT
    hdr_difat=fat_ids[:109]+[FREE]*(109-len(fat_ids[:109]))
    rest=fat_ids[109:]
    for k,i in enumerate(dif_ids):
        chunk=rest[k*(per_fat-1):(k+1)*(per_fat-1)]
        chunk=chunk+[FREE]*(per_fat-1-len(chunk))
        nxt=dif_ids[k+1] if k+1<len(dif_ids) else END
        sectors[i]=b''.join(struct.pack('<I',x) for x in chunk+[nxt])
    hdr=bytes.fromhex('D0CF11E0A1B11AE1')+b'\0'*16+struct.pack('<HHHHH',0x3E,major,0xFFFE,9 if ss==512 else 12,6)+b'\0'*6
    hdr+=struct.pack('<IIIIIIIII',(ndir_sect if major==4 else 0),nfat,starts['dir'],0,4096,starts.get('minifat',END),(len(alloc.get('minifat',[]))),(dif_ids[0] if dif_ids else END),ndif)
    hdr+=b''.join(struct.pack('<I',x) for x in hdr_difat)
    assert len(hdr)==512
    hdr=hdr.ljust(ss,b'\0')
    return hdr+b''.join(sectors)
