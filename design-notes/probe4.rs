use calamine::*;
fn main() {
    for v in [0.0f64, 1.0, 59.0, 59.999, 60.0, 61.0, 2958465.0, 2958465.9999, 2958466.0, -1.0, -1e20, 1e20, f64::NAN, f64::INFINITY, f64::NEG_INFINITY, 0.9999999, 0.99999999999] {
        let r = std::panic::catch_unwind(|| format!("{:?}", Data::Float(v).as_datetime()));
        let r2 = std::panic::catch_unwind(|| format!("{:?}", ExcelDateTime::new(v, ExcelDateTimeType::TimeDelta, false).as_duration()));
        let r3 = std::panic::catch_unwind(|| format!("{:?}", ExcelDateTime::new(v, ExcelDateTimeType::DateTime, true).as_datetime()));
        println!("PROBE serial {v}: 1900={:?} dur={:?} 1904={:?}", r.map_err(|_| "panic"), r2.map_err(|_| "panic"), r3.map_err(|_| "panic"));
    }
}
