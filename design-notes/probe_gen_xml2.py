import zipfile
exec(open('gen.py').read().split('# 1:')[0])
xlsx('cdata.xlsx', f'<worksheet {NS}><sheetData><row r="1"><c r="A1" t="s"><v>0</v></c><c r="B1" t="inlineStr"><is><t><![CDATA[in<line]]></t></is></c><c r="C1" t="str"><f>"x"</f><v>a&amp;b&#65;</v></c></row></sheetData></worksheet>',
     sst=f'<sst {NS}><si><t>pre<![CDATA[a<b&c]]>post</t></si></sst>')
xlsx('macrosheet.xlsx', f'<worksheet {NS}><sheetData><row r="1"><c r="A1"><v>1</v></c></row></sheetData></worksheet>',
  workbook=f'<workbook {NS} xmlns:r="http://schemas.openxmlformats.org/officeDocument/2006/relationships"><sheets><sheet name="S" sheetId="1" r:id="rId1"/><sheet name="M" sheetId="2" r:id="rId2"/></sheets></workbook>',
  rels='<Relationships xmlns="http://schemas.openxmlformats.org/package/2006/relationships"><Relationship Id="rId1" Type="x" Target="worksheets/sheet1.xml"/><Relationship Id="rId2" Type="http://schemas.microsoft.com/office/2006/relationships/xlMacrosheet" Target="macrosheets/sheet1.xml"/></Relationships>',
  extra={'xl/macrosheets/sheet1.xml': '<xm:macrosheet xmlns:xm="http://schemas.microsoft.com/office/excel/2006/main"><sheetData/></xm:macrosheet>'})
def ods(path, table_xml, manifest_extra=''):
    z=zipfile.ZipFile(path,'w',zipfile.ZIP_DEFLATED)
    z.writestr('mimetype','application/vnd.oasis.opendocument.spreadsheet', compress_type=zipfile.ZIP_STORED)
    z.writestr('META-INF/manifest.xml', '<manifest:manifest xmlns:manifest="urn:oasis:names:tc:opendocument:xmlns:manifest:1.0"><manifest:file-entry manifest:full-path="/" manifest:media-type="application/vnd.oasis.opendocument.spreadsheet"/>'+manifest_extra+'</manifest:manifest>')
    z.writestr('content.xml', '<office:document-content xmlns:office="urn:oasis:names:tc:opendocument:xmlns:office:1.0" xmlns:table="urn:oasis:names:tc:opendocument:xmlns:table:1.0" xmlns:text="urn:oasis:names:tc:opendocument:xmlns:text:1.0"><office:body><office:spreadsheet>'+table_xml+'</office:spreadsheet></office:body></office:document-content>')
    z.close()
F=lambda v: f'<table:table-cell office:value-type="float" office:value="{v}"/>'
E='<table:table-cell/>'
ods('gap.ods', '<table:table table:name="S"><table:table-row>'+E+F(1)+F(2)+'</table:table-row><table:table-row><table:table-cell table:number-columns-repeated="3"/></table:table-row><table:table-row>'+E+F(3)+'</table:table-row></table:table>')
ods('text.ods', '<table:table table:name="S"><table:table-row><table:table-cell office:value-type="string"><text:p>a<text:s text:c="3"/>b<text:s/>c</text:p><text:p>line2 <![CDATA[x<y]]></text:p></table:table-cell></table:table-row></table:table>')
ods('pretty.ods', '<table:table table:name="S">\n <table:table-row>\n  '+F(1)+'\n </table:table-row>\n</table:table>')
