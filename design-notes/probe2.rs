use calamine::*;
fn main() {
    for (f, s) in [("tests/any_sheets.xls", "Visible"), ("tests/any_sheets.ods", "Visible")] {
        for n in [0u32, 1, 5, 1000, 70000, u32::MAX] {
            let r = std::panic::catch_unwind(|| {
                if f.ends_with("xls") {
                    let mut wb: Xls<_> = open_workbook(f).unwrap();
                    let d = wb.worksheet_range(s).map(|r| (r.start(), r.end()));
                    let h = wb.with_header_row(HeaderRow::Row(n)).worksheet_range(s).map(|r| (r.start(), r.end()));
                    format!("default={:?} hr={:?}", d.ok(), h.ok())
                } else {
                    let mut wb: Ods<_> = open_workbook(f).unwrap();
                    let d = wb.worksheet_range(s).map(|r| (r.start(), r.end()));
                    let h = wb.with_header_row(HeaderRow::Row(n)).worksheet_range(s).map(|r| (r.start(), r.end()));
                    format!("default={:?} hr={:?}", d.ok(), h.ok())
                }
            });
            println!("PROBE {f} n={n}: {:?}", r.map_err(|_| "panic"));
        }
    }
}
