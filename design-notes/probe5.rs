use calamine::*;
fn show<E: std::fmt::Display>(r: Result<Range<Data>, E>) -> String { match r { Ok(r) => format!("start={:?} end={:?} size={:?} inner_rows={:?}", r.start(), r.end(), r.get_size(), r.rows().map(|x| x.to_vec()).collect::<Vec<_>>()), Err(e) => format!("range err {e}") } }
fn main() {
    let d = "/tmp/cal-probe/";
    for f in ["cdata", "macrosheet"] {
        let r = std::panic::catch_unwind(|| { match open_workbook::<Xlsx<_>, _>(format!("{d}{f}.xlsx")) { Ok(mut w) => format!("{:?} {}", w.sheets_metadata().to_vec(), show(w.worksheet_range("S"))), Err(e) => format!("open err: {e}") } });
        println!("PROBE {f}: {:?}", r.map_err(|_| "panic"));
    }
    for f in ["gap", "text", "pretty"] {
        let r = std::panic::catch_unwind(|| { match open_workbook::<Ods<_>, _>(format!("{d}{f}.ods")) { Ok(mut w) => show(w.worksheet_range("S")), Err(e) => format!("open err: {e}") } });
        println!("PROBE {f}: {:?}", r.map_err(|_| "panic"));
    }
}
