/-! Prototype: MS-OVBA copy token — the chunked copy loop of `decompress_stream`
    equals the byte-by-byte semantics of the specification. -/
namespace Lz

/-- spec: copy `len` bytes one at a time from `off` bytes back (overlap allowed) -/
def copySpec (off : Nat) : Nat → List UInt8 → List UInt8
  | 0, res => res
  | n+1, res => copySpec off n (res ++ [res.getD (res.length - off) 0])

/-- code: `while len > offset { append last offset bytes; len -= offset }` then append `len` bytes. -/
def copyCode (off : Nat) : Nat → Nat → List UInt8 → List UInt8
  | 0, _, res => res
  | fuel+1, len, res =>
    if len > off then copyCode off fuel (len - off) (res ++ res.drop (res.length - off))
    else res ++ (res.drop (res.length - off)).take len

/-- state after `j` single-byte copies out of a window `w` of length `off` -/
theorem copySpec_window (p w : List UInt8) (k j : Nat) (hw : 1 ≤ w.length) (hjk : j + k ≤ w.length) :
    copySpec w.length k (p ++ w ++ w.take j) = p ++ w ++ w.take (j + k) := by
  induction k generalizing j with
  | zero => simp [copySpec]
  | succ k ih =>
    simp only [copySpec]
    have hj : j < w.length := by omega
    have hidx : (p ++ w ++ w.take j).length - w.length = p.length + j := by
      simp [List.length_take]; omega
    have hget : (p ++ w ++ w.take j).getD (p.length + j) 0 = w.getD j 0 := by
      simp only [List.getD_eq_getElem?_getD]
      rw [List.append_assoc, List.getElem?_append_right (by omega)]
      rw [List.getElem?_append_left (by omega)]
      congr 2; omega
    rw [hidx, hget]
    have hstep : p ++ w ++ w.take j ++ [w.getD j 0] = p ++ w ++ w.take (j + 1) := by
      rw [List.append_assoc (p ++ w)]
      congr 1
      rw [List.take_add_one]
      simp [List.getD_eq_getElem?_getD, List.getElem?_eq_getElem hj]
    rw [hstep, ih (j + 1) (by omega)]
    congr 2; omega

theorem copySpec_block (off k : Nat) (res : List UInt8) (h1 : 1 ≤ off) (h2 : off ≤ res.length)
    (hk : k ≤ off) : copySpec off k res = res ++ (res.drop (res.length - off)).take k := by
  have hsplit : res = res.take (res.length - off) ++ res.drop (res.length - off) := (List.take_append_drop _ _).symm
  have hwl : (res.drop (res.length - off)).length = off := by simp; omega
  have := copySpec_window (res.take (res.length - off)) (res.drop (res.length - off)) k 0 (by omega) (by omega)
  simp only [List.take_zero, List.append_nil, Nat.zero_add, hwl] at this
  rw [List.take_append_drop] at this
  exact this

/-- spec copies compose -/
theorem copySpec_add (off a b : Nat) (res : List UInt8) :
    copySpec off (a + b) res = copySpec off b (copySpec off a res) := by
  induction a generalizing res with
  | zero => simp [copySpec]
  | succ a ih => rw [Nat.succ_add]; simp only [copySpec]; exact ih _

theorem copySpec_length (off n : Nat) (res : List UInt8) : (copySpec off n res).length = res.length + n := by
  induction n generalizing res with
  | zero => simp [copySpec]
  | succ n ih => simp only [copySpec]; rw [ih]; simp; omega

/-- the chunked loop of the implementation is the specification's byte-by-byte copy -/
theorem copyCode_eq_spec (off : Nat) (h1 : 1 ≤ off) : ∀ (fuel len : Nat) (res : List UInt8),
    off ≤ res.length → len ≤ fuel * off → fuel ≥ 1 →
    copyCode off fuel len res = copySpec off len res
  | 0, _, _, _, _, hf => by omega
  | fuel+1, len, res, h2, hlen, _ => by
    simp only [copyCode]
    split
    · -- one full block, then recurse
      rename_i hgt
      have hb := copySpec_block off off res h1 h2 (Nat.le_refl _)
      have hfull : (res.drop (res.length - off)).take off = res.drop (res.length - off) := by
        apply List.take_of_length_le; simp; omega
      rw [hfull] at hb
      obtain ⟨m, rfl⟩ : ∃ m, len = off + m := ⟨len - off, by omega⟩
      have hm : off + m - off = m := Nat.add_sub_cancel_left off m
      rw [hm, copySpec_add, hb]
      cases fuel with
      | zero => exfalso; simp at hlen; omega
      | succ f =>
        apply copyCode_eq_spec off h1 (f+1) m
        · simp; omega
        · rw [Nat.succ_mul] at hlen; omega
        · omega
    · rename_i hle
      exact (copySpec_block off len res h1 h2 (by omega)).symm

end Lz
#print axioms Lz.copyCode_eq_spec
