/-! Prototype: the `parse_formula` stack-of-offsets machine and its correctness (C14 shape). -/
namespace P

inductive Tok where
  | opnd (s : List Char)            -- pushes an operand text
  | bin (op : List Char)            -- binary operator
  | pre (c : Char)                  -- unary prefix (+ -)
  | post (c : Char)                 -- unary postfix (%)
  | paren
  | fn (name : List Char) (argc : Nat)
deriving Repr

inductive Expr where
  | leaf (s : List Char)
  | bin (op : List Char) (a b : Expr)
  | pre (c : Char) (a : Expr)
  | post (c : Char) (a : Expr)
  | paren (a : Expr)
  | fn (name : List Char) (args : List Expr)

structure St where
  buf : List Char
  stk : List Nat
deriving Repr

def insertAt (l : List Char) (i : Nat) (c : Char) : List Char := l.take i ++ c :: l.drop i

/-- join argument slices: offsets `offs` are relative starts inside `fargs`, `last = fargs.length` -/
def joinArgs (fargs : List Char) : List Nat → List Char
  | [] => []
  | [a] => fargs.drop a
  | a :: b :: rest => (fargs.drop a).take (b - a) ++ ',' :: joinArgs fargs (b :: rest)

def step (s : St) : Tok → Option St
  | .opnd t => some ⟨s.buf ++ t, s.stk ++ [s.buf.length]⟩
  | .bin op =>
    match s.stk.getLast? with
    | none => none
    | some e2 => some ⟨s.buf.take e2 ++ op ++ s.buf.drop e2, s.stk.dropLast⟩
  | .pre c =>
    match s.stk.getLast? with
    | none => none
    | some e => some ⟨insertAt s.buf e c, s.stk⟩
  | .post c => some ⟨s.buf ++ [c], s.stk⟩
  | .paren =>
    match s.stk.getLast? with
    | none => none
    | some e => some ⟨insertAt s.buf e '(' ++ [')'], s.stk⟩
  | .fn name argc =>
    if s.stk.length < argc then none else
    if argc = 0 then some ⟨s.buf ++ name ++ ['(', ')'], s.stk ++ [s.buf.length]⟩ else
    let keep := s.stk.take (s.stk.length - argc)
    let args := s.stk.drop (s.stk.length - argc)
    match args with
    | [] => none
    | start :: _ =>
      let fargs := s.buf.drop start
      let buf0 := s.buf.take start
      some ⟨buf0 ++ name ++ '(' :: joinArgs fargs (args.map (· - start)) ++ [')'], keep ++ [buf0.length]⟩

def run : List Tok → St → Option St
  | [], s => some s
  | t :: ts, s => (step s t).bind (run ts)

mutual
def render : Expr → List Char
  | .leaf s => s
  | .bin op a b => render a ++ op ++ render b
  | .pre c a => c :: render a
  | .post c a => render a ++ [c]
  | .paren a => '(' :: render a ++ [')']
  | .fn name args => name ++ '(' :: renderArgs args ++ [')']
def renderArgs : List Expr → List Char
  | [] => []
  | [a] => render a
  | a :: b :: rest => render a ++ ',' :: renderArgs (b :: rest)
end

mutual
def rpn : Expr → List Tok
  | .leaf s => [.opnd s]
  | .bin op a b => rpn a ++ rpn b ++ [.bin op]
  | .pre c a => rpn a ++ [.pre c]
  | .post c a => rpn a ++ [.post c]
  | .paren a => rpn a ++ [.paren]
  | .fn name args => rpnArgs args ++ [.fn name args.length]
def rpnArgs : List Expr → List Tok
  | [] => []
  | a :: rest => rpn a ++ rpnArgs rest
end

theorem run_append (ts us : List Tok) (s : St) : run (ts ++ us) s = (run ts s).bind (run us) := by
  induction ts generalizing s with
  | nil => simp [run]
  | cons t ts ih =>
    simp only [List.cons_append, run]
    cases step s t with
    | none => simp
    | some s' => simp [ih]

-- cumulative start offsets of the arguments, beginning at `base`
def argOffs (base : Nat) : List Expr → List Nat
  | [] => []
  | a :: rest => base :: argOffs (base + (render a).length) rest

def concatArgs : List Expr → List Char
  | [] => []
  | a :: rest => render a ++ concatArgs rest

theorem argOffs_length (base : Nat) (args : List Expr) : (argOffs base args).length = args.length := by
  induction args generalizing base with
  | nil => rfl
  | cons a rest ih => simp [argOffs, ih]

/-- joining the slices of the concatenated argument texts gives the comma-separated rendering -/
theorem joinArgs_concat (pre : List Char) (args : List Expr) (hne : args ≠ []) :
    joinArgs (pre ++ concatArgs args) (argOffs pre.length args) = renderArgs args := by
  induction args generalizing pre with
  | nil => exact absurd rfl hne
  | cons a rest ih =>
    cases rest with
    | nil =>
      simp [argOffs, joinArgs, concatArgs, renderArgs]
    | cons b rest' =>
      have ih' := ih (pre ++ render a) (by simp)
      simp only [argOffs, joinArgs, concatArgs, renderArgs] at *
      have h1 : (List.drop pre.length (pre ++ (render a ++ (render b ++ concatArgs rest')))).take
          (pre.length + (render a).length - pre.length) = render a := by
        rw [List.drop_left' rfl]; simp
      rw [h1]
      congr 1; congr 1
      have : (pre ++ render a).length = pre.length + (render a).length := by simp
      rw [this] at ih'
      simpa [List.append_assoc] using ih'

theorem insertAt_append (buf r : List Char) (c : Char) :
    insertAt (buf ++ r) buf.length c = buf ++ c :: r := by
  simp [insertAt, List.take_left', List.drop_left']

mutual
theorem correct : ∀ (e : Expr) (buf : List Char) (stk : List Nat) (rest : List Tok),
    run (rpn e ++ rest) ⟨buf, stk⟩ = run rest ⟨buf ++ render e, stk ++ [buf.length]⟩
  | .leaf s, buf, stk, rest => by simp [rpn, run, step, render]
  | .bin op a b, buf, stk, rest => by
    simp only [rpn, List.append_assoc]
    rw [correct a, correct b]
    simp only [List.singleton_append, run, step, Option.bind]
    have ht : List.take (buf.length + (render a).length) (buf ++ (render a ++ render b)) = buf ++ render a := by
      rw [← List.append_assoc]; exact List.take_left' (by simp)
    simp [render, List.getLast?_append, List.dropLast_append_of_ne_nil, List.drop_left', ht]
  | .pre c a, buf, stk, rest => by
    simp only [rpn, List.append_assoc]
    rw [correct a]
    simp [run, step, render, insertAt_append]
  | .post c a, buf, stk, rest => by
    simp only [rpn, List.append_assoc]
    rw [correct a]
    simp [run, step, render]
  | .paren a, buf, stk, rest => by
    simp only [rpn, List.append_assoc]
    rw [correct a]
    simp [run, step, render, insertAt_append]
  | .fn name args, buf, stk, rest => by
    simp only [rpn, List.append_assoc]
    rw [correctArgs args]
    simp only [List.singleton_append, run, step, Option.bind]
    have hl : (argOffs buf.length args).length = args.length := argOffs_length _ _
    cases args with
    | nil => simp [argOffs, concatArgs, render, renderArgs]
    | cons a rest' =>
      have hlt : ¬ (stk ++ argOffs buf.length (a :: rest')).length < (a :: rest').length := by
        simp [hl]
      simp only [hlt, if_false]
      have hz : ¬ (a :: rest').length = 0 := by simp
      simp only [hz, if_false]
      have hdrop : List.drop ((stk ++ argOffs buf.length (a :: rest')).length - (a :: rest').length)
          (stk ++ argOffs buf.length (a :: rest')) = argOffs buf.length (a :: rest') := by
        rw [List.length_append, hl]; simp
      have htake : List.take ((stk ++ argOffs buf.length (a :: rest')).length - (a :: rest').length)
          (stk ++ argOffs buf.length (a :: rest')) = stk := by
        rw [List.length_append, hl]; simp
      rw [hdrop, htake]
      simp only [argOffs]
      have hj := joinArgs_concat [] (a :: rest') (by simp)
      simp only [List.nil_append, List.length_nil, argOffs, Nat.zero_add] at hj
      -- offsets relative to the start of the first argument
      have hrel : ∀ (base k : Nat) (l : List Expr), (argOffs (base + k) l).map (· - base) = argOffs k l := by
        intro base k l
        induction l generalizing k with
        | nil => rfl
        | cons x xs ih => simp [argOffs, Nat.add_assoc, ih]
      have hrel0 := hrel buf.length 0 (a :: rest')
      simp only [Nat.add_zero, argOffs, List.map_cons, Nat.sub_self, Nat.zero_add] at hrel0
      simp only [List.map_cons, Nat.sub_self]
      have hd : List.drop buf.length (buf ++ concatArgs (a :: rest')) = concatArgs (a :: rest') :=
        List.drop_left' rfl
      have htk : List.take buf.length (buf ++ concatArgs (a :: rest')) = buf := List.take_left' rfl
      rw [hd, htk]
      have e1 : List.map (fun x => x - buf.length) (argOffs (buf.length + (render a).length) rest')
          = argOffs (render a).length rest' := hrel buf.length (render a).length rest'
      rw [e1, hj]
      simp [render, List.append_assoc]
theorem correctArgs : ∀ (args : List Expr) (buf : List Char) (stk : List Nat) (rest : List Tok),
    run (rpnArgs args ++ rest) ⟨buf, stk⟩ = run rest ⟨buf ++ concatArgs args, stk ++ argOffs buf.length args⟩
  | [], buf, stk, rest => by simp [rpnArgs, concatArgs, argOffs]
  | a :: as, buf, stk, rest => by
    simp only [rpnArgs, List.append_assoc]
    rw [correct a, correctArgs as]
    simp [concatArgs, argOffs, List.append_assoc]
end

#eval (run (rpn (.fn "SUM".toList [.bin "+".toList (.leaf "A1".toList) (.leaf "2".toList), .pre '-' (.paren (.leaf "B2".toList)), .leaf "x".toList])) ⟨"=".toList, []⟩).map (fun s => (String.ofList s.buf, s.stk))
#eval String.ofList (render (.fn "SUM".toList [.bin "+".toList (.leaf "A1".toList) (.leaf "2".toList), .pre '-' (.paren (.leaf "B2".toList)), .leaf "x".toList]))
end P

namespace P
theorem parse_correct (e : Expr) : run (rpn e) ⟨[], []⟩ = some ⟨render e, [0]⟩ := by
  have := correct e [] [] []
  simpa [run] using this
end P
#print axioms P.parse_correct
#print axioms P.correct
