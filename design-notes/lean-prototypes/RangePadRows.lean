/-! Prototype: Range model (flat row-major list) and the set_value invariant. -/
namespace Proto
variable {α : Type} [Inhabited α] [DecidableEq α]

structure Rng (α : Type) where
  sr : Nat
  sc : Nat
  er : Nat
  ec : Nat
  inner : List α

def Rng.width (r : Rng α) : Nat := if r.inner = [] then 0 else r.ec - r.sc + 1
def Rng.height (r : Rng α) : Nat := if r.inner = [] then 0 else r.er - r.sr + 1

/-- pad `k` rows of width `w` with `extra` defaults each (mirrors the `chunks(old_width)` loop) -/
def padRows (w extra : Nat) : Nat → List α → List α
  | 0, _ => []
  | k+1, l => l.take w ++ List.replicate extra default ++ padRows w extra k (l.drop w)

theorem padRows_length (w extra : Nat) : ∀ (k : Nat) (l : List α), l.length = k * w →
    (padRows w extra k l).length = k * (w + extra)
  | 0, l, _ => by simp [padRows]
  | k+1, l, h => by
    have h1 : (l.take w).length = w := by
      rw [List.length_take]; rw [h, Nat.succ_mul]; omega
    have h2 : (l.drop w).length = k * w := by
      rw [List.length_drop, h, Nat.succ_mul]; omega
    simp only [padRows, List.length_append, List.length_replicate, h1, padRows_length w extra k _ h2]
    rw [Nat.succ_mul]; omega

/-- element access in padded rows -/
theorem padRows_get (w extra : Nat) (hw : 0 < w) : ∀ (k : Nat) (l : List α), l.length = k * w →
    ∀ i j, i < k → j < w + extra →
    (padRows w extra k l)[i * (w + extra) + j]? =
      if j < w then l[i * w + j]? else some default
  | 0, _, _, i, _, hi, _ => by omega
  | k+1, l, h, i, j, hi, hj => by
    have h1 : (l.take w).length = w := by
      rw [List.length_take]; rw [h, Nat.succ_mul]; omega
    have h2 : (l.drop w).length = k * w := by
      rw [List.length_drop, h, Nat.succ_mul]; omega
    cases i with
    | zero =>
      simp only [padRows, Nat.zero_mul, Nat.zero_add]
      by_cases hjw : j < w
      · simp only [hjw, if_true]
        rw [List.append_assoc, List.getElem?_append_left (by omega)]
        rw [List.getElem?_take]; simp [hjw]
      · simp only [hjw, if_false]
        rw [List.append_assoc, List.getElem?_append_right (by omega)]
        rw [List.getElem?_append_left (by rw [List.length_replicate, h1]; omega)]
        rw [List.getElem?_replicate]; rw [h1]
        have : j - w < extra := by omega
        simp [this]
    | succ i =>
      have ih := padRows_get w extra hw k (l.drop w) h2 i j (by omega) hj
      simp only [padRows]
      have e : (i + 1) * (w + extra) + j = (w + extra) + (i * (w + extra) + j) := by
        rw [Nat.succ_mul]; omega
      rw [e, List.append_assoc, List.getElem?_append_right (by omega)]
      rw [List.getElem?_append_right (by simp [h1]; omega)]
      simp only [h1, List.length_replicate]
      have e2 : w + extra + (i * (w + extra) + j) - w - extra = i * (w + extra) + j := by omega
      rw [e2, ih]
      split
      · rw [List.getElem?_drop]; congr 1; rw [Nat.succ_mul]; omega
      · rfl
end Proto
