/-! Prototype for C05: flat row-major `Range` model, invariant, and the `set_value` contract.
    Mirrors `src/lib.rs` after fix D01 (grow-down adds `row - end.row` rows). `none` = panic. -/
namespace RangeProto
variable {α : Type} [Inhabited α]

structure Rng (α : Type) where
  sr : Nat
  sc : Nat
  er : Nat
  ec : Nat
  inner : List α

def Rng.width (r : Rng α) : Nat := if r.inner.length = 0 then 0 else r.ec - r.sc + 1
def Rng.height (r : Rng α) : Nat := if r.inner.length = 0 then 0 else r.er - r.sr + 1

/-- the data invariant of `Range` -/
structure Inv (r : Rng α) : Prop where
  len : r.inner.length = r.height * r.width
  ord : r.inner.length ≠ 0 → r.sr ≤ r.er ∧ r.sc ≤ r.ec

/-- value at an absolute position (default outside the rectangle): `get_value(..).unwrap_or_default` -/
def Rng.valAt (r : Rng α) (row col : Nat) : α :=
  if r.inner.length ≠ 0 ∧ r.sr ≤ row ∧ row ≤ r.er ∧ r.sc ≤ col ∧ col ≤ r.ec then
    r.inner.getD ((row - r.sr) * r.width + (col - r.sc)) default
  else default

/-- `chunks(w)` re-layout: every old row is followed by `extra` defaults (k rows) -/
def padRows (w extra : Nat) : Nat → List α → List α
  | 0, _ => []
  | k+1, l => l.take w ++ List.replicate extra default ++ padRows w extra k (l.drop w)

theorem padRows_length (w extra : Nat) : ∀ (k : Nat) (l : List α), l.length = k * w →
    (padRows w extra k l).length = k * (w + extra)
  | 0, l, _ => by simp [padRows]
  | k+1, l, h => by
    have h1 : (l.take w).length = w := by rw [List.length_take, h, Nat.succ_mul]; omega
    have h2 : (l.drop w).length = k * w := by rw [List.length_drop, h, Nat.succ_mul]; omega
    simp only [padRows, List.length_append, List.length_replicate, h1, padRows_length w extra k _ h2]
    rw [Nat.succ_mul]; omega

theorem padRows_get (w extra : Nat) : ∀ (k : Nat) (l : List α), l.length = k * w →
    ∀ i j, i < k → j < w + extra →
    (padRows w extra k l)[i * (w + extra) + j]? = if j < w then l[i * w + j]? else some default
  | 0, _, _, i, _, hi, _ => by omega
  | k+1, l, h, i, j, hi, hj => by
    have h1 : (l.take w).length = w := by rw [List.length_take, h, Nat.succ_mul]; omega
    have h2 : (l.drop w).length = k * w := by rw [List.length_drop, h, Nat.succ_mul]; omega
    cases i with
    | zero =>
      simp only [padRows, Nat.zero_mul, Nat.zero_add]
      by_cases hjw : j < w
      · simp only [hjw, if_true]
        rw [List.append_assoc, List.getElem?_append_left (by omega), List.getElem?_take]; simp [hjw]
      · simp only [hjw, if_false]
        rw [List.append_assoc, List.getElem?_append_right (by omega)]
        rw [List.getElem?_append_left (by rw [List.length_replicate, h1]; omega)]
        rw [List.getElem?_replicate, h1]
        have : j - w < extra := by omega
        simp [this]
    | succ i =>
      have ih := padRows_get w extra k (l.drop w) h2 i j (by omega) hj
      simp only [padRows]
      have e : (i + 1) * (w + extra) + j = (w + extra) + (i * (w + extra) + j) := by
        rw [Nat.succ_mul]; omega
      rw [e, List.append_assoc, List.getElem?_append_right (by omega)]
      rw [List.getElem?_append_right (by simp [h1]; omega)]
      simp only [h1, List.length_replicate]
      have e2 : w + extra + (i * (w + extra) + j) - w - extra = i * (w + extra) + j := by omega
      rw [e2, ih]
      split
      · rw [List.getElem?_drop]; congr 1; rw [Nat.succ_mul]; omega
      · rfl

/-- `Range::set_value` (fixed). Panics (none) on an empty range or a position before the start. -/
def setValue (r : Rng α) (row col : Nat) (v : α) : Option (Rng α) :=
  if r.inner.length = 0 then none            -- index out of bounds / chunks(0)
  else if ¬ (r.sr ≤ row ∧ r.sc ≤ col) then none   -- assert!
  else
    let r' : Rng α :=
      if r.ec < col then
        let h := if r.er < row then row - r.sr + 1 else r.height
        let w := col - r.sc + 1
        { r with er := (if r.er < row then row else r.er), ec := col,
                 inner := padRows r.width (w - r.width) r.height r.inner
                          ++ List.replicate (w * (h - r.height)) default }
      else if r.er < row then
        { r with er := row, inner := r.inner ++ List.replicate ((row - r.er) * r.width) default }
      else r
    some { r' with inner := r'.inner.set ((row - r'.sr) * r'.width + (col - r'.sc)) v }

/-- constructor lemma: a non-degenerate rectangle with the right number of cells satisfies `Inv` -/
theorem mkInv (sr sc er ec : Nat) (inner : List α) (ho1 : sr ≤ er) (ho2 : sc ≤ ec)
    (hlen : inner.length = (er - sr + 1) * (ec - sc + 1)) : Inv (⟨sr, sc, er, ec, inner⟩ : Rng α) := by
  have hpos : inner.length ≠ 0 := by
    rw [hlen]; exact Nat.ne_of_gt (Nat.mul_pos (by omega) (by omega))
  constructor
  · simp only [Rng.height, Rng.width, hpos, if_false]; exact hlen
  · intro _; exact ⟨ho1, ho2⟩

theorem inv_set (r : Rng α) (i : Nat) (v : α) (h : Inv r) : Inv { r with inner := r.inner.set i v } := by
  constructor
  · simp only [Rng.height, Rng.width, List.length_set]; exact h.len
  · simp only [List.length_set]; exact h.ord

/-- one-step invariant preservation -/
theorem inv_setValue (r : Rng α) (row col : Nat) (v : α) (hi : Inv r) (r2 : Rng α)
    (h : setValue r row col v = some r2) : Inv r2 := by
  unfold setValue at h
  split at h
  · cases h
  · rename_i hne
    split at h
    · cases h
    · rename_i hpre
      have hpre' : r.sr ≤ row ∧ r.sc ≤ col := Classical.not_not.mp hpre
      obtain ⟨hord1, hord2⟩ := hi.ord hne
      have hw : r.width = r.ec - r.sc + 1 := by simp [Rng.width, hne]
      have hh : r.height = r.er - r.sr + 1 := by simp [Rng.height, hne]
      have hlen := hi.len
      cases h
      apply inv_set
      by_cases hc : r.ec < col
      · simp only [hc, if_true]
        have hpl := padRows_length r.width (col - r.sc + 1 - r.width) r.height r.inner hlen
        have hwe : r.width + (col - r.sc + 1 - r.width) = col - r.sc + 1 := by omega
        by_cases hr : r.er < row
        · simp only [hr, if_true]
          apply mkInv <;> try omega
          rw [List.length_append, hpl, List.length_replicate, hwe, Nat.mul_comm (col - r.sc + 1), ← Nat.add_mul]
          congr 1; omega
        · simp only [hr, if_false]
          apply mkInv <;> try omega
          rw [List.length_append, hpl, List.length_replicate, hwe, Nat.sub_self, Nat.mul_zero, Nat.add_zero, hh]
      · simp only [hc, if_false]
        by_cases hr : r.er < row
        · simp only [hr, if_true]
          apply mkInv <;> try omega
          rw [List.length_append, List.length_replicate, hlen, hh, hw, ← Nat.add_mul]
          congr 1; omega
        · simp only [hr, if_false]
          exact hi

end RangeProto
#print axioms RangeProto.inv_setValue
