import zipfile, sys
CT = '<?xml version="1.0" encoding="UTF-8"?><Types xmlns="http://schemas.openxmlformats.org/package/2006/content-types"/>'
def xlsx(path, sheet_xml, sst=None, styles=None, workbook=None, rels=None, extra=None):
    z = zipfile.ZipFile(path, 'w', zipfile.ZIP_DEFLATED)
    z.writestr('[Content_Types].xml', CT)
    z.writestr('xl/workbook.xml', workbook or '<workbook xmlns="http://schemas.openxmlformats.org/spreadsheetml/2006/main" xmlns:r="http://schemas.openxmlformats.org/officeDocument/2006/relationships"><sheets><sheet name="S" sheetId="1" r:id="rId1"/></sheets></workbook>')
    z.writestr('xl/_rels/workbook.xml.rels', rels or '<Relationships xmlns="http://schemas.openxmlformats.org/package/2006/relationships"><Relationship Id="rId1" Type="http://schemas.openxmlformats.org/officeDocument/2006/relationships/worksheet" Target="worksheets/sheet1.xml"/></Relationships>')
    z.writestr('xl/worksheets/sheet1.xml', sheet_xml)
    if sst: z.writestr('xl/sharedStrings.xml', sst)
    if styles: z.writestr('xl/styles.xml', styles)
    for k,v in (extra or {}).items(): z.writestr(k, v)
    z.close()
NS='xmlns="http://schemas.openxmlformats.org/spreadsheetml/2006/main"'
# 1: <si/> shift
xlsx('si_empty.xlsx', f'<worksheet {NS}><sheetData><row r="1"><c r="A1" t="s"><v>0</v></c><c r="B1" t="s"><v>1</v></c><c r="C1" t="s"><v>2</v></c></row></sheetData></worksheet>',
     sst=f'<sst {NS}><si><t>zero</t></si><si/><si><t>two</t></si></sst>')
# 2: namespaced rich sst
X='xmlns:x="http://schemas.openxmlformats.org/spreadsheetml/2006/main"'
xlsx('ns_rich.xlsx', f'<x:worksheet {X}><x:sheetData><x:row r="1"><x:c r="A1" t="s"><x:v>0</x:v></x:c><x:c r="B1" t="s"><x:v>1</x:v></x:c></x:row></x:sheetData></x:worksheet>',
     sst=f'<x:sst {X}><x:si><x:r><x:t>ri</x:t></x:r><x:r><x:t>ch</x:t></x:r></x:si><x:si><x:t>plain</x:t></x:si></x:sst>')
# 3: shared formulas: 2-D block B1:C2 with master B1 "A1+1"; out-of-order si
xlsx('shared.xlsx', f'<worksheet {NS}><sheetData>'
  '<row r="1"><c r="B1"><f t="shared" ref="B1:C2" si="1">$A1+A$1+1</f><v>1</v></c><c r="C1"><f t="shared" si="1"/><v>1</v></c></row>'
  '<row r="2"><c r="B2"><f t="shared" si="1"/><v>1</v></c><c r="C2"><f t="shared" si="1"/><v>1</v></c></row>'
  '<row r="5"><c r="B5"><f t="shared" ref="B5:B6" si="0">A5*2</f><v>1</v></c></row>'
  '<row r="6"><c r="B6"><f t="shared" si="0"/><v>1</v></c></row>'
  '</sheetData></worksheet>')
# 4: table header 0 totals 1 at B2:C5
xlsx('table.xlsx', f'<worksheet {NS}><sheetData>' + ''.join(f'<row r="{r}"><c r="B{r}"><v>{r}</v></c><c r="C{r}"><v>{r*10}</v></c></row>' for r in range(1,7)) + '</sheetData></worksheet>',
  extra={'xl/worksheets/_rels/sheet1.xml.rels': '<Relationships xmlns="http://schemas.openxmlformats.org/package/2006/relationships"><Relationship Id="rId1" Type="http://schemas.openxmlformats.org/officeDocument/2006/relationships/table" Target="../tables/table1.xml"/></Relationships>',
         'xl/tables/table1.xml': f'<table {NS} id="1" name="T" displayName="T" ref="B2:C5" headerRowCount="0" totalsRowCount="1"><tableColumns count="2"><tableColumn id="1" name="a"/><tableColumn id="2" name="b"/></tableColumns></table>'})
# 5: prefixed workbookPr date1904 + date style
xlsx('pr1904.xlsx', f'<x:worksheet {X}><x:sheetData><x:row r="1"><x:c r="A1" s="1"><x:v>5</x:v></x:c></x:row></x:sheetData></x:worksheet>',
  workbook=f'<x:workbook {X} xmlns:r="http://schemas.openxmlformats.org/officeDocument/2006/relationships"><x:workbookPr date1904="1"/><x:sheets><x:sheet name="S" sheetId="1" r:id="rId1"/></x:sheets></x:workbook>',
  styles=f'<x:styleSheet {X}><x:cellXfs count="2"><x:xf numFmtId="0"/><x:xf numFmtId="14"/></x:cellXfs></x:styleSheet>')
# 6: other relationship prefix
xlsx('relprefix.xlsx', f'<worksheet {NS}><sheetData><row r="1"><c r="A1"><v>5</v></c></row></sheetData></worksheet>',
  workbook=f'<workbook {NS} xmlns:rel="http://schemas.openxmlformats.org/officeDocument/2006/relationships"><sheets><sheet name="S" sheetId="1" rel:id="rId1"/></sheets></workbook>')
# 7: implicit refs, inaccurate dims
xlsx('implicit.xlsx', f'<worksheet {NS}><dimension ref="A1:B2"/><sheetData><row><c><v>1</v></c><c><v>2</v></c></row><row r="5"><c r="C5"><v>3</v></c><c><v>4</v></c></row><row><c><v>5</v></c></row></sheetData></worksheet>')
