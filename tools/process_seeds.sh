#!/bin/sh
# tools/process_seeds.sh <Cxx> <tag>  — for every /tmp/mut/<tag>_out/m*: confirm independently, then run the check
# against a scratch copy of /repo with the patch. Appends one line per seed to /tmp/mut/<tag>.summary
pid="$1"; tag="$2"
cd /verif
: > /tmp/mut/$tag.summary
for d in /tmp/mut/${tag}_out/m*; do
  [ -f "$d/patch.diff" ] || continue
  m=$(basename "$d")
  conf=$(tools/confirm_seed.sh /tmp/mut/$tag "$d" 2>&1 | tail -1)
  verdict=$(tools/mutcheck.sh "$pid" "$d/patch.diff" 2>&1 | grep -E "VIOLATION|^OK |KNOWN-FINDING|BROKEN-CHECK|mutcheck rc" | grep -v KNOWN-FINDING | tr "\n" ";" | cut -c1-900)
  echo "$m | CONFIRM $conf | CHECK $verdict" >> /tmp/mut/$tag.summary
done
echo done >> /tmp/mut/$tag.summary
