#!/usr/bin/env python3
"""tools/upd_seed.py <seed-id> <yes|no|partial> "<how>"  — update seeded/<id>/meta.json detection, keeping the earlier state under history"""
import json, sys
sid, det, how = sys.argv[1:4]
p = f"/verif/seeded/{sid}/meta.json"
m = json.load(open(p))
d = m.get("detection", {})
m.setdefault("history", []).append({"detected": d.get("detected"), "how": d.get("how")})
d["detected"] = det; d["how"] = how
m["detection"] = d
json.dump(m, open(p, "w"), indent=1)
print("updated", sid, det)
