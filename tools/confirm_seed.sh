#!/bin/sh
# tools/confirm_seed.sh <worktree> <seed-dir>   — independently confirm a seeded change:
#   with the patch: crate builds, pinned suite result unchanged (12 / 98+mul_rk failing / 15), demo FAILS
#   without it: demo PASSES.   Prints a one-line JSON verdict. CONFIRM_FEATURES="--features dates" for demos behind a feature.
wt="$1"; d="$(readlink -f "$2")"
cd "$wt" || exit 2
export CARGO_NET_OFFLINE=true
git checkout -q -- . ; git clean -fdq tests/ src/ 2>/dev/null
[ -f Cargo.lock ] || cp /repo/Cargo.lock .
demo=$(ls "$d" | grep -E '^demo.*\.rs$' | head -1)
name="verif_demo"
cp "$d/$demo" "tests/$name.rs"
clean_demo=$(cargo test --offline $CONFIRM_FEATURES --test $name 2>&1 | grep -E "^test result" | head -1)
git apply "$d/patch.diff" || { echo '{"ok":false,"why":"patch does not apply"}'; git checkout -q -- .; rm -f tests/$name.rs; exit 1; }
suite=$(cargo test --offline --no-fail-fast 2>&1 | grep -E "^test result" | tr '\n' '|')
mut_demo=$(cargo test --offline $CONFIRM_FEATURES --test $name 2>&1 | grep -E "^test result" | head -1)
git checkout -q -- . ; rm -f tests/$name.rs
echo "{\"clean_demo\":\"$clean_demo\",\"mut_demo\":\"$mut_demo\",\"suite_with_patch\":\"$suite\"}"
