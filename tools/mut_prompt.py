#!/usr/bin/env python3
"""tools/mut_prompt.py <Cxx> <tag> <n>  — creates the worktree /tmp/mut/<tag> and prints the prompt for a seeding agent."""
import json, os, subprocess, sys
pid, tag, n = sys.argv[1], sys.argv[2], int(sys.argv[3])
round2 = len(sys.argv) > 4 and sys.argv[4] == "round2"
wt = f"/tmp/mut/{tag}"
out = f"/tmp/mut/{tag}_out"
os.makedirs("/tmp/mut", exist_ok=True)
if not os.path.exists(wt):
    subprocess.run(["git", "-C", "/repo", "worktree", "add", "--detach", wt, "HEAD"], check=True, capture_output=True)
    subprocess.run(["cp", "/repo/Cargo.lock", wt], check=True)
p = next(json.loads(l) for l in open("/verif/properties.jsonl") if json.loads(l)["id"] == pid)
files = ", ".join(p["anchors"]["files"])
print(f"""You are testing how well a regression-detection system catches subtle bugs. You work ONLY inside the git worktree {wt} (a checkout of the Rust crate `calamine`, a reader for xls/xlsx/xlsb/ods spreadsheets; build offline with `CARGO_NET_OFFLINE=true cargo build --offline`, tests with `cargo test --offline`; there is no network). Do not touch /repo or /verif, and do not read anything under /verif.

The crate is supposed to satisfy this semantic property:

"{p['title']}. {p['statement']}" (Quantified over: {p['quantifier']['text']}. The relevant code is mainly in: {files}.)

Produce {n} different, independent, realistic code changes (the kind a plausible refactoring, optimisation, clean-up or "small fix" could introduce), each of which BREAKS this property while the crate still compiles and the existing test suite still gives exactly the same results as before. First record the baseline on the unchanged worktree: `cargo test --offline --no-fail-fast 2>&1 | grep "test result"` gives `12 passed`, `98 passed; 1 failed; 1 ignored` (the integration test `mul_rk` fails in the baseline because its fixture file is empty — expected) and `15 passed` (doc tests); your change must not alter any of these. Each change must need something SPECIFIC to manifest — an unusual but legal input or encoding, a particular multi-step sequence of calls, a boundary size or position, a rarely used record/element/flag, or two cooperating sites that each look fine alone — not something ordinary use (or the repository's fixtures) would expose at once. Vary the changes: touch different functions/formats, make at least one of them a subtle two-site change, and prefer changes to the logic the property is about (positions, lengths, flags, indices, state) over changes to error messages or logging. Do NOT use the cargo feature `verif-hooks` or touch the `verif` modules at the end of the source files (test scaffolding that must stay as it is).

For each change i = 1..{n} create the directory {out}/m<i>/ containing:
- `patch.diff` — `git diff` of the change against the worktree's HEAD (apply-able with `git apply`),
- `demo.rs` — a small Rust integration test file (to be dropped into `tests/`) with one or more `#[test]`s that FAIL with the change and PASS without it, using only the crate's public API (it may build input files in memory — e.g. with the `zip` crate, which is a dependency, for xlsx/xlsb/ods, or hand-made bytes — or use files under `tests/`),
- `meta.json` — {{"property":"{pid}","summary": what the change does, "needs": what specific input/sequence is needed for it to manifest, "ran": the exact commands you ran and their results}}.
Verify all of that yourself for every change: apply the patch, run the full test suite (must match the baseline), run the demo (must fail); revert (`git checkout -- . && git clean -fdq tests/`), run the demo on the clean tree (must pass). Leave the worktree clean (no uncommitted changes, demo files removed) when you finish. Reply with a short summary table of the changes.""" + ("""

IMPORTANT — this is a SECOND round. An earlier batch of seeded changes for this property (mostly single-site slips: an off-by-one, a swapped flag, a dropped reset, a wrong mask, a shortcut for a special case) was detected within seconds by the project's randomised differential checks, which generate well-formed inputs of every documented shape with randomised physical encodings and compare every observable result. Aim higher this time: changes whose effect shows only when SEVERAL rarely combined conditions meet (e.g. a particular record/element order AND a boundary value AND a second sheet/part; state carried from one call or one sheet to the next; behaviour that differs only for the n-th occurrence; interaction with an option set earlier; inputs that are legal but that no common writer produces), caching or "optimisation" changes that are right on first use and wrong on reuse, changes that are right for every input smaller than some threshold, and two- or three-site changes whose sites are individually harmless. Still realistic, still compiling, still passing the whole existing suite, each with a failing/passing demonstration.""" if round2 else ""))
