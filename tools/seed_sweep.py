#!/usr/bin/env python3
"""tools/seed_sweep.py [--jobs N] [Cxx ...]
Re-runs every kept seeded change against the check that is recorded as catching it (its own property's check unless
meta.json's detection text names `tools/mutcheck.sh Cyy`), on scratch copies of /repo, and records the verdict in
seeded/<id>/meta.json under detection.last_verified. Seeds are grouped by the property whose check runs (one scratch
copy per property: /tmp/mutrepo_Cyy) and the groups run in parallel. Prints one line per seed and a summary."""
import json, os, re, subprocess, sys, glob, concurrent.futures as cf

args = sys.argv[1:]
jobs = 4
if "--jobs" in args:
    i = args.index("--jobs"); jobs = int(args[i + 1]); del args[i:i + 2]
only = set(args)
head = subprocess.run(["git", "-C", "/repo", "rev-parse", "--short", "HEAD"], capture_output=True, text=True).stdout.strip()
groups = {}
for d in sorted(glob.glob("/verif/seeded/C*-m*")):
    sid = os.path.basename(d)
    prop = sid.split("-")[0]
    if only and prop not in only:
        continue
    try:
        m = json.load(open(d + "/meta.json"))
    except Exception:
        continue
    how = (m.get("detection") or {}).get("how", "")
    others = [p for p in re.findall(r"tools/mutcheck\.sh (C\d\d)", how) if p != prop]
    by = others[0] if others else prop
    groups.setdefault(by, []).append((sid, d))

def run_group(by, seeds):
    out = []
    for sid, d in seeds:
        r = subprocess.run(["/verif/tools/mutcheck.sh", by, d + "/patch.diff"], capture_output=True, text=True, cwd="/verif",
                           env=dict(os.environ, MUTREPO_TAG="_sweep"))
        txt = r.stdout + r.stderr
        vio = re.findall(r"VIOLATION property=\S+ replay=\S+(?: no-failing-input-found)?", txt)
        if "PATCH-DOES-NOT-APPLY" in txt:
            verdict = "stale"
        elif vio:
            verdict = "detected"
        elif re.search(r"^OK property", txt, re.M):
            verdict = "missed"
        else:
            verdict = "error"
        m = json.load(open(d + "/meta.json"))
        m.setdefault("detection", {})["last_verified"] = {
            "verdict": verdict, "by_check": by, "repo_head": head,
            "first_violation": vio[0].replace("/verif/", "") if vio else None}
        json.dump(m, open(d + "/meta.json", "w"), indent=1)
        out.append((sid, by, verdict, (vio[0] if vio else txt[-200:].replace("\n", " "))))
        print(f"{sid} by={by} {verdict}", flush=True)
    subprocess.run(["rm", "-rf", f"/tmp/mutrepo_{by}_sweep"])
    return out

res = []
with cf.ThreadPoolExecutor(max_workers=jobs) as ex:
    for r in ex.map(lambda kv: run_group(*kv), groups.items()):
        res += r
from collections import Counter
print("SUMMARY", dict(Counter(v for _, _, v, _ in res)))
for sid, by, v, info in res:
    if v != "detected":
        print("ATTENTION", sid, by, v, info[:200])
