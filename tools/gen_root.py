#!/usr/bin/env python3
"""Regenerates lean/CalVerif.lean (imports every module under lean/CalVerif) so `lake build` checks everything."""
import os
L = os.path.join(os.path.dirname(os.path.dirname(os.path.abspath(__file__))), "lean")
mods = []
for d, _, fs in os.walk(os.path.join(L, "CalVerif")):
    for f in sorted(fs):
        if f.endswith(".lean"):
            rel = os.path.relpath(os.path.join(d, f), L)[:-5].replace(os.sep, ".")
            mods.append(rel)
open(os.path.join(L, "CalVerif.lean"), "w").write("".join(f"import {m}\n" for m in sorted(mods)))
print(len(mods), "modules")
