#!/bin/sh
# tools/rebase_seeds.sh <seed-id>...  — for seeds whose patch no longer applies to the current /repo (a later fix touched
# the same lines): re-apply with fuzz in a scratch worktree, regenerate patch.diff from the result, and confirm again
# (suite unchanged with the patch, demo fails with it and passes without). The old patch is kept as patch.orig.diff.
wt=/tmp/mut/rebase
git -C /repo worktree remove --force $wt 2>/dev/null
git -C /repo worktree add -q --detach $wt HEAD || exit 2
cp /repo/Cargo.lock $wt/ 2>/dev/null
for sid in "$@"; do
  d=/verif/seeded/$sid
  cd $wt && git checkout -q -- . && git clean -fdq tests/ src/ 2>/dev/null
  if git apply --check "$d/patch.diff" 2>/dev/null; then echo "$sid applies-already"; continue; fi
  if ! patch -p1 -s -F 3 --no-backup-if-mismatch < "$d/patch.diff" >/tmp/mut/rebase.$sid.log 2>&1; then
    find . -name '*.rej' -delete; find . -name '*.orig' -delete
    echo "$sid REBASE-FAILED (rejects)"; git checkout -q -- .; continue
  fi
  find . -name '*.orig' -delete
  git diff > /tmp/mut/rebase.$sid.diff
  git checkout -q -- .
  cp "$d/patch.diff" "$d/patch.orig.diff.tmp"
  cp /tmp/mut/rebase.$sid.diff "$d/patch.diff"
  feat=""
  case "$sid" in C11-*) feat="--features dates";; esac
  conf=$(CONFIRM_FEATURES="$feat" /verif/tools/confirm_seed.sh $wt "$d" 2>&1 | tail -1)
  ok=$(python3 - "$conf" <<'PY'
import json,sys
try:
    c=json.loads(sys.argv[1])
    print("yes" if ("FAILED" in c.get("mut_demo","") and "ok." in c.get("clean_demo","") and "98 passed; 1 failed" in c.get("suite_with_patch","")) else "no")
except Exception:
    print("no")
PY
)
  if [ "$ok" = yes ]; then
    mv "$d/patch.orig.diff.tmp" "$d/patch.orig.diff"
    python3 - "$d" "$conf" <<'PY'
import json,sys,subprocess
d,conf=sys.argv[1],sys.argv[2]
m=json.load(open(d+'/meta.json'))
head=subprocess.run(['git','-C','/repo','rev-parse','--short','HEAD'],capture_output=True,text=True).stdout.strip()
m['rebased']={'onto':head,'confirm':json.loads(conf),'note':'patch.diff regenerated with fuzz after a later fix touched the same lines; the original is patch.orig.diff'}
json.dump(m,open(d+'/meta.json','w'),indent=1)
PY
    echo "$sid REBASED"
  else
    mv "$d/patch.orig.diff.tmp" "$d/patch.diff"
    echo "$sid REBASE-NOT-CONFIRMED $conf" | cut -c1-400
  fi
done
cd / && git -C /repo worktree remove --force $wt
