#!/usr/bin/env python3
"""tools/extract_tables.py <repo> <outdir>   — the translator of DESIGN.md §3.1.

Reads *constant tables* out of the Rust source of calamine and writes them as Lean definitions into
<outdir> (= lean/CalVerif/Gen).  It runs on every `./check` / `setup.sh`, so theorems about the tables are
re-proved against what the code says now.

Structure: one function per table family (`gen_<name>(repo) -> (file name, lean text)`), registered in
`TABLES`; each writes ONE output file.  A table whose source is not of the literal shape the function
understands raises `Unreadable(table name, reason)`: the script prints `translator cannot read table <name>:
<reason>` and exits non-zero (after having tried every other table).  Output files are rewritten only
when their content changes (so lake does not rebuild needlessly).
"""
import os
import re
import sys


class Unreadable(Exception):
    def __init__(self, table, reason):
        super().__init__(f"translator cannot read table {table}: {reason}")
        self.table = table


# ----------------------------------------------------------------------------------------------
# shared helpers: comment stripping, item extraction, `match` arm tokenizer
# ----------------------------------------------------------------------------------------------

def strip_comments(src):
    """Remove // line comments and /* */ block comments (nested), leaving string/char/byte-string
    literals intact.  Newlines are kept."""
    out = []
    i, n = 0, len(src)
    while i < n:
        c = src[i]
        if src.startswith("//", i):
            while i < n and src[i] != "\n":
                i += 1
        elif src.startswith("/*", i):
            depth = 1
            i += 2
            while i < n and depth:
                if src.startswith("/*", i):
                    depth += 1
                    i += 2
                elif src.startswith("*/", i):
                    depth -= 1
                    i += 2
                else:
                    if src[i] == "\n":
                        out.append("\n")
                    i += 1
        elif c == '"':
            j = i + 1
            while j < n and src[j] != '"':
                j += 2 if src[j] == "\\" else 1
            out.append(src[i:j + 1])
            i = j + 1
        elif c == "'":
            # char literal ('x', '\n', '\'', '\u{..}') or a lifetime ('a)
            m = re.match(r"'(\\u\{[0-9a-fA-F]+\}|\\x[0-9a-fA-F]{2}|\\.|[^\\'])'", src[i:])
            if m:
                out.append(m.group(0))
                i += len(m.group(0))
            else:
                out.append(c)
                i += 1
        else:
            out.append(c)
            i += 1
    return "".join(out)


def read_source(repo, rel):
    p = os.path.join(repo, rel)
    with open(p, encoding="utf-8") as f:
        return strip_comments(f.read())


def balanced(src, start, open_ch="{", close_ch="}"):
    """src[start] == open_ch; returns the index just after the matching close (string-aware)."""
    assert src[start] == open_ch
    depth, i, n = 0, start, len(src)
    while i < n:
        c = src[i]
        if c == '"':
            i += 1
            while i < n and src[i] != '"':
                i += 2 if src[i] == "\\" else 1
        elif c == "'":
            m = re.match(r"'(\\u\{[0-9a-fA-F]+\}|\\x[0-9a-fA-F]{2}|\\.|[^\\'])'", src[i:])
            if m:
                i += len(m.group(0)) - 1
        elif c == open_ch:
            depth += 1
        elif c == close_ch:
            depth -= 1
            if depth == 0:
                return i + 1
        i += 1
    raise ValueError("unbalanced")


def fn_body(table, src, name):
    m = re.search(r"\bfn\s+" + re.escape(name) + r"\s*\(", src)
    if not m:
        raise Unreadable(table, f"function `{name}` not found")
    b = src.find("{", m.end())
    if b < 0:
        raise Unreadable(table, f"function `{name}` has no body")
    try:
        e = balanced(src, b)
    except ValueError:
        raise Unreadable(table, f"unbalanced braces in `{name}`")
    return src[m.start():b], src[b + 1:e - 1]


def single_match(table, body, scrutinee):
    """The function body must be exactly `match <scrutinee> { arms }`; returns the arms text."""
    m = re.fullmatch(r"\s*match\s+(\w+)\s*\{(.*)\}\s*", body, flags=re.S)
    if not m:
        raise Unreadable(table, "function body is not a single `match` expression")
    if m.group(1) != scrutinee:
        raise Unreadable(table, f"match scrutinee is `{m.group(1)}`, expected `{scrutinee}`")
    return m.group(2)


def split_arms(table, arms):
    """`pat | pat => Expr, …` with simple (brace-free) expressions → list of (pattern text, expr text)."""
    out = []
    for piece in split_top(arms, ","):
        if not piece.strip():
            continue
        if "=>" not in piece:
            raise Unreadable(table, f"arm without `=>`: {piece.strip()[:60]!r}")
        pat, expr = piece.split("=>", 1)
        if re.search(r"\bif\b", pat):
            raise Unreadable(table, f"arm with a guard: {pat.strip()[:60]!r}")
        out.append((pat.strip(), expr.strip()))
    return out


def split_top(text, sep):
    """split on `sep` outside of string / byte-string / char literals and brackets"""
    parts, cur, i, n, depth = [], [], 0, len(text), 0
    while i < n:
        c = text[i]
        if c == '"':
            j = i + 1
            while j < n and text[j] != '"':
                j += 2 if text[j] == "\\" else 1
            cur.append(text[i:j + 1])
            i = j + 1
            continue
        if c == "'":
            m = re.match(r"'(\\u\{[0-9a-fA-F]+\}|\\x[0-9a-fA-F]{2}|\\.|[^\\'])'", text[i:])
            if m:
                cur.append(m.group(0))
                i += len(m.group(0))
                continue
        if c in "([{":
            depth += 1
        elif c in ")]}":
            depth -= 1
        if c == sep and depth == 0:
            parts.append("".join(cur))
            cur = []
        else:
            cur.append(c)
        i += 1
    parts.append("".join(cur))
    return parts


def int_literal(table, s):
    s = s.strip().replace("_", "")
    m = re.fullmatch(r"(0x[0-9a-fA-F]+|0b[01]+|0o[0-7]+|[0-9]+)(u8|u16|u32|u64|usize|i32|i64)?", s)
    if not m:
        raise Unreadable(table, f"not an integer literal: {s[:40]!r}")
    return int(m.group(1), 0)


def byte_string_literal(table, s):
    s = s.strip()
    m = re.fullmatch(r'b"((?:[^"\\]|\\.)*)"', s, flags=re.S)
    if not m:
        raise Unreadable(table, f"not a byte-string literal: {s[:40]!r}")
    body, out, i = m.group(1), [], 0
    simple = {"n": 10, "r": 13, "t": 9, "\\": 92, "0": 0, '"': 34, "'": 39}
    while i < len(body):
        c = body[i]
        if c == "\\":
            e = body[i + 1]
            if e == "x":
                out.append(int(body[i + 2:i + 4], 16))
                i += 4
            elif e in simple:
                out.append(simple[e])
                i += 2
            else:
                raise Unreadable(table, f"unsupported escape in byte string {s!r}")
        else:
            if ord(c) > 127:
                raise Unreadable(table, f"non-ASCII character in byte string {s!r}")
            out.append(ord(c))
            i += 1
    return bytes(out)


def write_if_changed(path, text):
    try:
        with open(path, encoding="utf-8") as f:
            if f.read() == text:
                return False
    except FileNotFoundError:
        pass
    tmp = path + ".tmp%d" % os.getpid()
    with open(tmp, "w", encoding="utf-8") as f:
        f.write(text)
    os.replace(tmp, path)
    return True


HEADER = ("/-! GENERATED by tools/extract_tables.py from {src} — do not edit.\n"
          "    Regenerated (and compared) on every ./check and setup.sh run; committed so that a fresh checkout builds. -/\n")

# ----------------------------------------------------------------------------------------------
# table: built-in number-format ids (src/formats.rs)  →  Gen/FormatTables.lean
# ----------------------------------------------------------------------------------------------

CELLFORMAT_CTORS = {"Other": ".other", "DateTime": ".dateTime", "TimeDelta": ".timeDelta"}


def cellformat_expr(table, expr):
    m = re.fullmatch(r"CellFormat::(\w+)", expr.strip())
    if not m or m.group(1) not in CELLFORMAT_CTORS:
        raise Unreadable(table, f"arm result is not a CellFormat variant: {expr.strip()[:60]!r}")
    return CELLFORMAT_CTORS[m.group(1)]


def gen_format_tables(repo):
    rel = "src/formats.rs"
    src = read_source(repo, rel)

    # the enum itself: the Lean mirror (Model/CellFormat.lean) has exactly these three constructors
    t = "formats::CellFormat"
    m = re.search(r"\benum\s+CellFormat\s*\{([^}]*)\}", src)
    if not m:
        raise Unreadable(t, "enum CellFormat not found")
    variants = [v.strip() for v in m.group(1).split(",") if v.strip()]
    if variants != ["Other", "DateTime", "TimeDelta"]:
        raise Unreadable(t, f"variants are {variants}, the Lean mirror expects [Other, DateTime, TimeDelta]")

    # builtin_format_by_code(code: u16): arms of integer literals / inclusive ranges
    t = "formats::builtin_format_by_code"
    sig, body = fn_body(t, src, "builtin_format_by_code")
    if not re.search(r"\(\s*code\s*:\s*u16\s*\)\s*->\s*CellFormat", sig):
        raise Unreadable(t, f"unexpected signature {sig.strip()!r}")
    code_rows, code_default = [], None
    for pat, expr in split_arms(t, single_match(t, body, "code")):
        ctor = cellformat_expr(t, expr)
        if code_default is not None:
            raise Unreadable(t, "arm after the wildcard arm")
        if pat == "_":
            code_default = ctor
            continue
        for alt in split_top(pat, "|"):
            alt = alt.strip()
            if "..=" in alt:
                lo, hi = alt.split("..=", 1)
                lo, hi = int_literal(t, lo), int_literal(t, hi)
            elif ".." in alt:
                raise Unreadable(t, f"half-open range pattern {alt!r}")
            else:
                lo = hi = int_literal(t, alt)
            if not (0 <= lo <= hi <= 0xFFFF):
                raise Unreadable(t, f"range {alt!r} is empty or outside u16")
            code_rows.append((lo, hi, ctor))
    if code_default is None:
        raise Unreadable(t, "no wildcard arm")

    # builtin_format_by_id(id: &[u8]): arms of byte-string literals
    t = "formats::builtin_format_by_id"
    sig, body = fn_body(t, src, "builtin_format_by_id")
    if not re.search(r"\(\s*id\s*:\s*&\s*\[\s*u8\s*\]\s*\)\s*->\s*CellFormat", sig):
        raise Unreadable(t, f"unexpected signature {sig.strip()!r}")
    id_rows, id_default = [], None
    for pat, expr in split_arms(t, single_match(t, body, "id")):
        ctor = cellformat_expr(t, expr)
        if id_default is not None:
            raise Unreadable(t, "arm after the wildcard arm")
        if pat == "_":
            id_default = ctor
            continue
        for alt in split_top(pat, "|"):
            id_rows.append((byte_string_literal(t, alt), ctor))
    if id_default is None:
        raise Unreadable(t, "no wildcard arm")

    L = ["import CalVerif.Model.CellFormat", HEADER.format(src=rel), "namespace Gen\n"]
    L.append("/-- `builtin_format_by_code`: arms in source order as inclusive ranges `(lo, hi, result)`; first match wins -/")
    L.append("def builtinByCodeTable : List (Nat × Nat × CellFormat) :=\n  [" +
             ",\n   ".join(f"({lo}, {hi}, {c})" for lo, hi, c in code_rows) + "]\n")
    L.append("/-- result of the wildcard arm of `builtin_format_by_code` -/")
    L.append(f"def builtinByCodeDefault : CellFormat := {code_default}\n")
    L.append("/-- `builtin_format_by_id`: arms in source order, each byte-string literal as its bytes; first match wins -/")
    def id_row(bs, c):
        shown = "".join(chr(b) if 32 <= b < 127 and chr(b) not in '"\\-/' else "\\x%02x" % b for b in bs)
        return f'(/- b"{shown}" -/ [' + ", ".join(str(b) for b in bs) + f"], {c})"
    L.append("def builtinByIdTable : List (List UInt8 × CellFormat) :=\n  [" +
             ",\n   ".join(id_row(bs, c) for bs, c in id_rows) + "]\n")
    L.append("/-- result of the wildcard arm of `builtin_format_by_id` -/")
    L.append(f"def builtinByIdDefault : CellFormat := {id_default}\n")
    L.append("end Gen\n")
    return "FormatTables.lean", "\n".join(L)


# ----------------------------------------------------------------------------------------------
# table: formula function names and arities (src/utils.rs FTAB / FTAB_ARGC / FTAB_LEN)  →  Gen/Ftab.lean  (C14)
# ----------------------------------------------------------------------------------------------

def str_literal(table, s):
    s = s.strip()
    m = re.fullmatch(r'"((?:[^"\\]|\\.)*)"', s, flags=re.S)
    if not m:
        raise Unreadable(table, f"not a string literal: {s[:40]!r}")
    body = m.group(1)
    if "\\" in body:
        raise Unreadable(table, f"escape sequence in string literal {s!r}")
    if any(ord(c) < 32 or ord(c) > 126 for c in body):
        raise Unreadable(table, f"non-printable or non-ASCII character in string literal {s!r}")
    return body


def const_array(table, src, name, elem_ty):
    """`pub const NAME: [elem_ty; FTAB_LEN] = [ … ];` → list of element texts (comments already stripped)"""
    m = re.search(r"\bconst\s+" + re.escape(name) + r"\s*:\s*\[\s*" + re.escape(elem_ty) + r"\s*;\s*(\w+)\s*\]\s*=\s*\[", src)
    if not m:
        raise Unreadable(table, f"`const {name}: [{elem_ty}; …] = [` not found")
    b = m.end() - 1
    try:
        e = balanced(src, b, "[", "]")
    except ValueError:
        raise Unreadable(table, "unbalanced brackets")
    if not re.match(r"\s*;", src[e:]):
        raise Unreadable(table, "array literal is not followed by `;`")
    items = [x for x in split_top(src[b + 1:e - 1], ",")]
    if items and not items[-1].strip():
        items.pop()  # trailing comma
    if any(not x.strip() for x in items):
        raise Unreadable(table, "empty array element")
    return m.group(1), items


def gen_ftab(repo):
    rel = "src/utils.rs"
    src = read_source(repo, rel)  # comments stripped: FTAB contains a commented-out entry
    t = "utils::FTAB_LEN"
    m = re.search(r"\bconst\s+FTAB_LEN\s*:\s*usize\s*=\s*([^;]+);", src)
    if not m:
        raise Unreadable(t, "`const FTAB_LEN: usize = …;` not found")
    ftab_len = int_literal(t, m.group(1))
    t = "utils::FTAB"
    len_name, items = const_array(t, src, "FTAB", "&str")
    if len_name != "FTAB_LEN":
        raise Unreadable(t, f"declared length is `{len_name}`, expected FTAB_LEN")
    names = [str_literal(t, x) for x in items]
    t = "utils::FTAB_ARGC"
    len_name, items = const_array(t, src, "FTAB_ARGC", "u8")
    if len_name != "FTAB_LEN":
        raise Unreadable(t, f"declared length is `{len_name}`, expected FTAB_LEN")
    argc = [int_literal(t, x) for x in items]
    if any(a > 255 for a in argc):
        raise Unreadable(t, "element outside u8")

    def chunks(xs, n):
        return [xs[i:i + n] for i in range(0, len(xs), n)]

    L = [HEADER.format(src=rel), "namespace Gen\n"]
    L.append("/-- `FTAB_LEN` as written in the source -/")
    L.append(f"def ftabLen : Nat := {ftab_len}\n")
    L.append("/-- `FTAB`: function names by `iftab`, in source order (comments stripped) -/")
    L.append("def ftab : Array String := #[\n  " +
             ",\n  ".join(", ".join('"%s"' % s for s in c) for c in chunks(names, 8)) + "]\n")
    L.append("/-- `FTAB_ARGC`: argument counts by `iftab`, in source order -/")
    L.append("def ftabArgc : Array Nat := #[\n  " +
             ",\n  ".join(", ".join(str(a) for a in c) for c in chunks(argc, 20)) + "]\n")
    L.append("end Gen\n")
    return "Ftab.lean", "\n".join(L)


# ----------------------------------------------------------------------------------------------
# table: sheet visibility / sheet kind codes of the four readers  →  Gen/SheetCodes.lean  (C16)
#   src/lib.rs          enum SheetType, enum SheetVisible (variant lists must equal the Lean mirrors)
#   src/xls.rs          parse_sheet_metadata: `match r.data[4] & MASK {…}` (hsState), `match r.data[5] {…}` (dt)
#   src/xlsb/mod.rs     read_workbook: `match read_u32(&buf) {…}` (hsState), `match path.split('/').nth(1) {…}`
#   src/xlsx/mod.rs     read_workbook: `match ….as_ref() {…}` on the `state` attribute, `match path.split('/').nth(1) {…}`
# Every table is a `match` whose arms are `literal => Enum::Variant` followed by exactly one catch-all arm
# that returns an error.
# ----------------------------------------------------------------------------------------------

SHEET_TYPE_VARIANTS = ["WorkSheet", "DialogSheet", "MacroSheet", "ChartSheet", "Vba"]
SHEET_VISIBLE_VARIANTS = ["Visible", "Hidden", "VeryHidden"]


def lean_ctor(variant):
    return "." + variant[0].lower() + variant[1:]


def enum_variants(table, src, name):
    m = re.search(r"\benum\s+" + name + r"\s*\{([^}]*)\}", src)
    if not m:
        raise Unreadable(table, f"enum {name} not found")
    out = []
    for v in m.group(1).split(","):
        v = re.sub(r"#\[[^\]]*\]", "", v).strip()
        if v:
            if not re.fullmatch(r"\w+", v):
                raise Unreadable(table, f"variant with payload or discriminant: {v[:40]!r}")
            out.append(v)
    return out


def inner_match(table, body, scrutinee_re):
    """the unique `match <scrutinee> { arms }` inside `body` whose scrutinee matches the regex → arms text"""
    hits = [m for m in re.finditer(r"\bmatch\s+(" + scrutinee_re + r")\s*\{", body, flags=re.S)]
    if len(hits) != 1:
        raise Unreadable(table, f"expected exactly one `match {scrutinee_re}`, found {len(hits)}")
    m = hits[0]
    b = m.end() - 1
    try:
        e = balanced(body, b)
    except ValueError:
        raise Unreadable(table, "unbalanced braces")
    return m, body[b + 1:e - 1]


def code_table(table, arms, enum, variants, pattern):
    """arms `lit => Enum::V, …, catch_all => { return Err(..) }` → [(literal, variant)].
    `pattern(text)` turns one alternative into the literal (or raises)."""
    rows, closed = [], False
    for pat, expr in split_arms(table, arms):
        if closed:
            raise Unreadable(table, "arm after the catch-all arm")
        if re.fullmatch(r"_|[a-z]\w*", pat):
            if not re.search(r"\breturn\s+Err\s*\(", expr):
                raise Unreadable(table, f"catch-all arm does not return an error: {expr[:60]!r}")
            closed = True
            continue
        m = re.fullmatch(enum + r"::(\w+)", expr)
        if not m or m.group(1) not in variants:
            raise Unreadable(table, f"arm result is not a {enum} variant: {expr[:60]!r}")
        for alt in split_top(pat, "|"):
            rows.append((pattern(alt.strip()), m.group(1)))
    if not closed:
        raise Unreadable(table, "no catch-all arm")
    keys = [k for k, _ in rows]
    if len(set(keys)) != len(keys):
        raise Unreadable(table, "a literal occurs in two arms")
    return rows


def gen_sheet_codes(repo):
    lib = read_source(repo, "src/lib.rs")
    t = "lib::SheetType"
    if enum_variants(t, lib, "SheetType") != SHEET_TYPE_VARIANTS:
        raise Unreadable(t, f"variants are {enum_variants(t, lib, 'SheetType')}, the Lean mirror expects {SHEET_TYPE_VARIANTS}")
    t = "lib::SheetVisible"
    if enum_variants(t, lib, "SheetVisible") != SHEET_VISIBLE_VARIANTS:
        raise Unreadable(t, f"variants are {enum_variants(t, lib, 'SheetVisible')}, the Lean mirror expects {SHEET_VISIBLE_VARIANTS}")

    def u8_lit(t):
        def f(s):
            v = int_literal(t, s)
            if v > 255:
                raise Unreadable(t, f"literal {s!r} outside u8")
            return v
        return f

    def u32_lit(t):
        return lambda s: int_literal(t, s)

    def str_lit(t):
        return lambda s: str_literal(t, s)

    def some_str_lit(t):
        def f(s):
            m = re.fullmatch(r"Some\s*\(\s*(\"[^\"]*\")\s*\)", s)
            if not m:
                raise Unreadable(t, f"pattern is not Some(\"…\"): {s[:40]!r}")
            return str_literal(t, m.group(1))
        return f

    # xls
    xls = read_source(repo, "src/xls.rs")
    t = "xls::parse_sheet_metadata(hsState)"
    _, body = fn_body(t, xls, "parse_sheet_metadata")
    m, arms = inner_match(t, body, r"r\s*\.\s*data\s*\[\s*4\s*\]\s*&\s*[0-9a-fA-Fxbo_]+")
    xls_mask = int_literal(t, m.group(1).split("&")[1])
    xls_vis = code_table(t, arms, "SheetVisible", SHEET_VISIBLE_VARIANTS, u8_lit(t))
    t = "xls::parse_sheet_metadata(dt)"
    _, arms = inner_match(t, body, r"r\s*\.\s*data\s*\[\s*5\s*\]")
    xls_kind = code_table(t, arms, "SheetType", SHEET_TYPE_VARIANTS, u8_lit(t))

    # xlsb
    xlsb = read_source(repo, "src/xlsb/mod.rs")
    t = "xlsb::read_workbook(hsState)"
    _, body = fn_body(t, xlsb, "read_workbook")
    _, arms = inner_match(t, body, r"read_u32\s*\(\s*&\s*buf\s*\)")
    xlsb_vis = code_table(t, arms, "SheetVisible", SHEET_VISIBLE_VARIANTS, u32_lit(t))
    t = "xlsb::read_workbook(path segment)"
    _, arms = inner_match(t, body, r"path\s*\.\s*split\s*\(\s*'/'\s*\)\s*\.\s*nth\s*\(\s*1\s*\)")
    xlsb_kind = code_table(t, arms, "SheetType", SHEET_TYPE_VARIANTS, some_str_lit(t))

    # xlsx
    xlsx = read_source(repo, "src/xlsx/mod.rs")
    t = "xlsx::read_workbook(state)"
    _, body = fn_body(t, xlsx, "read_workbook")
    hits = [mm for mm in re.finditer(r"QName\s*\(\s*b\"state\"\s*\)", body)]
    if len(hits) != 1:
        raise Unreadable(t, f"expected one `QName(b\"state\")` attribute arm, found {len(hits)}")
    after = body[hits[0].end():]
    mm = re.search(r"\bmatch\s+a\s*\.\s*decode_and_unescape_value\s*\([^)]*\(\s*\)\s*\)\s*\?\s*\.\s*as_ref\s*\(\s*\)\s*\{", after)
    if not mm:
        raise Unreadable(t, "`match a.decode_and_unescape_value(..)?.as_ref() {` not found after the state attribute arm")
    b = mm.end() - 1
    arms = after[b + 1:balanced(after, b) - 1]
    xlsx_vis = code_table(t, arms, "SheetVisible", SHEET_VISIBLE_VARIANTS, str_lit(t))
    t = "xlsx::read_workbook(path segment)"
    _, arms = inner_match(t, body, r"path\s*\.\s*split\s*\(\s*'/'\s*\)\s*\.\s*nth\s*\(\s*1\s*\)")
    xlsx_kind = code_table(t, arms, "SheetType", SHEET_TYPE_VARIANTS, some_str_lit(t))

    def nat_tbl(rows):
        return "[" + ", ".join(f"({k}, {lean_ctor(v)})" for k, v in rows) + "]"

    def str_tbl(rows):
        return "[" + ", ".join(f"(\"{k}\", {lean_ctor(v)})" for k, v in rows) + "]"

    L = ["import CalVerif.Model.SheetTypes",
         HEADER.format(src="src/lib.rs, src/xls.rs, src/xlsb/mod.rs, src/xlsx/mod.rs"), "namespace Gen\n"]
    L.append("/-- xls `parse_sheet_metadata`: the mask in `match r.data[4] & MASK` -/")
    L.append(f"def xlsVisMask : Nat := {xls_mask}\n")
    L.append("/-- xls BoundSheet8 hsState arms (any other value: `Unrecognized` error) -/")
    L.append(f"def xlsVisTable : List (Nat × SheetVisible) := {nat_tbl(xls_vis)}\n")
    L.append("/-- xls BoundSheet8 dt arms (any other value: `Unrecognized` error) -/")
    L.append(f"def xlsKindTable : List (Nat × SheetType) := {nat_tbl(xls_kind)}\n")
    L.append("/-- xlsb BrtBundleSh hsState arms -/")
    L.append(f"def xlsbVisTable : List (Nat × SheetVisible) := {nat_tbl(xlsb_vis)}\n")
    L.append("/-- xlsb: second segment of the sheet part path → sheet kind -/")
    L.append(f"def xlsbKindTable : List (String × SheetType) := {str_tbl(xlsb_kind)}\n")
    L.append("/-- xlsx `<sheet state=\"…\">` arms -/")
    L.append(f"def xlsxVisTable : List (String × SheetVisible) := {str_tbl(xlsx_vis)}\n")
    L.append("/-- xlsx: second segment of the sheet part path → sheet kind -/")
    L.append(f"def xlsxKindTable : List (String × SheetType) := {str_tbl(xlsx_kind)}\n")
    L.append("end Gen\n")
    return "SheetCodes.lean", "\n".join(L)


# ----------------------------------------------------------------------------------------------
# table: xlsx cell-error literals (src/xlsx/mod.rs `impl FromStr for CellErrorType`)  →  Gen/XlsxErrors.lean   (C01)
# ----------------------------------------------------------------------------------------------

CELL_ERROR_VARIANTS = ["Div0", "NA", "Name", "Null", "Num", "Ref", "Value", "GettingData"]


def gen_xlsx_errors(repo):
    t = "lib::CellErrorType"
    lib = read_source(repo, "src/lib.rs")
    if enum_variants(t, lib, "CellErrorType") != CELL_ERROR_VARIANTS:
        raise Unreadable(t, f"variants are {enum_variants(t, lib, 'CellErrorType')}, the Lean mirror expects {CELL_ERROR_VARIANTS}")
    t = "xlsx::CellErrorType::from_str"
    src = read_source(repo, "src/xlsx/mod.rs")
    hits = [m for m in re.finditer(r"\bimpl\s+FromStr\s+for\s+CellErrorType\s*\{", src)]
    if len(hits) != 1:
        raise Unreadable(t, f"expected one `impl FromStr for CellErrorType`, found {len(hits)}")
    b = hits[0].end() - 1
    impl = src[b + 1:balanced(src, b) - 1]
    _, body = fn_body(t, impl, "from_str")
    arms = single_match(t, body, "s")
    rows, closed = [], False
    for pat, expr in split_arms(t, arms):
        if closed:
            raise Unreadable(t, "arm after the catch-all arm")
        if pat == "_":
            if not re.match(r"Err\s*\(", expr):
                raise Unreadable(t, f"catch-all arm is not an error: {expr[:60]!r}")
            closed = True
            continue
        m = re.fullmatch(r"Ok\s*\(\s*CellErrorType::(\w+)\s*\)", expr)
        if not m or m.group(1) not in CELL_ERROR_VARIANTS:
            raise Unreadable(t, f"arm result is not Ok(CellErrorType::V): {expr[:60]!r}")
        for alt in split_top(pat, "|"):
            lit = re.fullmatch(r'"((?:[^"\\]|\\.)*)"', alt.strip())
            if not lit or "\\" in lit.group(1) or any(ord(c) > 126 or ord(c) < 32 for c in lit.group(1)):
                raise Unreadable(t, f"pattern is not a plain ASCII string literal: {alt.strip()[:40]!r}")
            rows.append((lit.group(1), m.group(1)))
    if not closed:
        raise Unreadable(t, "no catch-all arm")
    if len({k for k, _ in rows}) != len(rows):
        raise Unreadable(t, "a literal occurs in two arms")
    L = ["import CalVerif.Model.CellError",
         HEADER.format(src="src/lib.rs (enum CellErrorType), src/xlsx/mod.rs (impl FromStr for CellErrorType)"), "namespace Gen\n"]
    L.append("/-- the arms of `CellErrorType::from_str` in source order: (ASCII codes of the literal, variant);\n"
             "    every other string is `Err(XlsxError::CellError)` -/")
    L.append("def xlsxErrorFromStr : List (List Nat × CellErrorType) :=\n  [" +
             ",\n   ".join(f"({list(k.encode())}, {lean_ctor(v)})   -- \"{k}\"" if False else f"({list(k.encode())}, {lean_ctor(v)})" for k, v in rows) + "]\n")
    L.append("end Gen\n")
    return "XlsxErrors.lean", "\n".join(L)


def gen_berr_tables(repo):
    """BErr code → CellErrorType: the BrtCellError / BrtFmlaError arm of xlsb `next_cell` and xls `parse_err` (C03)"""
    lib = read_source(repo, "src/lib.rs")
    t = "lib::CellErrorType"
    if enum_variants(t, lib, "CellErrorType") != CELL_ERROR_VARIANTS:
        raise Unreadable(t, f"variants are {enum_variants(t, lib, 'CellErrorType')}, the Lean mirror expects {CELL_ERROR_VARIANTS}")

    def u8_lit(t):
        def f(s):
            v = int_literal(t, s)
            if v > 255:
                raise Unreadable(t, f"literal {s!r} outside u8")
            return v
        return f

    t = "xlsb::cells_reader::next_cell(BErr)"
    src = read_source(repo, "src/xlsb/cells_reader.rs")
    _, body = fn_body(t, src, "next_cell")
    _, arms = inner_match(t, body, r"self\s*\.\s*buf\s*\[\s*8\s*\]")
    xlsb_rows = code_table(t, arms, "CellErrorType", CELL_ERROR_VARIANTS, u8_lit(t))

    t = "xls::parse_err"
    xls = read_source(repo, "src/xls.rs")
    _, body = fn_body(t, xls, "parse_err")
    arms = single_match(t, body, "e")
    xls_rows, closed = [], False
    for pat, expr in split_arms(t, arms):
        if closed:
            raise Unreadable(t, "arm after the catch-all arm")
        if re.fullmatch(r"_|[a-z]\w*", pat):
            if not re.match(r"Err\s*\(", expr):
                raise Unreadable(t, f"catch-all arm is not an error: {expr[:60]!r}")
            closed = True
            continue
        m = re.fullmatch(r"Ok\s*\(\s*Data::Error\s*\(\s*CellErrorType::(\w+)\s*\)\s*\)", expr)
        if not m or m.group(1) not in CELL_ERROR_VARIANTS:
            raise Unreadable(t, f"arm result is not Ok(Data::Error(CellErrorType::V)): {expr[:60]!r}")
        for alt in split_top(pat, "|"):
            xls_rows.append((u8_lit(t)(alt.strip()), m.group(1)))
    if not closed:
        raise Unreadable(t, "no catch-all arm")
    if len({k for k, _ in xls_rows}) != len(xls_rows):
        raise Unreadable(t, "a literal occurs in two arms")

    def tbl(rows):
        return "[" + ", ".join(f"({k}, {lean_ctor(v)})" for k, v in rows) + "]"
    L = ["import CalVerif.Model.CellError",
         HEADER.format(src="src/lib.rs (enum CellErrorType), src/xlsb/cells_reader.rs (next_cell, `match self.buf[8]`), src/xls.rs (parse_err)"),
         "namespace Gen\n",
         "/-- the arms of `match self.buf[8]` in the BrtCellError | BrtFmlaError arm of xlsb `next_cell`, in source order;\n"
         "    every other byte is `Err(XlsbError::CellError)` -/",
         f"def xlsbErrTable : List (Nat × CellErrorType) :=\n  {tbl(xlsb_rows)}\n",
         "/-- the arms of xls `parse_err`, in source order; every other byte is `Err(XlsError::Unrecognized)` -/",
         f"def xlsErrTable : List (Nat × CellErrorType) :=\n  {tbl(xls_rows)}\n",
         "end Gen\n"]
    return "BErrTables.lean", "\n".join(L)


# ----------------------------------------------------------------------------------------------

TABLES = [
    gen_format_tables,
    gen_ftab,
    gen_sheet_codes,
    gen_xlsx_errors,
    gen_berr_tables,
    # other workers: add `gen_<table>(repo) -> (file name, lean text)` above and register it here
]


# the file each extractor writes (named in the failure line, so that ./check can tell which properties depend on an
# unreadable table and tie that table to the code behaviourally instead: tabprobe, DESIGN.md 3.1)
GEN_FILE = {"gen_format_tables": "FormatTables.lean", "gen_ftab": "Ftab.lean", "gen_sheet_codes": "SheetCodes.lean",
            "gen_xlsx_errors": "XlsxErrors.lean", "gen_berr_tables": "BErrTables.lean"}


def main():
    if len(sys.argv) != 3:
        print(__doc__)
        return 2
    repo, outdir = sys.argv[1], sys.argv[2]
    os.makedirs(outdir, exist_ok=True)
    failed = False
    for gen in TABLES:
        try:
            name, text = gen(repo)
        except Unreadable as e:
            print(str(e))
            print("UNREADABLE-FILE", GEN_FILE.get(gen.__name__, gen.__name__))
            failed = True
            continue
        except Exception as e:  # a crash of one extractor must name it
            print(f"translator cannot read table {gen.__name__}: internal error {type(e).__name__}: {e}")
            print("UNREADABLE-FILE", GEN_FILE.get(gen.__name__, gen.__name__))
            failed = True
            continue
        changed = write_if_changed(os.path.join(outdir, name), text)
        print(f"{name}: {'written' if changed else 'unchanged'}")
    return 1 if failed else 0


if __name__ == "__main__":
    sys.exit(main())
