#!/usr/bin/env python3
"""tools/keep_batch.py <Cxx> <tag> <first-index> [round]  — keep every confirmed seed of /tmp/mut/<tag>.summary as
/verif/seeded/<Cxx>-m<k>/ (k counting from first-index), with the check's verdict."""
import json, re, subprocess, sys
prop, tag, k = sys.argv[1], sys.argv[2], int(sys.argv[3])
rnd = sys.argv[4] if len(sys.argv) > 4 else "2"
for line in open(f"/tmp/mut/{tag}.summary"):
    m = re.match(r"(m\d+) \| CONFIRM (\{.*\}) \| CHECK (.*)$", line.strip())
    if not m:
        continue
    name, conf, chk = m.groups()
    c = json.loads(conf)
    ok = ("FAILED" in c.get("mut_demo", "")) and ("ok." in c.get("clean_demo", "")) and "98 passed; 1 failed" in c.get("suite_with_patch", "")
    if not ok:
        print("NOT CONFIRMED", name, conf[:300]); continue
    if "PATCH-DOES-NOT-APPLY" in chk or "mutcheck rc=3" in chk:
        print("STALE", name); continue
    det = "yes" if "VIOLATION" in chk else "no"
    vio = re.findall(r"VIOLATION property=\S+ replay=\S+(?: no-failing-input-found)?", chk)
    note = (f"round {rnd}; " + "; ".join(v.replace("/verif/", "") for v in vio[:3])) if vio else f"round {rnd}; not detected by the quick check as it stood: " + chk[:120]
    sid = f"{prop}-m{k}"
    subprocess.run(["python3", "/verif/tools/keep_seed.py", f"/tmp/mut/{tag}_out/{name}", sid, prop, det, note, conf], check=True)
    mp = f"/verif/seeded/{sid}/meta.json"
    mm = json.load(open(mp)); mm["round"] = int(rnd); json.dump(mm, open(mp, "w"), indent=1)
    print(sid, det, name)
    k += 1
