#!/usr/bin/env python3
"""Writes MANIFEST.json from claims/<Cxx>.json (one file per claimed property) and known_findings.json from findings/<Cxx>.json."""
import json, os, subprocess
V = os.path.dirname(os.path.dirname(os.path.abspath(__file__)))
claims = {}
for f in sorted(os.listdir(os.path.join(V, "claims"))):
    if f.endswith(".json"):
        claims[f[:-5]] = json.load(open(os.path.join(V, "claims", f)))
# known_findings.json = the committed merge of findings/<Cxx>.json (never written by a check at run time)
merged = []
for f in sorted(os.listdir(os.path.join(V, "findings"))):
    if f.endswith(".json"):
        merged += json.load(open(os.path.join(V, "findings", f))).get("findings", [])
json.dump({"_comment": "Committed; merged from findings/<Cxx>.json by tools/gen_manifest.py; never written at run time. status=known: a genuine defect recorded rather than repaired (matched by property + regex `sig` against the failure signature; the check prints KNOWN-FINDING and does not fail for it). status=fixed: repaired by a fix: commit in /repo; suppresses nothing - its replay is in the harness corpus and runs first on every check.",
           "findings": merged}, open(os.path.join(V, "known_findings.json"), "w"), indent=1)
props = [json.loads(l) for l in open(os.path.join(V, "properties.jsonl"))]
checks, na = [], []
for p in props:
    pid = p["id"]
    c = claims.get(pid)
    if not c or c.get("not_applicable"):
        na.append({"property_id": pid, "reason": (c or {}).get("not_applicable", "not claimed yet: model/theorems/correspondence for this property are still being built (see DESIGN.md §8 order of work)")})
        continue
    checks.append({
        "property_id": pid,
        "quick_cmd": f"./check {pid} --tier quick",
        "thorough_cmd": f"./check {pid} --tier thorough",
        "evidence_file": f"/verif/evidence/{pid}.json",
        "replay_cmd_template": f"./check {pid} --replay {{path}}",
        "engine": "lean4-proof+correspondence",
        "level_claimed": {"category": "proof", "text": c["text"], "design_ref": c.get("design_ref", f"DESIGN.md §6 {pid}")},
        "level_note": c["note"],
        "technique": c.get("technique", "Lean 4 theorems about a hand-written executable model, tied to the code by differential correspondence (impl vs compiled Lean model vs independent oracle)"),
    })
commits = subprocess.run(["git", "-C", "/repo", "log", "--format=%h %s", "--grep=^verif hooks"], capture_output=True, text=True).stdout.strip().splitlines()
m = {
    "version": 1,
    "setup_cmd": "./setup.sh",
    "hooks": {
        "guard": "cargo feature verif-hooks (default off)",
        "enable": "harness/Cargo.toml depends on calamine { path = \"/repo\", features = [\"dates\", \"verif-hooks\"] }; ./check falls back to --no-default-features (no hooks) if that build fails",
        "baseline_off_cmd": "cd /repo && cargo test --workspace --no-fail-fast --offline",
        "source_commits": [c.split()[0] for c in commits],
        "add_only": True,
    },
    "engines": [{
        "name": "lean4-proof+correspondence",
        "path": "/verif/check",
        "serves_properties": [c["property_id"] for c in checks],
        "kind_free_text": "Lean 4 (core+Std only) models and theorems under /verif/lean; compiled lean_exe drivers run the same definitions; Rust harness under /verif/harness runs the real calamine in-process on the same inputs and an independent property oracle; ./check builds, audits axioms, runs and writes evidence",
    }],
    "checks": checks,
    "not_applicable": na,
    "notes": "Every check is `./check <id>`; see DESIGN.md. known_findings.json lists recorded/fixed defects.",
}
json.dump(m, open(os.path.join(V, "MANIFEST.json"), "w"), indent=1)
print("claimed", len(checks), "not claimed", len(na))
