#!/usr/bin/env python3
"""tools/benign_run.py [--jobs N] [--others K] <tag> [<tag> ...]
False-alarm test. For every property-PRESERVING change /tmp/mut/<tag>_out/b<i>/patch.diff (written by a fresh
sub-agent that was given only the property's text) run, on scratch copies of /repo (tools/mutcheck.sh, scratch tag
`_ben`), the check of the property it was written for plus K other checks whose property is anchored in a file
the patch touches (chosen to balance the load). Any VIOLATION line is an alarm to be looked at by hand: either the
change is not benign after all, or the check demands more than its property. One JSON line per run is appended to
/tmp/mut/benign_results.jsonl; runs already recorded there are skipped."""
import json, os, re, subprocess, sys, glob, concurrent.futures as cf
from collections import defaultdict

args = sys.argv[1:]
jobs, others = 6, 3
for flag in ("--jobs", "--others"):
    if flag in args:
        i = args.index(flag); v = int(args[i + 1]); del args[i:i + 2]
        if flag == "--jobs": jobs = v
        else: others = v
RES = "/tmp/mut/benign_results.jsonl"
done = set()
if os.path.exists(RES):
    for l in open(RES):
        r = json.loads(l); done.add((r["patch"], r["check"]))
anch = defaultdict(list)
for l in open("/verif/properties.jsonl"):
    p = json.loads(l)
    for f in p["anchors"]["files"]:
        anch[f].append(p["id"])
load = defaultdict(int)
groups = defaultdict(list)
for tag in args:
    owner = "C" + tag[1:3]
    for pf in sorted(glob.glob(f"/tmp/mut/{tag}_out/b*/patch.diff")):
        touched = re.findall(r"^\+\+\+ b/(\S+)", open(pf).read(), re.M)
        cand = sorted({p for f in touched for p in anch.get(f, [])} - {owner})
        sel = [owner]
        for _ in range(others):
            cand = [c for c in cand if c not in sel]
            if not cand: break
            c = min(cand, key=lambda x: (load[x], x)); sel.append(c)
        for c in sel:
            load[c] += 1
            if (pf, c) not in done:
                groups[c].append(pf)

def run_group(by, patches):
    for pf in patches:
        r = subprocess.run(["/verif/tools/mutcheck.sh", by, pf], capture_output=True, text=True, cwd="/verif",
                           env=dict(os.environ, MUTREPO_TAG="_ben"))
        txt = r.stdout + r.stderr
        vio = re.findall(r"VIOLATION property=\S+ replay=\S+(?: no-failing-input-found)?", txt)
        if "PATCH-DOES-NOT-APPLY" in txt: verdict = "stale"
        elif vio: verdict = "ALARM"
        elif re.search(r"^OK property", txt, re.M): verdict = "quiet"
        else: verdict = "error"
        rec = {"patch": pf, "check": by, "verdict": verdict, "violations": vio[:5], "tail": txt[-1500:] if verdict != "quiet" else ""}
        if verdict == "ALARM":
            # keep the replay files: the next run of the same check overwrites them
            keep = os.path.dirname(pf) + f"/alarm_{by}"
            os.makedirs(keep, exist_ok=True)
            for v in vio[:5]:
                m = re.search(r"replay=(\S+)", v)
                if m and os.path.exists(m.group(1)) or (m and os.path.exists("/verif/" + m.group(1))):
                    src = m.group(1) if os.path.exists(m.group(1)) else "/verif/" + m.group(1)
                    subprocess.run(["cp", src, keep])
            open(keep + "/output.txt", "w").write(txt[-20000:])
        with open(RES, "a") as f:
            f.write(json.dumps(rec) + "\n")
        print(f"{pf.split('/')[3]}/{pf.split('/')[4]} check={by} {verdict}", flush=True)
    subprocess.run(["rm", "-rf", f"/tmp/mutrepo_{by}_ben"])

with cf.ThreadPoolExecutor(max_workers=jobs) as ex:
    list(ex.map(lambda kv: run_group(*kv), sorted(groups.items())))
print("done")
