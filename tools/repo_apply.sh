#!/bin/sh
# tools/repo_apply.sh <patch-file> "<commit message>"  — atomically apply a patch to /repo and commit it (under a lock).
# The message must start with "fix:" (repair of a genuine defect, unguarded, minimal) or "verif hooks:" (add-only, cfg-guarded).
patch="$(readlink -f "$1")"; msg="$2"
case "$msg" in "fix:"*|"verif hooks:"*) ;; *) echo "message must start with fix: or verif hooks:"; exit 2;; esac
mkdir -p /verif/.locks
exec flock /verif/.locks/repo sh -c '
  cd /repo || exit 1
  if ! git diff --quiet; then echo "/repo has uncommitted changes; refusing"; git status --short | head; exit 1; fi
  git apply --3way "$0" 2>/dev/null || git apply "$0" || { echo "patch does not apply"; git checkout -- . ; exit 1; }
  git commit -q -am "$1" && git log --oneline | head -1' "$patch" "$msg"
