#!/usr/bin/env python3
"""Regenerates the generated tables of DESIGN.md (between the BEGIN/END GENERATED markers) from findings/*.json and
seeded/*/meta.json."""
import glob, json, os, re
V = os.path.dirname(os.path.dirname(os.path.abspath(__file__)))

def esc(s):
    return str(s).replace("|", "\\|").replace("\n", " ")

fixed, known = {}, []
for f in sorted(glob.glob(os.path.join(V, "findings", "*.json"))):
    for e in json.load(open(f)).get("findings", []):
        if e.get("status") == "fixed":
            k = e.get("commit", "?")
            fixed.setdefault(k, {"props": [], "ledger": e.get("ledger", ""), "what": e.get("what", "")})
            fixed[k]["props"].append(e.get("property"))
        else:
            known.append(e)
out = []
out.append("**Repaired defects** (one `fix:` commit each in /repo; every one was first reported by the named check with a concrete failing input, which stays in that check's corpus). %d commits:\n" % len(fixed))
out.append("| commit | reported by | ledger | what failed |\n|---|---|---|---|")
for k, v in sorted(fixed.items(), key=lambda kv: (sorted(kv[1]["props"])[0], kv[0])):
    out.append("| `%s` | %s | %s | %s |" % (k, ", ".join(sorted(set(v["props"]))), esc(v["ledger"])[:40], esc(v["what"])[:260]))
out.append("\n**Known findings** (genuine, recorded rather than repaired; the check prints `KNOWN-FINDING` and stays green for exactly these call sites / inputs). %d entries:\n" % len(known))
out.append("| property | ledger | matched by (`sig` regex) | what fails |\n|---|---|---|---|")
for e in known:
    out.append("| %s | %s | `%s` | %s |" % (e.get("property"), esc(e.get("ledger", ""))[:30], esc(e.get("sig", "")), esc(e.get("what", ""))[:260]))
findings_md = "\n".join(out)

rows = []
for d in sorted(glob.glob(os.path.join(V, "seeded", "*"))):
    mp = os.path.join(d, "meta.json")
    if not os.path.exists(mp):
        continue
    m = json.load(open(mp))
    det = m.get("detection", {})
    lv = det.get("last_verified") or {}
    st = m.get("stale")
    if st:
        state = "applies to /repo %s only (rewritten by %s)" % (st.get("applies_to_repo_commit"), st.get("superseded_by"))
    elif lv:
        state = "%s by ./check %s on /repo %s" % (lv.get("verdict"), lv.get("by_check"), lv.get("repo_head"))
    else:
        state = "not re-run since it was kept"
    rows.append("| %s | %s | %s | %s | %s | %s |" % (os.path.basename(d), m.get("property", ""), esc(m.get("summary", ""))[:200], esc(det.get("detected", "?")), esc(det.get("how", ""))[:260], esc(state)))
seeded_md = "| seed | property | change | detected | by which check / signature | last re-run (tools/seed_sweep.py) |\n|---|---|---|---|---|---|\n" + "\n".join(rows)
seeded_md = ("%d seeded changes (each: compiles, pinned suite unchanged, own demonstration fails with it and passes without — confirmed independently).\n\n" % len(rows)) + seeded_md

# per-property status from claims + last evidence
prows = []
for line in open(os.path.join(V, "properties.jsonl")):
    pr = json.loads(line)
    pid = pr["id"]
    cl = {}
    cp = os.path.join(V, "claims", pid + ".json")
    if os.path.exists(cp):
        cl = json.load(open(cp))
    ev = {}
    ep = os.path.join(V, "evidence", pid + ".json")
    if os.path.exists(ep):
        try:
            ev = json.load(open(ep))
        except Exception:
            ev = {}
    cov = ev.get("coverage", {})
    seeds = [r for r in rows if r.startswith("| %s-" % pid)]
    caught = sum(1 for r in seeds if "| yes |" in r)
    prows.append("| %s | %s | %s | %s | %s/%s | %s |" % (
        pid, esc(pr["title"])[:60], cov.get("obligations", "?"), cov.get("evaluations", "?"),
        caught, len(seeds), esc(cl.get("text", "(not claimed)"))[:420] + "…"))
status_md = ("| id | property | theorems | evaluations of the last quick/thorough run | seeds caught | what is proved / validated (from claims/<id>.json, truncated) |\n"
             "|---|---|---|---|---|---|\n" + "\n".join(prows))

p = os.path.join(V, "DESIGN.md")
s = open(p).read()
for name, body in (("FINDINGS", findings_md), ("SEEDED", seeded_md), ("STATUS", status_md)):
    b, e = "<!-- BEGIN GENERATED %s -->" % name, "<!-- END GENERATED %s -->" % name
    if b in s:
        s = re.sub(re.escape(b) + r".*?" + re.escape(e), lambda _m: b + "\n" + body + "\n" + e, s, flags=re.S)
open(p, "w").write(s)
print("findings: %d fixed commits, %d known; seeds: %d" % (len(fixed), len(known), len(rows)))
