#!/usr/bin/env python3
"""tools/keep_seed.py <src-dir> <seed-id> <property> <detected: yes|no|partial> "<how detected / note>" ['<confirm json>']
Copies a confirmed seeded change to /verif/seeded/<seed-id>/ (patch.diff, demo, meta.json)."""
import json, os, shutil, sys
src, sid, prop, det, note = sys.argv[1:6]
confirm = json.loads(sys.argv[6]) if len(sys.argv) > 6 else None
dst = os.path.join("/verif/seeded", sid)
os.makedirs(dst, exist_ok=True)
shutil.copy(os.path.join(src, "patch.diff"), dst)
for f in os.listdir(src):
    if f.startswith("demo"):
        shutil.copy(os.path.join(src, f), dst)
meta = {}
mp = os.path.join(src, "meta.json")
if os.path.exists(mp):
    try:
        meta = json.load(open(mp))
    except Exception:
        meta = {"raw": open(mp).read()}
meta["property"] = prop
meta["confirmed_by_me"] = confirm or "see ran"
meta["detection"] = {"detected": det, "how": note,
                     "cmd": f"tools/mutcheck.sh {prop} seeded/{sid}/patch.diff   (scratch copy of /repo with the patch; equivalent to: git -C /repo apply seeded/{sid}/patch.diff && ./check {prop}; git -C /repo checkout -- .)"}
json.dump(meta, open(os.path.join(dst, "meta.json"), "w"), indent=1)
print("kept", dst)
