#!/bin/sh
# tools/mutcheck.sh <Cxx> <patch.diff> [extra check args]  — run ./check against a scratch copy of /repo with the
# patch applied (does not touch /repo, so it is safe while other work is going on there). Prints the check's verdict.
set -e
pid="$1"; patch="$(readlink -f "$2")"; shift 2
# MUTREPO_TAG: a second scratch copy for the same property (the sweep runs next to the workers' own mutchecks)
scratch="/tmp/mutrepo_${pid}${MUTREPO_TAG:-}"
mkdir -p "$scratch"
rsync -a --delete --exclude target --exclude .git --exclude .verif_harness /repo/ "$scratch/"
if ! (cd "$scratch" && patch -p1 -s --dry-run < "$patch" >/dev/null 2>&1); then echo "PATCH-DOES-NOT-APPLY to the current /repo (stale seed?)"; echo "mutcheck rc=3"; exit 3; fi
(cd "$scratch" && patch -p1 -s < "$patch")
cd /verif
set +e
VERIF_REPO="$scratch" ./check "$pid" "$@"
rc=$?
echo "mutcheck rc=$rc"
exit $rc
