#!/bin/sh
# tools/vcommit.sh "<message>" <path>…   — commit the given paths of /verif under a lock (safe with concurrent workers)
msg="$1"; shift
mkdir -p /verif/.locks
exec flock /verif/.locks/vgit sh -c 'cd /verif && git add -- "$@" && git commit -q -m "$0" -- "$@" && git log --oneline | head -1' "$msg" "$@"
