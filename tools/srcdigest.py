#!/usr/bin/env python3
"""tools/srcdigest.py [--repo DIR] [--update]
Digest of every Rust source file of the repository with comments and whitespace removed (a reformatting or a comment
does not change it). `--update` stores them in /verif/state/digests.json (done by hand when a green state of /repo is
committed to; never by a check). ./check compares the files a property is anchored in (properties.jsonl
anchors.files) with the stored digests: a difference is NOT an alarm, it multiplies the quick tier's case counts
(DESIGN.md §3.3: a source edit is the moment a sample is most likely to be too small)."""
import hashlib, json, os, re, sys

def strip(src):
    out, i, n = [], 0, len(src)
    while i < n:
        c = src[i]
        if src.startswith("//", i):
            j = src.find("\n", i)
            i = n if j < 0 else j
        elif src.startswith("/*", i):
            depth, i = 1, i + 2
            while i < n and depth:
                if src.startswith("/*", i):
                    depth += 1; i += 2
                elif src.startswith("*/", i):
                    depth -= 1; i += 2
                else:
                    i += 1
        elif c == '"':
            j = i + 1
            while j < n and src[j] != '"':
                j += 2 if src[j] == "\\" else 1
            out.append(src[i:j + 1]); i = j + 1
        elif c.isspace():
            i += 1
        else:
            out.append(c); i += 1
    return "".join(out)

def digests(repo):
    d = {}
    for root, _, files in os.walk(os.path.join(repo, "src")):
        for f in sorted(files):
            if f.endswith(".rs"):
                p = os.path.join(root, f)
                d[os.path.relpath(p, repo)] = hashlib.sha256(strip(open(p, encoding="utf-8", errors="replace").read()).encode()).hexdigest()[:16]
    return d

def anchors(pid):
    for line in open("/verif/properties.jsonl"):
        p = json.loads(line)
        if p["id"] == pid:
            return p.get("anchors", {}).get("files", [])
    return []

def drift(repo, pid):
    """files of property pid whose digest differs from the stored one ([] when no stored state)"""
    try:
        stored = json.load(open("/verif/state/digests.json"))["files"]
    except Exception:
        return []
    cur = digests(repo)
    out = []
    for f in anchors(pid):
        # an anchor may name a directory-level module (src/xlsx/mod.rs) — compare what is named, plus siblings of a mod.rs
        names = [f] + ([k for k in cur if k.startswith(os.path.dirname(f) + "/")] if f.endswith("/mod.rs") else [])
        for k in names:
            if cur.get(k) != stored.get(k):
                out.append(k)
    return sorted(set(out))

if __name__ == "__main__":
    repo = "/repo"
    if "--repo" in sys.argv:
        repo = sys.argv[sys.argv.index("--repo") + 1]
    d = digests(repo)
    if "--update" in sys.argv:
        import subprocess
        head = subprocess.run(["git", "-C", repo, "rev-parse", "HEAD"], capture_output=True, text=True).stdout.strip()
        os.makedirs("/verif/state", exist_ok=True)
        json.dump({"repo_head": head, "files": d}, open("/verif/state/digests.json", "w"), indent=1, sort_keys=True)
        print("stored", len(d), "digests for", head[:10])
    else:
        print(json.dumps(d, indent=1, sort_keys=True))
