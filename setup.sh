#!/bin/sh
# MANIFEST.setup_cmd — builds the Lean library (models, proofs, drivers) and the Rust harness, offline.
set -e
cd "$(dirname "$0")"
export CARGO_NET_OFFLINE=true
[ -f tools/extract_tables.py ] && python3 tools/extract_tables.py /repo lean/CalVerif/Gen || true
(cd lean && lake build)
[ -f harness/Cargo.lock ] || cp /repo/Cargo.lock harness/Cargo.lock
(cd harness && cargo build --release --offline --bins 2>&1 | tail -3)
echo setup done
