#!/bin/sh
# MANIFEST.setup_cmd — builds the Lean library (models, proofs, drivers) and the Rust harness, offline.
# Every ./check rebuilds what it needs itself; this only warms the build caches, so a failure of one
# module is reported but does not stop the others.
cd "$(dirname "$0")"
export CARGO_NET_OFFLINE=true
if [ -f tools/extract_tables.py ]; then python3 tools/extract_tables.py /repo lean/CalVerif/Gen || echo "WARN: table translator failed"; fi
python3 tools/gen_root.py
for f in lean/Driver/C*.lean; do
  n=$(basename "$f" .lean | tr 'A-Z' 'a-z')
  (cd lean && lake build "drv_$n" >/dev/null 2>&1) || echo "WARN: driver drv_$n did not build"
done
(cd lean && lake build drv_tables >/dev/null 2>&1) || echo "WARN: driver drv_tables did not build"
for f in lean/CalVerif/Props/C*.lean; do
  m=$(basename "$f" .lean)
  (cd lean && lake build "CalVerif.Props.$m" >/dev/null 2>&1) || echo "WARN: CalVerif.Props.$m did not build"
done
[ -f harness/Cargo.lock ] || cp /repo/Cargo.lock harness/Cargo.lock
(cd harness && cargo build --release --offline --bins 2>&1 | tail -2) || true
for f in harness/src/bin/c*.rs; do
  b=$(basename "$f" .rs)
  [ -x "harness/target/release/$b" ] || (cd harness && cargo build --release --offline --bin "$b" >/dev/null 2>&1) || echo "WARN: harness binary $b did not build"
done
echo setup done
exit 0
