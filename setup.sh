#!/bin/sh
# MANIFEST.setup_cmd — builds the Lean library (models, proofs, drivers) and the Rust harness, offline.
set -e
cd "$(dirname "$0")"
export CARGO_NET_OFFLINE=true
if [ -f tools/extract_tables.py ]; then python3 tools/extract_tables.py /repo lean/CalVerif/Gen; fi
python3 tools/gen_root.py
(cd lean && lake build CalVerif)
for f in lean/Driver/C*.lean; do
  n=$(basename "$f" .lean | tr 'A-Z' 'a-z')
  (cd lean && lake build "drv_$n")
done
[ -f harness/Cargo.lock ] || cp /repo/Cargo.lock harness/Cargo.lock
(cd harness && cargo build --release --offline --bins 2>&1 | tail -3)
echo setup done
