//! Shared machinery of the correspondence harness: PRNG, driver pipe, report writer.
pub mod cfbpatch;
pub mod cfbw;
pub mod driver;
pub mod odsw;
pub mod report;
pub mod rng;
pub mod wb;
pub mod xlsbw;
pub mod xlsw;
pub mod xlsxw;

use std::panic::{catch_unwind, AssertUnwindSafe};

/// Command-line arguments common to every property binary.
pub struct Args {
    pub seed: u64,
    pub tier: String,
    pub driver: String,
    pub out: String,
    pub replay: Option<String>,
    pub n: Option<u64>,
}

impl Args {
    pub fn parse() -> Args {
        let mut a = Args {
            seed: std::env::var("VERIF_SEED").ok().and_then(|s| s.parse().ok()).unwrap_or(1),
            tier: std::env::var("VERIF_TIER").unwrap_or_else(|_| "quick".into()),
            driver: String::new(),
            out: String::new(),
            replay: None,
            n: None,
        };
        let v: Vec<String> = std::env::args().collect();
        let mut i = 1;
        while i < v.len() {
            let val = v.get(i + 1).cloned().unwrap_or_default();
            match v[i].as_str() {
                "--seed" => a.seed = val.parse().expect("seed"),
                "--tier" => a.tier = val,
                "--driver" => a.driver = val,
                "--out" => a.out = val,
                "--replay" => a.replay = Some(val),
                "--n" => a.n = Some(val.parse().expect("n")),
                x => panic!("unknown argument {x}"),
            }
            i += 2;
        }
        a
    }
    pub fn thorough(&self) -> bool {
        self.tier == "thorough"
    }
    /// number of cases: `--n` overrides, else by tier
    pub fn count(&self, quick: u64, thorough: u64) -> u64 {
        // VERIF_SCALE: set by ./check when a source file the property is anchored in has changed since the last
        // recorded green state (source-drift escalation): the quick counts are multiplied, never beyond thorough
        let scale: u64 = std::env::var("VERIF_SCALE").ok().and_then(|s| s.parse().ok()).unwrap_or(1).max(1);
        self.n.unwrap_or(if self.thorough() { thorough } else { (quick * scale).min(thorough.max(quick)) })
    }
}

/// Run `f`, mapping a panic to `Err(message)`. The default panic hook is silenced once.
pub fn guarded<T>(f: impl FnOnce() -> T) -> Result<T, String> {
    silence_panics();
    catch_unwind(AssertUnwindSafe(f)).map_err(|e| {
        if let Some(s) = e.downcast_ref::<&str>() {
            s.to_string()
        } else if let Some(s) = e.downcast_ref::<String>() {
            s.clone()
        } else {
            "panic".to_string()
        }
    })
}

pub fn silence_panics() {
    use std::sync::Once;
    static ONCE: Once = Once::new();
    ONCE.call_once(|| {
        if std::env::var("VERIF_SHOW_PANICS").is_err() {
            std::panic::set_hook(Box::new(|_| {}));
        }
    });
}

pub fn hex(bytes: &[u8]) -> String {
    if bytes.is_empty() {
        return "-".into();
    }
    let mut s = String::with_capacity(bytes.len() * 2);
    for b in bytes {
        s.push_str(&format!("{:02x}", b));
    }
    s
}

pub fn unhex(s: &str) -> Vec<u8> {
    if s == "-" {
        return vec![];
    }
    let b = s.as_bytes();
    (0..b.len() / 2)
        .map(|i| {
            let h = (b[2 * i] as char).to_digit(16).unwrap() as u8;
            let l = (b[2 * i + 1] as char).to_digit(16).unwrap() as u8;
            h * 16 + l
        })
        .collect()
}

pub fn fnv64(s: &[u8]) -> u64 {
    let mut h: u64 = 0xcbf29ce484222325;
    for b in s {
        h ^= *b as u64;
        h = h.wrapping_mul(0x100000001b3);
    }
    h
}
