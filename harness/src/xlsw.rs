//! BIFF8 (.xls) workbook writer: globals substream + one substream per sheet, wrapped into a compound
//! file by `cfbw::write_cfb`. Port of design-notes/fuzz-prototypes/xlsfz.py, shared by the xls properties
//! (C02 cells, C08 header row, C07 purity, C10 formats, C14 formulas, C16 metadata, C20 password).
//!
//! ```ignore
//! let mut book = XlsBook::new();
//! let mut sh = XlsSheet::new("Sheet1");
//! sh.cells.push(XlsCell::new(0, 0, CellV::Number(1.5)));
//! sh.cells.push(XlsCell::new(0, 1, CellV::Label("abc".into(), None)));
//! book.sheets.push(sh);
//! let bytes = book.to_bytes(&mut rng);                 // random container layout, random string packing
//! let mut wb: Xls<_> = Xls::new(Cursor::new(bytes)).unwrap();
//! ```
//! Everything random (8/16-bit packing of strings whose characters allow both, SST CONTINUE cuts, the
//! container layout) is drawn from the `Rng` passed in; the logical content is fixed by the struct.
//! A sheet body is either a list of `XlsCell`s (encoded here), a list of raw `(id, payload)` records, or
//! the complete substream bytes (BOF … EOF) produced elsewhere, e.g. by a Lean encoder.
use crate::cfbw::{write_cfb, CfbOpts};
use crate::rng::Rng;

pub const BOF: u16 = 0x0809;
pub const EOF: u16 = 0x000A;
pub const CONTINUE: u16 = 0x003C;
pub const CODEPAGE: u16 = 0x0042;
pub const DATEMODE: u16 = 0x0022;
pub const FILEPASS: u16 = 0x002F;
pub const FORMAT: u16 = 0x041E;
pub const XF: u16 = 0x00E0;
pub const BOUNDSHEET: u16 = 0x0085;
pub const SUPBOOK: u16 = 0x01AE;
pub const EXTERNSHEET: u16 = 0x0017;
pub const LBL: u16 = 0x0018;
pub const SST: u16 = 0x00FC;
pub const DIMENSIONS: u16 = 0x0200;
pub const BLANK: u16 = 0x0201;
pub const NUMBER: u16 = 0x0203;
pub const LABEL: u16 = 0x0204;
pub const BOOLERR: u16 = 0x0205;
pub const FORMULA: u16 = 0x0006;
pub const STRING: u16 = 0x0207;
pub const ROW: u16 = 0x0208;
pub const RK: u16 = 0x027E;
pub const MULRK: u16 = 0x00BD;
pub const LABELSST: u16 = 0x00FD;
pub const DBCELL: u16 = 0x00D7;
pub const MERGECELLS: u16 = 0x00E5;
/// largest payload of one BIFF8 record
pub const MAX_REC: usize = 8224;

/// the 8 BIFF error codes and the `CellErrorType` variant names calamine maps them to
pub const ERR_CODES: [(u8, &str); 8] =
    [(0x00, "Null"), (0x07, "Div0"), (0x0F, "Value"), (0x17, "Ref"), (0x1D, "Name"), (0x24, "Num"), (0x2A, "NA"), (0x2B, "GettingData")];

/// one framed record: id, length, payload (payload must fit `u16`; legal BIFF8 needs ≤ 8224)
pub fn rec(typ: u16, data: &[u8]) -> Vec<u8> {
    assert!(data.len() <= 0xFFFF);
    let mut v = Vec::with_capacity(4 + data.len());
    v.extend_from_slice(&typ.to_le_bytes());
    v.extend_from_slice(&(data.len() as u16).to_le_bytes());
    v.extend_from_slice(data);
    v
}

pub fn frame(records: &[(u16, Vec<u8>)]) -> Vec<u8> {
    records.iter().flat_map(|(t, d)| rec(*t, d)).collect()
}

/// BOF payload: BIFF8, `dt` = 0x0005 workbook globals, 0x0010 worksheet, 0x0020 chart, 0x0040 macro sheet
pub fn bof(dt: u16) -> Vec<u8> {
    let mut d = vec![];
    d.extend_from_slice(&0x0600u16.to_le_bytes());
    d.extend_from_slice(&dt.to_le_bytes());
    d.extend_from_slice(&[0u8; 12]);
    rec(BOF, &d)
}

pub fn utf16(s: &str) -> Vec<u16> {
    s.encode_utf16().collect()
}

/// character bytes + the fHighByte flag. `wide`: Some(true) = 16-bit, Some(false) = 8-bit when every unit
/// is < 256 (else 16-bit), None = random among the legal choices.
pub fn pack_units(u: &[u16], wide: Option<bool>, rng: &mut Rng) -> (u8, Vec<u8>) {
    let can8 = u.iter().all(|x| *x < 256);
    let use8 = can8
        && match wide {
            Some(w) => !w,
            None => rng.chance(3, 5),
        };
    if use8 {
        (0, u.iter().map(|x| *x as u8).collect())
    } else {
        (1, u.iter().flat_map(|x| x.to_le_bytes()).collect())
    }
}

/// XLUnicodeString (MS-XLS 2.5.294): cch u16, flags, characters
pub fn xl_unicode_string(s: &str, wide: Option<bool>, rng: &mut Rng) -> Vec<u8> {
    let u = utf16(s);
    let (fl, body) = pack_units(&u, wide, rng);
    let mut v = (u.len() as u16).to_le_bytes().to_vec();
    v.push(fl);
    v.extend(body);
    v
}

/// ShortXLUnicodeString (2.5.240): cch u8, flags, characters
pub fn short_xl_unicode_string(s: &str, wide: Option<bool>, rng: &mut Rng) -> Vec<u8> {
    let u = utf16(s);
    assert!(u.len() < 256);
    let (fl, body) = pack_units(&u, wide, rng);
    let mut v = vec![u.len() as u8, fl];
    v.extend(body);
    v
}

/// `n` distinct short strings ("s" + the index in base 36; index 0 is the empty string) for shared-string tables
/// larger than 65 536 entries: a LABELSST index read modulo 2^16 then shows another text
pub fn big_sst_strings(n: usize) -> Vec<String> {
    (0..n)
        .map(|i| {
            if i == 0 {
                return String::new();
            }
            let mut v = vec![];
            let mut k = i;
            while k > 0 {
                v.push(std::char::from_digit((k % 36) as u32, 36).unwrap());
                k /= 36;
            }
            v.push('s');
            v.iter().rev().collect()
        })
        .collect()
}

/// cached result of a FORMULA record
#[derive(Clone, Debug, PartialEq)]
pub enum Cached {
    Num(f64),
    /// string result: FormulaValue type 0, the text follows in a STRING record
    Str(String),
    Bool(bool),
    Err(u8),
    /// FormulaValue type 3 ("blank string"), no STRING record
    Blank,
}

#[derive(Clone, Debug, PartialEq)]
pub enum CellV {
    Number(f64),
    /// raw 32-bit RkNumber (bit0 fX100, bit1 fInt, 30-bit payload)
    Rk(u32),
    /// MULRK run starting at the cell's column: (ixfe, rk word) per column
    MulRk(Vec<(u16, u32)>),
    /// LABEL with an inline XLUnicodeString; second field = packing (see `pack_units`)
    Label(String, Option<bool>),
    /// LABELSST: index into `XlsBook::sst`
    LabelSst(u32),
    Bool(bool),
    /// BOOLERR with fError = 1 and this error code
    Err(u8),
    /// FORMULA: `rgce` = the parsed-expression bytes (without the cce prefix)
    Formula { rgce: Vec<u8>, cached: Cached },
    Blank,
    /// any record (id, payload) emitted at this point of the cell stream; row/col/xf are ignored
    Raw(u16, Vec<u8>),
}

#[derive(Clone, Debug, PartialEq)]
pub struct XlsCell {
    pub row: u16,
    pub col: u16,
    pub xf: u16,
    pub v: CellV,
}

impl XlsCell {
    pub fn new(row: u16, col: u16, v: CellV) -> XlsCell {
        XlsCell { row, col, xf: 0, v }
    }
    pub fn raw(typ: u16, data: Vec<u8>) -> XlsCell {
        XlsCell { row: 0, col: 0, xf: 0, v: CellV::Raw(typ, data) }
    }
}

/// RK word of a 30-bit signed integer (−2^29 ≤ v < 2^29)
pub fn rk_int(v: i32, x100: bool) -> u32 {
    assert!((-(1 << 29)..(1 << 29)).contains(&v));
    (((v as u32) & 0x3FFF_FFFF) << 2) | 2 | (x100 as u32)
}

/// RK word of a double whose low 34 bits are zero; None when they are not
pub fn rk_float(x: f64, x100: bool) -> Option<u32> {
    let b = x.to_bits();
    if b & 0x3_FFFF_FFFF != 0 {
        return None;
    }
    Some(((b >> 32) as u32) | (x100 as u32))
}

/// `PtgInt n` — the smallest well-formed rgce
pub fn rgce_int(n: u16) -> Vec<u8> {
    vec![0x1E, n as u8, (n >> 8) as u8]
}

/// FORMULA payload: cell header, FormulaValue, grbit, chn, cce, rgce
pub fn formula_payload(row: u16, col: u16, xf: u16, value: [u8; 8], rgce: &[u8]) -> Vec<u8> {
    let mut d = cell_hdr(row, col, xf);
    d.extend_from_slice(&value);
    d.extend_from_slice(&0u16.to_le_bytes()); // grbit
    d.extend_from_slice(&0u32.to_le_bytes()); // chn
    d.extend_from_slice(&(rgce.len() as u16).to_le_bytes());
    d.extend_from_slice(rgce);
    d
}

pub fn cell_hdr(row: u16, col: u16, xf: u16) -> Vec<u8> {
    let mut d = row.to_le_bytes().to_vec();
    d.extend_from_slice(&col.to_le_bytes());
    d.extend_from_slice(&xf.to_le_bytes());
    d
}

/// the 8-byte FormulaValue field for a cached result
pub fn formula_value(c: &Cached) -> [u8; 8] {
    match c {
        Cached::Num(x) => x.to_le_bytes(),
        Cached::Str(_) => [0, 0, 0, 0, 0, 0, 0xFF, 0xFF],
        Cached::Bool(b) => [1, 0, *b as u8, 0, 0, 0, 0xFF, 0xFF],
        Cached::Err(e) => [2, 0, *e, 0, 0, 0, 0xFF, 0xFF],
        Cached::Blank => [3, 0, 0, 0, 0, 0, 0xFF, 0xFF],
    }
}

/// records (id, payload) of one cell
pub fn encode_cell(c: &XlsCell, rng: &mut Rng) -> Vec<(u16, Vec<u8>)> {
    let hdr = cell_hdr(c.row, c.col, c.xf);
    let with = |tail: &[u8]| {
        let mut d = hdr.clone();
        d.extend_from_slice(tail);
        d
    };
    match &c.v {
        CellV::Number(x) => vec![(NUMBER, with(&x.to_le_bytes()))],
        CellV::Rk(w) => vec![(RK, with(&w.to_le_bytes()))],
        CellV::MulRk(run) => {
            assert!(!run.is_empty());
            let mut d = c.row.to_le_bytes().to_vec();
            d.extend_from_slice(&c.col.to_le_bytes());
            for (xf, w) in run {
                d.extend_from_slice(&xf.to_le_bytes());
                d.extend_from_slice(&w.to_le_bytes());
            }
            d.extend_from_slice(&(c.col + run.len() as u16 - 1).to_le_bytes());
            vec![(MULRK, d)]
        }
        CellV::Label(s, wide) => vec![(LABEL, with(&xl_unicode_string(s, *wide, rng)))],
        CellV::LabelSst(i) => vec![(LABELSST, with(&i.to_le_bytes()))],
        CellV::Bool(b) => vec![(BOOLERR, with(&[*b as u8, 0]))],
        CellV::Err(e) => vec![(BOOLERR, with(&[*e, 1]))],
        CellV::Formula { rgce, cached } => {
            let mut out = vec![(FORMULA, formula_payload(c.row, c.col, c.xf, formula_value(cached), rgce))];
            if let Cached::Str(s) = cached {
                out.push((STRING, xl_unicode_string(s, None, rng)));
            }
            out
        }
        CellV::Blank => vec![(BLANK, hdr)],
        CellV::Raw(t, d) => vec![(*t, d.clone())],
    }
}

/// DIMENSIONS payload (BIFF8, 14 bytes): first row, last row + 1, first col, last col + 1
pub fn dimensions_payload(r0: u32, r1_excl: u32, c0: u16, c1_excl: u16) -> Vec<u8> {
    let mut d = r0.to_le_bytes().to_vec();
    d.extend_from_slice(&r1_excl.to_le_bytes());
    d.extend_from_slice(&c0.to_le_bytes());
    d.extend_from_slice(&c1_excl.to_le_bytes());
    d.extend_from_slice(&[0, 0]);
    d
}

#[derive(Clone, Debug)]
pub enum SheetBody {
    /// cells encoded by `encode_cell`, in the given order, between BOF and EOF
    Cells,
    /// complete substream bytes (BOF … EOF) produced elsewhere
    Raw(Vec<u8>),
}

#[derive(Clone, Debug)]
pub struct XlsSheet {
    pub name: String,
    /// hsState: 0 visible, 1 hidden, 2 very hidden
    pub visible: u8,
    /// dt: 0 worksheet, 1 macro sheet, 2 chart, 6 VBA module
    pub kind: u8,
    pub cells: Vec<XlsCell>,
    pub body: SheetBody,
    /// 8/16-bit packing of the sheet name in BOUNDSHEET8 (None = random)
    pub name_wide: Option<bool>,
}

impl XlsSheet {
    pub fn new(name: &str) -> XlsSheet {
        XlsSheet { name: name.into(), visible: 0, kind: 0, cells: vec![], body: SheetBody::Cells, name_wide: None }
    }
    pub fn raw(name: &str, substream: Vec<u8>) -> XlsSheet {
        XlsSheet { body: SheetBody::Raw(substream), ..XlsSheet::new(name) }
    }
    /// the substream BOF … EOF
    pub fn substream(&self, rng: &mut Rng) -> Vec<u8> {
        match &self.body {
            SheetBody::Raw(b) => b.clone(),
            SheetBody::Cells => {
                let dt = match self.kind {
                    2 => 0x0020,
                    1 => 0x0040,
                    6 => 0x0006,
                    _ => 0x0010,
                };
                let mut s = bof(dt);
                for c in &self.cells {
                    s.extend(frame(&encode_cell(c, rng)));
                }
                s.extend(rec(EOF, &[]));
                s
            }
        }
    }
}

/// defined name (Lbl record)
#[derive(Clone, Debug)]
pub struct XlsName {
    pub name: String,
    pub rgce: Vec<u8>,
    pub name_wide: Option<bool>,
    /// itab: 0 = workbook scope, n = 1-based sheet
    pub itab: u16,
}

#[derive(Clone, Debug)]
pub struct XlsBook {
    pub sheets: Vec<XlsSheet>,
    pub date1904: bool,
    /// CODEPAGE record value; None = no CODEPAGE record
    pub codepage: Option<u16>,
    /// FORMAT records: (ifmt, format string)
    pub formats: Vec<(u16, String)>,
    /// XF records: the ifmt of each XF, index = the cells' ixfe
    pub xfs: Vec<u16>,
    /// shared strings
    pub sst: Vec<String>,
    /// SST fragments built elsewhere (first = SST payload, rest = CONTINUE payloads); overrides `sst`
    pub sst_raw: Option<Vec<Vec<u8>>>,
    /// largest fragment the built-in SST writer produces (≤ 8224); smaller values force CONTINUE cuts
    pub sst_frag: usize,
    /// ExternSheet XTI entries (iSupBook, itabFirst, itabLast)
    pub xtis: Vec<(u16, i16, i16)>,
    pub names: Vec<XlsName>,
    /// extra records right after the globals BOF (FILEPASS, WRITEACCESS, unknown ids …)
    pub globals_head: Vec<(u16, Vec<u8>)>,
    /// extra records right before the globals EOF
    pub globals_tail: Vec<(u16, Vec<u8>)>,
    /// bytes appended after the last substream (streams are often padded)
    pub trailing: Vec<u8>,
    /// name of the stream in the compound file ("Workbook"; "Book" for BIFF5-style files)
    pub stream_name: String,
    /// physical order of the sheet substreams in the stream (a permutation of the sheet indices); `None` = tab
    /// order. The BOUNDSHEET8 records stay in tab order, each with the offset of its own substream (legal: a tab
    /// moved without rewriting the stream) — shared knob for C14 / C16
    pub substream_order: Option<Vec<usize>>,
}

impl Default for XlsBook {
    fn default() -> XlsBook {
        XlsBook::new()
    }
}

impl XlsBook {
    /// empty BIFF8 workbook: code page 1200, one XF (ifmt 0 = General), no sheets
    pub fn new() -> XlsBook {
        XlsBook {
            sheets: vec![],
            date1904: false,
            codepage: Some(1200),
            formats: vec![],
            xfs: vec![0],
            sst: vec![],
            sst_raw: None,
            sst_frag: MAX_REC,
            xtis: vec![],
            names: vec![],
            globals_head: vec![],
            globals_tail: vec![],
            trailing: vec![],
            stream_name: "Workbook".into(),
            substream_order: None,
        }
    }

    /// SST + CONTINUE records for `self.sst` (plain strings, random legal cuts ≤ `sst_frag`)
    pub fn sst_records(&self, rng: &mut Rng) -> Vec<(u16, Vec<u8>)> {
        if let Some(frags) = &self.sst_raw {
            return frags.iter().enumerate().map(|(i, f)| (if i == 0 { SST } else { CONTINUE }, f.clone())).collect();
        }
        if self.sst.is_empty() {
            return vec![];
        }
        let lim = self.sst_frag.clamp(16, MAX_REC);
        let mut frags: Vec<Vec<u8>> = vec![];
        let mut cur: Vec<u8> = vec![];
        cur.extend_from_slice(&(self.sst.len() as u32 + 3).to_le_bytes()); // cstTotal (unused by readers)
        cur.extend_from_slice(&(self.sst.len() as u32).to_le_bytes()); // cstUnique
        for s in &self.sst {
            let u = utf16(s);
            // the 3-byte header of a string is never split
            if cur.len() + 3 > lim {
                frags.push(std::mem::take(&mut cur));
            }
            let mut pos = 0;
            let mut first = true;
            loop {
                // choose packing for this segment, then how many units fit
                let rest = &u[pos..];
                let can8 = rest.iter().all(|x| *x < 256);
                let use8 = can8 && rng.chance(3, 5);
                let unit = if use8 { 1 } else { 2 };
                let hdr = if first { 3 } else { 1 };
                let room = lim.saturating_sub(cur.len() + hdr) / unit;
                let mut n = rest.len().min(room);
                if n < rest.len() && rng.chance(1, 4) && n > 1 {
                    n = rng.range(1, n as u64) as usize; // cut earlier than necessary
                }
                // never cut between the halves of a surrogate pair
                if n < rest.len() && n > 0 && (0xDC00..0xE000).contains(&rest[n]) {
                    if n >= 2 {
                        n -= 1;
                    } else if room >= 2 {
                        n = 2;
                    } else {
                        n = 0;
                    }
                }
                if !first && n == 0 && !rest.is_empty() {
                    // no room at all: start a new fragment and retry
                    frags.push(std::mem::take(&mut cur));
                    continue;
                }
                if first {
                    cur.extend_from_slice(&(u.len() as u16).to_le_bytes());
                }
                cur.push(if use8 { 0 } else { 1 });
                for x in &rest[..n] {
                    if use8 {
                        cur.push(*x as u8);
                    } else {
                        cur.extend_from_slice(&x.to_le_bytes());
                    }
                }
                pos += n;
                first = false;
                if pos >= u.len() {
                    break;
                }
                frags.push(std::mem::take(&mut cur)); // continuation starts with a fresh flags byte
            }
        }
        frags.push(cur);
        frags.into_iter().enumerate().map(|(i, f)| (if i == 0 { SST } else { CONTINUE }, f)).collect()
    }

    /// the globals substream without the BOUNDSHEET8 records: (records before them, records after them)
    fn globals_parts(&self, rng: &mut Rng) -> (Vec<u8>, Vec<u8>) {
        let mut head = bof(0x0005);
        head.extend(frame(&self.globals_head));
        if let Some(cp) = self.codepage {
            head.extend(rec(CODEPAGE, &cp.to_le_bytes()));
        }
        if self.date1904 {
            head.extend(rec(DATEMODE, &1u16.to_le_bytes()));
        } else if rng.chance(1, 2) {
            head.extend(rec(DATEMODE, &0u16.to_le_bytes()));
        }
        for (ifmt, s) in &self.formats {
            let mut d = ifmt.to_le_bytes().to_vec();
            d.extend(xl_unicode_string(s, None, rng));
            head.extend(rec(FORMAT, &d));
        }
        for ifmt in &self.xfs {
            let mut d = 0u16.to_le_bytes().to_vec(); // ifnt
            d.extend_from_slice(&ifmt.to_le_bytes());
            d.extend_from_slice(&[0u8; 16]);
            head.extend(rec(XF, &d));
        }
        let mut tail = vec![];
        if !self.xtis.is_empty() || !self.names.is_empty() {
            let mut d = (self.sheets.len() as u16).to_le_bytes().to_vec();
            d.extend_from_slice(&0x0401u16.to_le_bytes()); // internal references
            tail.extend(rec(SUPBOOK, &d));
            let mut d = (self.xtis.len() as u16).to_le_bytes().to_vec();
            for (a, b, c) in &self.xtis {
                d.extend_from_slice(&a.to_le_bytes());
                d.extend_from_slice(&b.to_le_bytes());
                d.extend_from_slice(&c.to_le_bytes());
            }
            tail.extend(rec(EXTERNSHEET, &d));
        }
        for n in &self.names {
            let u = utf16(&n.name);
            assert!(u.len() < 256);
            let (fl, body) = pack_units(&u, n.name_wide, rng);
            let mut d = 0u16.to_le_bytes().to_vec(); // grbit
            d.push(0); // chKey
            d.push(u.len() as u8); // cch
            d.extend_from_slice(&(n.rgce.len() as u16).to_le_bytes()); // cce
            d.extend_from_slice(&0u16.to_le_bytes()); // reserved
            d.extend_from_slice(&n.itab.to_le_bytes());
            d.extend_from_slice(&[0u8; 4]);
            d.push(fl);
            d.extend(body);
            d.extend_from_slice(&n.rgce);
            tail.extend(rec(LBL, &d));
        }
        tail.extend(frame(&self.sst_records(rng)));
        tail.extend(frame(&self.globals_tail));
        tail.extend(rec(EOF, &[]));
        (head, tail)
    }

    /// the `Workbook` stream: globals substream (BOUNDSHEET8 offsets patched) followed by the sheet substreams
    pub fn workbook_stream(&self, rng: &mut Rng) -> Vec<u8> {
        let (head, tail) = self.globals_parts(rng);
        let subs: Vec<Vec<u8>> = self.sheets.iter().map(|s| s.substream(rng)).collect();
        let names: Vec<Vec<u8>> = self.sheets.iter().map(|s| short_xl_unicode_string(&s.name, s.name_wide, rng)).collect();
        let glen = head.len() + names.iter().map(|n| 4 + 6 + n.len()).sum::<usize>() + tail.len();
        // physical order of the substreams behind the globals (lbPlyPos is only a pointer)
        let order: Vec<usize> = match &self.substream_order {
            Some(o) => {
                let mut seen = vec![false; subs.len()];
                assert!(o.len() == subs.len() && o.iter().all(|i| *i < subs.len() && !std::mem::replace(&mut seen[*i], true)), "substream_order must be a permutation");
                o.clone()
            }
            None => (0..subs.len()).collect(),
        };
        let mut offset = vec![0usize; subs.len()];
        let mut pos = glen;
        for i in &order {
            offset[*i] = pos;
            pos += subs[*i].len();
        }
        let mut out = head;
        for ((sh, n), off) in self.sheets.iter().zip(&names).zip(&offset) {
            let mut d = (*off as u32).to_le_bytes().to_vec();
            d.push(sh.visible);
            d.push(sh.kind);
            d.extend_from_slice(n);
            out.extend(rec(BOUNDSHEET, &d));
        }
        out.extend(tail);
        debug_assert_eq!(out.len(), glen);
        for i in &order {
            out.extend(subs[*i].iter());
        }
        out.extend_from_slice(&self.trailing);
        out
    }

    /// compound file with the given container layout
    pub fn to_bytes_with(&self, opts: &CfbOpts, rng: &mut Rng) -> Vec<u8> {
        let wb = self.workbook_stream(rng);
        write_cfb(&[(self.stream_name.clone(), wb)], opts, rng)
    }

    /// compound file with a random container layout. Version-4 containers (4096-byte sectors) are only
    /// chosen when the stream goes to the mini stream: the pinned reader rejects v4 files without one (D25).
    pub fn to_bytes(&self, rng: &mut Rng) -> Vec<u8> {
        let wb = self.workbook_stream(rng);
        let mut opts = CfbOpts::random(rng);
        if wb.len() >= 4096 || wb.is_empty() {
            opts.sector_size = 512;
        }
        write_cfb(&[(self.stream_name.clone(), wb)], &opts, rng)
    }

    /// plain sequential version-3 container, for readable regression inputs
    pub fn to_bytes_plain(&self, rng: &mut Rng) -> Vec<u8> {
        self.to_bytes_with(&CfbOpts::default(), rng)
    }
}

#[cfg(test)]
mod tests {
    use super::*;
    use calamine::{Data, Reader, Xls};
    use std::io::Cursor;

    #[test]
    fn opens_in_calamine() {
        let mut rng = Rng::new(3);
        for round in 0..200 {
            let mut book = XlsBook::new();
            book.sst = vec!["shared".into(), "é€😀".into(), "x".repeat(40)];
            book.sst_frag = *rng.pick(&[16usize, 30, 100, MAX_REC]);
            book.date1904 = round % 2 == 0;
            let mut sh = XlsSheet::new("Ŝheet 1");
            sh.cells.push(XlsCell::new(0, 0, CellV::Number(1.5)));
            sh.cells.push(XlsCell::new(0, 1, CellV::Rk(rk_int(-7, false))));
            sh.cells.push(XlsCell::new(0, 2, CellV::MulRk(vec![(0, rk_int(1200, true)), (0, rk_float(0.5, false).unwrap())])));
            sh.cells.push(XlsCell::new(1, 0, CellV::Label("abc".into(), None)));
            sh.cells.push(XlsCell::new(1, 1, CellV::LabelSst(1)));
            sh.cells.push(XlsCell::new(1, 2, CellV::LabelSst(2)));
            sh.cells.push(XlsCell::new(2, 0, CellV::Bool(true)));
            sh.cells.push(XlsCell::new(2, 1, CellV::Err(0x07)));
            sh.cells.push(XlsCell::new(3, 0, CellV::Formula { rgce: rgce_int(1), cached: Cached::Str("res".into()) }));
            sh.cells.push(XlsCell::new(3, 1, CellV::Formula { rgce: rgce_int(1), cached: Cached::Num(2.0) }));
            book.sheets.push(sh);
            book.sheets.push(XlsSheet::new("empty"));
            let bytes = book.to_bytes(&mut rng);
            let mut wb: Xls<_> = Xls::new(Cursor::new(bytes)).expect("Xls::new");
            assert_eq!(wb.sheet_names(), vec!["Ŝheet 1".to_string(), "empty".to_string()]);
            let r = wb.worksheet_range("Ŝheet 1").unwrap();
            assert_eq!(r.start(), Some((0, 0)));
            assert_eq!(r.end(), Some((3, 3)));
            assert_eq!(r.get_value((0, 0)), Some(&Data::Float(1.5)));
            assert_eq!(r.get_value((0, 1)), Some(&Data::Int(-7)));
            assert_eq!(r.get_value((0, 2)), Some(&Data::Int(12)));
            assert_eq!(r.get_value((0, 3)), Some(&Data::Float(0.5)));
            assert_eq!(r.get_value((1, 0)), Some(&Data::String("abc".into())));
            assert_eq!(r.get_value((1, 1)), Some(&Data::String("é€😀".into())));
            assert_eq!(r.get_value((1, 2)), Some(&Data::String("x".repeat(40))));
            assert_eq!(r.get_value((2, 0)), Some(&Data::Bool(true)));
            assert_eq!(r.get_value((3, 0)), Some(&Data::String("res".into())));
            assert_eq!(r.get_value((3, 1)), Some(&Data::Float(2.0)));
            assert!(wb.worksheet_range("empty").unwrap().is_empty());
        }
    }
}
