//! A small OpenDocument spreadsheet (`.ods`) writer for the correspondence harnesses.
//!
//! `OdsBook { sheets: vec![OdsSheet { name, rows: vec![RowRun { repeat, cells: vec![OdsCell…] }] }] }`
//! → `book.to_bytes()` (a zip with `mimetype`, `META-INF/manifest.xml`, `content.xml`) that
//! `calamine::Ods::new(Cursor::new(bytes))` opens. The row/cell *runs* are written exactly as given
//! (one element per run, with `table:number-rows-repeated` / `table:number-columns-repeated`), so the
//! caller controls the run-length grouping. `content.xml` is never pretty-printed (calamine rejects
//! whitespace text between cells).
//!
//! Expected values: `OdsVal::expected()` is the `calamine::Data` the property C04 says the cell reads
//! back as; `OdsSheet::grid()` expands the runs into a sparse map `(row, col) -> (value, formula)`.
use calamine::Data;
use std::collections::BTreeMap;
use std::io::{Cursor, Write};

/// How the attributes of an element are spelled — all of it legal XML that a reader must treat alike:
/// the quote character, white space around `=`, the white space between attributes, and their order.
#[derive(Clone, Copy, Debug, Default, PartialEq, Eq)]
pub struct AttrStyle {
    /// 0: `a="v"`, 1: `a='v'`
    pub quote: u8,
    /// white space around `=`: 0 none, 1 before, 2 after, 3 both
    pub eq: u8,
    /// between attributes: 0 one blank, 1 two blanks, 2 a line break, 3 tab + blank (and a blank before `>`)
    pub sep: u8,
    /// 0: the natural order; otherwise the seed of a permutation of the attributes
    pub order: u32,
}

impl AttrStyle {
    pub fn from_code(n: u32) -> AttrStyle {
        AttrStyle { quote: (n & 1) as u8, eq: ((n >> 1) & 3) as u8, sep: ((n >> 3) & 3) as u8, order: n >> 5 }
    }
    pub fn code(&self) -> u32 {
        self.quote as u32 | (self.eq as u32) << 1 | (self.sep as u32) << 3 | self.order << 5
    }
}

/// An end tag `</tag>`; with `st.sep >= 2` it carries white space before `>` (`</tag\n>`, `</tag >`), which is legal
/// XML (`ETag ::= '</' Name S? '>'`) although no office suite writes it.
pub fn end_tag(tag: &str, st: AttrStyle) -> String {
    let ws = match st.sep {
        2 => "\n",
        3 => " ",
        _ => "",
    };
    format!("</{tag}{ws}>")
}

/// Write ` name="value"` for every attribute (`value` already escaped with `escape_attr`) in the given style.
pub fn write_attrs(out: &mut String, attrs: &[(String, String)], st: AttrStyle) {
    let mut idx: Vec<usize> = (0..attrs.len()).collect();
    if st.order != 0 {
        let mut x = st.order as u64;
        for i in (1..idx.len()).rev() {
            x = x.wrapping_mul(6364136223846793005).wrapping_add(1442695040888963407);
            let j = ((x >> 33) % (i as u64 + 1)) as usize;
            idx.swap(i, j);
        }
    }
    let sep = [" ", "  ", "\n", "\t "][st.sep as usize & 3];
    let eq = ["=", " =", "= ", " = "][st.eq as usize & 3];
    let q = if st.quote == 1 { '\'' } else { '"' };
    for i in idx {
        out.push_str(sep);
        out.push_str(&attrs[i].0);
        out.push_str(eq);
        out.push(q);
        out.push_str(&attrs[i].1);
        out.push(q);
    }
    if st.sep == 3 && !attrs.is_empty() {
        out.push(' ');
    }
}

/// A paragraph's text with its blanks written as `text:s` elements. `mode` 1: every run of blanks becomes one
/// `<text:s text:c="n"/>` (`text:c` omitted for a single blank); 2: the first blank of a run stays a character,
/// the rest becomes a `text:s`; anything else: plain text.
pub fn paragraph_xml(p: &str, mode: u8, st: AttrStyle) -> String {
    if mode != 1 && mode != 2 {
        return escape_text(p);
    }
    let mut out = String::new();
    let chars: Vec<char> = p.chars().collect();
    let mut i = 0;
    while i < chars.len() {
        if chars[i] == ' ' {
            let mut j = i;
            while j < chars.len() && chars[j] == ' ' {
                j += 1;
            }
            let mut n = j - i;
            if mode == 2 {
                out.push(' ');
                n -= 1;
            }
            if n > 0 {
                out.push_str("<text:s");
                if n > 1 {
                    write_attrs(&mut out, &[("text:c".to_string(), n.to_string())], st);
                }
                out.push_str("/>");
            }
            i = j;
        } else {
            out.push_str(&escape_text(&chars[i].to_string()));
            i += 1;
        }
    }
    out
}

/// Legal spellings of a repeat count `k` in an attribute value. 0: `k`; 1: `+k`; 2: `00k`; 3 / 4: the first digit as
/// a decimal / hexadecimal character reference (`&#51;`, `&#x33;`); 5 / 6: a blank before / after (legal for an
/// xsd:positiveInteger, whose white space is collapsed). The result is attribute-value text (already escaped).
pub fn spell_count(k: usize, spelling: u8) -> String {
    let d = k.to_string();
    match spelling {
        1 => format!("+{d}"),
        2 => format!("00{d}"),
        3 => format!("&#{};{}", d.as_bytes()[0], &d[1..]),
        4 => format!("&#x{:x};{}", d.as_bytes()[0], &d[1..]),
        5 => format!(" {d}"),
        6 => format!("{d} "),
        _ => d,
    }
}

/// the foreign-namespace twin `x:local` of an attribute `prefix:local`
fn twin_name(name: &str) -> String {
    format!("x:{}", name.split_once(':').map(|p| p.1).unwrap_or(name))
}

/// add, for every attribute, a twin with the same local name in a foreign namespace and another value:
/// `mode` bit 1 = before the real attributes, bit 2 = after them
fn add_twins(attrs: &mut Vec<(String, String)>, mode: u8) {
    let other = |name: &str, v: &str| -> String {
        match name.split_once(':').map(|p| p.1).unwrap_or(name) {
            "number-columns-repeated" | "number-rows-repeated" | "number-columns-spanned" | "number-rows-spanned" => "7".into(),
            "value-type" => if v == "string" { "float".into() } else { "string".into() },
            "value" => "99.5".into(),
            "string-value" => "TWIN".into(),
            "boolean-value" => if v == "true" { "false".into() } else { "true".into() },
            "date-value" => "1999-01-01".into(),
            "time-value" => "PT9H".into(),
            "formula" => "of:=TWIN()".into(),
            "name" => "TWIN".into(),
            "c" => "7".into(),
            _ => "twin".into(),
        }
    };
    let twins: Vec<(String, String)> = attrs.iter().map(|(k, v)| (twin_name(k), other(k, v))).collect();
    let mut out = vec![];
    if mode & 1 != 0 {
        out.extend(twins.iter().cloned());
    }
    out.append(attrs);
    if mode & 2 != 0 {
        if mode & 1 != 0 {
            // a second foreign prefix, so that no attribute name occurs twice
            out.extend(twins.iter().map(|(k, v)| (k.replacen("x:", "loext:", 1), v.clone())));
        } else {
            out.extend(twins);
        }
    }
    *attrs = out;
}

/// A table nested in a cell: `kind` 1 = a sub-table (`table:is-sub-table="true"`), 2 = a table inside a `draw:frame`.
/// It holds cells, rows and columns of its own, none of which belongs to the sheet.
pub fn nested_table_xml(kind: u8) -> String {
    let t = "<table:table-column table:number-columns-repeated=\"2\"/><table:table-row table:number-rows-repeated=\"2\"><table:table-cell office:value-type=\"float\" office:value=\"5\"><text:p>5</text:p></table:table-cell><table:table-cell table:number-columns-repeated=\"3\"/><table:covered-table-cell office:value-type=\"string\"><text:p>inner</text:p></table:covered-table-cell></table:table-row><table:table-row><table:table-cell/></table:table-row>";
    match kind {
        1 => format!("<table:table table:name=\"sub\" table:is-sub-table=\"true\">{t}</table:table>"),
        2 => format!("<draw:frame draw:name=\"fr\" svg:width=\"2cm\" svg:height=\"1cm\"><table:table table:name=\"framed\">{t}</table:table></draw:frame>"),
        _ => String::new(),
    }
}

/// What a cell stores (its `office:value-type` and value attribute / `text:p` content).
#[derive(Clone, Debug, PartialEq)]
pub enum OdsVal {
    /// no value attributes at all
    Empty,
    /// `office:value-type="float" office:value="…"`
    Float(f64),
    /// `office:value-type="percentage" office:value="…"`
    Percentage(f64),
    /// `office:value-type="currency" office:value="…"`
    Currency(f64),
    /// `office:value-type="string"`, text in `text:p` paragraphs (split at `\n`)
    Str(String),
    /// `office:value-type="string" office:string-value="…"`
    StrAttr(String),
    /// `office:value-type="boolean" office:boolean-value="true|false"`
    Bool(bool),
    /// `office:value-type="date" office:date-value="…"`
    Date(String),
    /// `office:value-type="time" office:time-value="…"`
    Time(String),
}

impl OdsVal {
    /// the `Data` this value is expected to read back as
    pub fn expected(&self) -> Data {
        match self {
            OdsVal::Empty => Data::Empty,
            OdsVal::Float(f) | OdsVal::Percentage(f) | OdsVal::Currency(f) => Data::Float(*f),
            OdsVal::Str(s) | OdsVal::StrAttr(s) => Data::String(s.clone()),
            OdsVal::Bool(b) => Data::Bool(*b),
            OdsVal::Date(s) => Data::DateTimeIso(s.clone()),
            OdsVal::Time(s) => Data::DurationIso(s.clone()),
        }
    }
    pub fn is_empty(&self) -> bool {
        matches!(self, OdsVal::Empty)
    }
}

/// One `table:table-cell` / `table:covered-table-cell` element (a run of `repeat` identical cells).
#[derive(Clone, Debug, PartialEq)]
pub struct OdsCell {
    pub val: OdsVal,
    /// `table:formula="…"` (e.g. `of:=[.A1]+1`)
    pub formula: Option<String>,
    /// `None`: no `table:number-columns-repeated` attribute (one cell); `Some(k)`: the attribute with value `k`
    pub repeat: Option<usize>,
    /// write a `table:covered-table-cell` instead of a `table:table-cell`
    pub covered: bool,
    /// display text in a `text:p` child for the kinds whose value is in an attribute
    pub display: Option<String>,
    /// `(rows, cols)` spanned: `table:number-rows-spanned` / `table:number-columns-spanned`
    pub span: Option<(usize, usize)>,
    /// when the element has no children: `<…/>` (true) or `<…></…>` (false)
    pub self_closing: bool,
    /// emitted verbatim instead of everything above (for exotic encodings); `repeat` still says how many
    /// columns the element stands for
    pub raw: Option<String>,
    /// an `office:annotation` child (a cell comment) with this text, written before the paragraphs
    pub annotation: Option<String>,
    /// further attributes written verbatim after the element name, e.g. ` table:style-name="ce1"`
    /// (leading space included); must not be value attributes
    pub extra_attrs: String,
    /// `Str("")` only: write the empty paragraph `<text:p></text:p>` (true, the default) or no child at all
    /// (false) — then the string cell is childless and `self_closing` chooses `<…/>` or `<…></…>`; both read
    /// as the empty string
    pub empty_paragraph: bool,
    /// spelling of the element's attributes (quotes, white space, order)
    pub attr_style: AttrStyle,
    /// `Str` only: how blanks are written, see `paragraph_xml` (0 = as characters)
    pub text_s: u8,
    /// spelling of the repeat count, see `spell_count` (0 = plain digits)
    pub repeat_spelling: u8,
    /// a table nested in the cell, see `nested_table_xml` (0 = none). Only meaningful for cells whose value is in
    /// their attributes (or blank cells): the content of such a cell is skipped by a reader
    pub nested: u8,
    /// foreign-namespace twins (`x:value-type`, `x:number-columns-repeated`, …, with other values) of every attribute:
    /// bit 1 = before the real attributes, bit 2 = after them
    pub twins: u8,
}

impl OdsCell {
    pub fn new(val: OdsVal) -> OdsCell {
        OdsCell { val, formula: None, repeat: None, covered: false, display: None, span: None, self_closing: true, raw: None, annotation: None, extra_attrs: String::new(), empty_paragraph: true, attr_style: AttrStyle::default(), text_s: 0, repeat_spelling: 0, nested: 0, twins: 0 }
    }
    pub fn empty() -> OdsCell {
        OdsCell::new(OdsVal::Empty)
    }
    pub fn empty_run(k: usize) -> OdsCell {
        OdsCell::new(OdsVal::Empty).times(k)
    }
    pub fn float(f: f64) -> OdsCell {
        OdsCell::new(OdsVal::Float(f))
    }
    pub fn string(s: &str) -> OdsCell {
        OdsCell::new(OdsVal::Str(s.to_string()))
    }
    pub fn boolean(b: bool) -> OdsCell {
        OdsCell::new(OdsVal::Bool(b))
    }
    pub fn times(mut self, k: usize) -> OdsCell {
        self.repeat = Some(k);
        self
    }
    pub fn with_formula(mut self, f: &str) -> OdsCell {
        self.formula = Some(f.to_string());
        self
    }
    pub fn covered(mut self) -> OdsCell {
        self.covered = true;
        self
    }
    pub fn with_display(mut self, s: &str) -> OdsCell {
        self.display = Some(s.to_string());
        self
    }
    /// number of columns this element stands for
    pub fn count(&self) -> usize {
        self.repeat.unwrap_or(1)
    }
    /// does calamine treat this element as a *pending empty run* (no value and no formula)?
    pub fn is_blank(&self) -> bool {
        self.val.is_empty() && self.formula.as_deref().unwrap_or("").is_empty()
    }
    pub fn xml(&self, out: &mut String) {
        if let Some(r) = &self.raw {
            out.push_str(r);
            return;
        }
        let tag = if self.covered { "table:covered-table-cell" } else { "table:table-cell" };
        out.push('<');
        out.push_str(tag);
        out.push_str(&self.extra_attrs);
        let mut attrs: Vec<(String, String)> = vec![];
        let mut at = |k: &str, v: String| attrs.push((k.to_string(), v));
        if let Some(k) = self.repeat {
            at("table:number-columns-repeated", spell_count(k, self.repeat_spelling));
        }
        if let Some((r, c)) = self.span {
            at("table:number-columns-spanned", c.to_string());
            at("table:number-rows-spanned", r.to_string());
        }
        if let Some(f) = &self.formula {
            at("table:formula", escape_attr(f));
        }
        let mut body = String::new();
        if let Some(a) = &self.annotation {
            body.push_str("<office:annotation office:name=\"__Annotation__1\"><dc:date>2021-01-01T00:00:00</dc:date><text:p>");
            body.push_str(&escape_text(a));
            body.push_str("</text:p></office:annotation>");
        }
        match &self.val {
            OdsVal::Empty => {}
            OdsVal::Float(f) => {
                at("office:value-type", "float".into());
                at("office:value", fmt_f64(*f));
            }
            OdsVal::Percentage(f) => {
                at("office:value-type", "percentage".into());
                at("office:value", fmt_f64(*f));
            }
            OdsVal::Currency(f) => {
                at("office:value-type", "currency".into());
                at("office:currency", "EUR".into());
                at("office:value", fmt_f64(*f));
            }
            OdsVal::Str(s) => {
                at("office:value-type", "string".into());
                let paras: Vec<&str> = if s.is_empty() && !self.empty_paragraph { vec![] } else { s.split('\n').collect() };
                for p in paras {
                    body.push_str("<text:p>");
                    body.push_str(&paragraph_xml(p, self.text_s, self.attr_style));
                    body.push_str(&end_tag("text:p", self.attr_style));
                }
            }
            OdsVal::StrAttr(s) => {
                at("office:value-type", "string".into());
                at("office:string-value", escape_attr(s));
            }
            OdsVal::Bool(b) => {
                at("office:value-type", "boolean".into());
                at("office:boolean-value", b.to_string());
            }
            OdsVal::Date(s) => {
                at("office:value-type", "date".into());
                at("office:date-value", escape_attr(s));
            }
            OdsVal::Time(s) => {
                at("office:value-type", "time".into());
                at("office:time-value", escape_attr(s));
            }
        }
        if self.twins != 0 {
            if attrs.is_empty() {
                // a blank cell: twins of the attributes a value cell would carry
                attrs.push(("office:value-type".into(), "void".into()));
                attrs.push(("office:value".into(), "0".into()));
                add_twins(&mut attrs, self.twins);
                attrs.retain(|(k, _)| !k.starts_with("office:"));
            } else {
                add_twins(&mut attrs, self.twins);
            }
        }
        write_attrs(out, &attrs, self.attr_style);
        if !matches!(self.val, OdsVal::Str(_)) {
            body.push_str(&nested_table_xml(self.nested));
        }
        if !matches!(self.val, OdsVal::Str(_)) {
            if let Some(d) = &self.display {
                body.push_str("<text:p>");
                body.push_str(&escape_text(d));
                body.push_str("</text:p>");
            }
        }
        if body.is_empty() && self.self_closing {
            out.push_str("/>");
        } else {
            out.push('>');
            out.push_str(&body);
            out.push_str(&end_tag(tag, self.attr_style));
        }
    }
}

/// One `table:table-row` element (a run of `repeat` identical rows).
#[derive(Clone, Debug, PartialEq)]
pub struct RowRun {
    /// `None`: no `table:number-rows-repeated` attribute (one row); `Some(k)`: the attribute with value `k`
    pub repeat: Option<usize>,
    pub cells: Vec<OdsCell>,
    /// row container elements opened immediately before this row (outermost first); they stay open until a
    /// later row's `close` (or the end of the table, where the writer closes what is still open)
    pub open: Vec<RowWrap>,
    /// number of open row containers closed immediately after this row (innermost first)
    pub close: usize,
    /// `table:visibility="…"` (`collapse`, `filter`, `visible`)
    pub visibility: Option<String>,
    /// a `<text:soft-page-break/>` element before the row
    pub soft_break_before: bool,
    /// further attributes written verbatim (leading space included), e.g. ` table:style-name="ro1"`
    pub extra_attrs: String,
    /// a row without cell elements is written `<table:table-row …/>` instead of `<table:table-row …></table:table-row>`
    pub self_closing: bool,
    /// spelling of the element's attributes (quotes, white space, order)
    pub attr_style: AttrStyle,
    /// spelling of the repeat count, see `spell_count`
    pub repeat_spelling: u8,
    /// foreign-namespace twins of the row's attributes (bit 1 before, bit 2 after)
    pub twins: u8,
}

/// Elements of ODF 1.2 that merely group rows (none of them changes any cell position)
#[derive(Clone, Copy, Debug, PartialEq, Eq)]
pub enum RowWrap {
    /// `table:table-row-group` (outline group; may nest and may contain the two below)
    Group,
    /// `table:table-header-rows`
    HeaderRows,
    /// `table:table-rows`
    Rows,
}

impl RowWrap {
    pub fn tag(self) -> &'static str {
        match self {
            RowWrap::Group => "table:table-row-group",
            RowWrap::HeaderRows => "table:table-header-rows",
            RowWrap::Rows => "table:table-rows",
        }
    }
}

impl RowRun {
    pub fn new(cells: Vec<OdsCell>) -> RowRun {
        RowRun { repeat: None, cells, open: vec![], close: 0, visibility: None, soft_break_before: false, extra_attrs: String::new(), self_closing: false, attr_style: AttrStyle::default(), repeat_spelling: 0, twins: 0 }
    }
    pub fn times(mut self, k: usize) -> RowRun {
        self.repeat = Some(k);
        self
    }
    pub fn count(&self) -> usize {
        self.repeat.unwrap_or(1)
    }
    /// the row element alone (without its `open` / `close` containers)
    pub fn xml(&self, out: &mut String) {
        if self.soft_break_before {
            out.push_str("<text:soft-page-break/>");
        }
        out.push_str("<table:table-row");
        out.push_str(&self.extra_attrs);
        let mut attrs: Vec<(String, String)> = vec![];
        if let Some(v) = &self.visibility {
            attrs.push(("table:visibility".into(), escape_attr(v)));
        }
        if let Some(k) = self.repeat {
            attrs.push(("table:number-rows-repeated".into(), spell_count(k, self.repeat_spelling)));
        }
        if self.twins != 0 {
            add_twins(&mut attrs, self.twins);
        }
        write_attrs(out, &attrs, self.attr_style);
        if self.cells.is_empty() && self.self_closing {
            out.push_str("/>");
            return;
        }
        out.push('>');
        for c in &self.cells {
            c.xml(out);
        }
        out.push_str(&end_tag("table:table-row", self.attr_style));
    }
}

#[derive(Clone, Debug, PartialEq)]
pub struct OdsSheet {
    pub name: String,
    pub rows: Vec<RowRun>,
    /// `Some(v)`: the table gets an automatic style whose `table:display` is `v`; `None`: no style
    pub display: Option<bool>,
    /// write `<table:table-column …/>` declarations before the rows (ignored by calamine)
    pub columns_decl: Option<usize>,
    /// verbatim XML right after the `<table:table …>` start tag, before the rows: `table:table-source`,
    /// `office:forms`, `table:shapes`, column declarations with their `table:table-columns` /
    /// `table:table-header-columns` / `table:table-column-group` wrappers (see `columns_xml`)
    pub prelude: String,
    /// verbatim XML after the last row, before `</table:table>` (sheet-local `table:named-expressions`,
    /// `calcext:conditional-formats` …)
    pub postlude: String,
    /// further attributes of the `table:table` element, verbatim with leading space (` table:protected="true"`)
    pub extra_attrs: String,
    /// a table without any child (no rows, no prelude / postlude / column declarations) is written
    /// `<table:table …/>`
    pub self_closing: bool,
    /// spelling of the `table:table` element's attributes (`table:name`, `table:style-name`)
    pub attr_style: AttrStyle,
    /// foreign-namespace twins (`x:name="TWIN"` …) of the table's attributes (bit 1 before, bit 2 after)
    pub twins: u8,
}

/// Column declarations for `n` columns in one of the legal ODF shapes; `shape` is taken modulo the number of
/// shapes: plain repeated column, several columns, `table:table-columns`, `table:table-header-columns` followed
/// by plain columns, nested `table:table-column-group`s, and a mixture with hidden columns and cell styles.
pub fn columns_xml(shape: usize, n: usize) -> String {
    let n = n.max(1);
    let col = |k: usize, extra: &str| {
        if k == 1 {
            format!("<table:table-column table:style-name=\"co1\"{extra}/>")
        } else {
            format!("<table:table-column table:style-name=\"co1\" table:number-columns-repeated=\"{k}\"{extra}/>")
        }
    };
    let (a, b) = (n.div_ceil(2), n / 2);
    let second = if b > 0 { col(b, "") } else { String::new() };
    match shape % 6 {
        0 => col(n, ""),
        1 => format!("{}{}", col(a, " table:default-cell-style-name=\"Default\""), second),
        2 => format!("<table:table-columns>{}{}</table:table-columns>", col(a, ""), second),
        3 => format!("<table:table-header-columns>{}</table:table-header-columns>{}", col(a, ""), second),
        4 => format!(
            "<table:table-column-group><table:table-column-group table:display=\"false\">{}</table:table-column-group>{}</table:table-column-group>",
            col(a, " table:visibility=\"collapse\""),
            second
        ),
        _ => format!(
            "<table:table-column-group><table:table-header-columns>{}</table:table-header-columns><table:table-columns>{}</table:table-columns></table:table-column-group>{}",
            col(1, ""),
            col(a, ""),
            second
        ),
    }
}

/// A `table:shapes` element (drawing objects anchored to the sheet) holding a text box with a paragraph
pub fn shapes_xml(text: &str) -> String {
    format!(
        "<table:shapes><draw:frame draw:z-index=\"0\" svg:width=\"3cm\" svg:height=\"1cm\" svg:x=\"1cm\" svg:y=\"1cm\"><draw:text-box><text:p>{}</text:p></draw:text-box></draw:frame></table:shapes>",
        escape_text(text)
    )
}

/// sparse expansion of a sheet: `(row, col) -> (value, formula)`, entries only where the value or the
/// formula is non-empty
pub type Grid = BTreeMap<(u64, u64), (Data, String)>;

impl OdsSheet {
    pub fn new(name: &str, rows: Vec<RowRun>) -> OdsSheet {
        OdsSheet { name: name.to_string(), rows, display: None, columns_decl: None, prelude: String::new(), postlude: String::new(), extra_attrs: String::new(), self_closing: false, attr_style: AttrStyle::default(), twins: 0 }
    }
    /// Semantic expansion of the runs. Blank runs are skipped without being enumerated, so huge blank
    /// repeats are cheap; a repeated non-blank row/cell is enumerated.
    pub fn grid(&self) -> Grid {
        let mut g = Grid::new();
        let mut r = 0u64;
        for row in &self.rows {
            let k = row.count() as u64;
            if row.cells.iter().all(|c| c.is_blank() || c.count() == 0) {
                r += k;
                continue;
            }
            for dr in 0..k {
                let mut c = 0u64;
                for cell in &row.cells {
                    let n = cell.count() as u64;
                    if !cell.is_blank() {
                        for dc in 0..n {
                            g.insert((r + dr, c + dc), (cell.val.expected(), cell.formula.clone().unwrap_or_default()));
                        }
                    }
                    c += n;
                }
            }
            r += k;
        }
        g
    }
}

#[derive(Clone, Debug, Default, PartialEq)]
pub struct OdsBook {
    pub sheets: Vec<OdsSheet>,
    /// `(name, range-or-expression)` written as `table:named-range` elements
    pub named_ranges: Vec<(String, String)>,
    /// add a `manifest:encryption-data` entry to the manifest (calamine then reports `Password`)
    pub encrypted: bool,
    /// store `content.xml` uncompressed
    pub stored: bool,
    /// encoding `content.xml` declares and is written in: `None` = UTF-8; `Some("ISO-8859-1")` /
    /// `Some("windows-1252")` (both are windows-1252 for an encoding-aware XML reader) — see `encode_single_byte`
    pub encoding: Option<&'static str>,
}

const NS: &str = "xmlns:office=\"urn:oasis:names:tc:opendocument:xmlns:office:1.0\" \
xmlns:style=\"urn:oasis:names:tc:opendocument:xmlns:style:1.0\" \
xmlns:text=\"urn:oasis:names:tc:opendocument:xmlns:text:1.0\" \
xmlns:table=\"urn:oasis:names:tc:opendocument:xmlns:table:1.0\" \
xmlns:of=\"urn:oasis:names:tc:opendocument:xmlns:of:1.2\" \
xmlns:draw=\"urn:oasis:names:tc:opendocument:xmlns:drawing:1.0\" \
xmlns:svg=\"urn:oasis:names:tc:opendocument:xmlns:svg-compatible:1.0\" \
xmlns:form=\"urn:oasis:names:tc:opendocument:xmlns:form:1.0\" \
xmlns:dc=\"http://purl.org/dc/elements/1.1/\" \
xmlns:xlink=\"http://www.w3.org/1999/xlink\" \
xmlns:calcext=\"urn:org:documentfoundation:names:experimental:calc:xmlns:calcext:1.0\" \
xmlns:loext=\"urn:org:documentfoundation:names:experimental:office:xmlns:loext:1.0\" \
xmlns:x=\"urn:example:foreign-namespace\"";

pub const MIMETYPE: &str = "application/vnd.oasis.opendocument.spreadsheet";

impl OdsBook {
    pub fn new(sheets: Vec<OdsSheet>) -> OdsBook {
        OdsBook { sheets, ..Default::default() }
    }
    pub fn content_xml(&self) -> String {
        let mut x = String::new();
        x.push_str(&format!("<?xml version=\"1.0\" encoding=\"{}\"?>", self.encoding.unwrap_or("UTF-8")));
        x.push_str(&format!("<office:document-content {NS} office:version=\"1.2\">"));
        x.push_str("<office:automatic-styles>");
        for (i, s) in self.sheets.iter().enumerate() {
            if let Some(v) = s.display {
                x.push_str(&format!(
                    "<style:style style:name=\"ta{}\" style:family=\"table\"><style:table-properties table:display=\"{}\"/></style:style>",
                    i + 1,
                    v
                ));
            }
        }
        x.push_str("</office:automatic-styles><office:body><office:spreadsheet>");
        for (i, s) in self.sheets.iter().enumerate() {
            x.push_str("<table:table");
            let mut attrs: Vec<(String, String)> = vec![("table:name".into(), escape_attr(&s.name))];
            if s.display.is_some() {
                attrs.push(("table:style-name".into(), format!("ta{}", i + 1)));
            }
            if s.twins != 0 {
                add_twins(&mut attrs, s.twins);
            }
            write_attrs(&mut x, &attrs, s.attr_style);
            x.push_str(&s.extra_attrs);
            if s.self_closing && s.rows.is_empty() && s.prelude.is_empty() && s.postlude.is_empty() && s.columns_decl.is_none() {
                x.push_str("/>");
                continue;
            }
            x.push('>');
            x.push_str(&s.prelude);
            if let Some(n) = s.columns_decl {
                x.push_str(&format!("<table:table-column table:number-columns-repeated=\"{n}\"/>"));
            }
            let mut open: Vec<RowWrap> = vec![];
            for r in &s.rows {
                for w in &r.open {
                    x.push_str(&format!("<{}>", w.tag()));
                    open.push(*w);
                }
                r.xml(&mut x);
                for _ in 0..r.close {
                    if let Some(w) = open.pop() {
                        x.push_str(&format!("</{}>", w.tag()));
                    }
                }
            }
            while let Some(w) = open.pop() {
                x.push_str(&format!("</{}>", w.tag()));
            }
            x.push_str(&s.postlude);
            x.push_str(&end_tag("table:table", s.attr_style));
        }
        if !self.named_ranges.is_empty() {
            x.push_str("<table:named-expressions>");
            for (n, a) in &self.named_ranges {
                x.push_str(&format!(
                    "<table:named-range table:name=\"{}\" table:cell-range-address=\"{}\"/>",
                    escape_attr(n),
                    escape_attr(a)
                ));
            }
            x.push_str("</table:named-expressions>");
        }
        x.push_str("</office:spreadsheet></office:body></office:document-content>");
        x
    }
    pub fn manifest_xml(&self) -> String {
        let mut m = String::from(
            "<?xml version=\"1.0\" encoding=\"UTF-8\"?><manifest:manifest xmlns:manifest=\"urn:oasis:names:tc:opendocument:xmlns:manifest:1.0\" manifest:version=\"1.2\">",
        );
        m.push_str(&format!("<manifest:file-entry manifest:full-path=\"/\" manifest:version=\"1.2\" manifest:media-type=\"{MIMETYPE}\"/>"));
        if self.encrypted {
            m.push_str("<manifest:file-entry manifest:full-path=\"content.xml\" manifest:media-type=\"text/xml\" manifest:size=\"100\"><manifest:encryption-data manifest:checksum-type=\"urn:oasis:names:tc:opendocument:xmlns:manifest:1.0#sha256-1k\" manifest:checksum=\"AAAA\"><manifest:algorithm manifest:algorithm-name=\"http://www.w3.org/2001/04/xmlenc#aes256-cbc\" manifest:initialisation-vector=\"AAAA\"/></manifest:encryption-data></manifest:file-entry>");
        } else {
            m.push_str("<manifest:file-entry manifest:full-path=\"content.xml\" manifest:media-type=\"text/xml\"/>");
        }
        m.push_str("</manifest:manifest>");
        m
    }
    /// the `.ods` file
    /// the bytes of `content.xml`: the text of `content_xml()` in the declared encoding
    pub fn content_bytes(&self) -> Vec<u8> {
        match self.encoding {
            None => self.content_xml().into_bytes(),
            Some(_) => encode_single_byte(&self.content_xml()),
        }
    }
    pub fn to_bytes(&self) -> Vec<u8> {
        zip_parts_bytes(&self.manifest_xml(), &self.content_bytes(), self.stored)
    }
}

/// windows-1252 bytes 0x80..=0x9F (what the labels ISO-8859-1 / latin1 / windows-1252 all mean to an encoding-aware
/// reader); 0 = the byte is a C1 control there
const CP1252_HIGH: [u16; 32] = [
    0x20AC, 0, 0x201A, 0x0192, 0x201E, 0x2026, 0x2020, 0x2021, 0x02C6, 0x2030, 0x0160, 0x2039, 0x0152, 0, 0x017D, 0, 0, 0x2018, 0x2019, 0x201C,
    0x201D, 0x2022, 0x2013, 0x2014, 0x02DC, 0x2122, 0x0161, 0x203A, 0x0153, 0, 0x017E, 0x0178,
];

/// the windows-1252 byte of a character, if it has one (ASCII, U+00A0..=U+00FF, the 27 characters of 0x80..=0x9F)
pub fn cp1252_byte(c: char) -> Option<u8> {
    let u = c as u32;
    if u < 0x80 || (0xA0..=0xFF).contains(&u) {
        return Some(u as u8);
    }
    CP1252_HIGH.iter().position(|&x| x != 0 && x as u32 == u).map(|i| 0x80 + i as u8)
}

/// XML text in windows-1252: one byte per character the code page has, `&#xN;` for the others (legal inside
/// attribute values and character data, which is where the generated documents have such characters)
pub fn encode_single_byte(xml: &str) -> Vec<u8> {
    let mut out = Vec::with_capacity(xml.len());
    for c in xml.chars() {
        match cp1252_byte(c) {
            Some(b) => out.push(b),
            None => out.extend_from_slice(format!("&#x{:X};", c as u32).as_bytes()),
        }
    }
    out
}

/// zip the three parts of an ods package (`mimetype` first and stored)
pub fn zip_parts(manifest: &str, content: &str, stored: bool) -> Vec<u8> {
    zip_parts_bytes(manifest, content.as_bytes(), stored)
}

/// same with `content.xml` given as bytes (a document in another encoding than UTF-8)
pub fn zip_parts_bytes(manifest: &str, content: &[u8], stored: bool) -> Vec<u8> {
    use zip::write::SimpleFileOptions;
    use zip::CompressionMethod;
    let mut z = zip::ZipWriter::new(Cursor::new(Vec::new()));
    let st = SimpleFileOptions::default().compression_method(CompressionMethod::Stored);
    let de = SimpleFileOptions::default().compression_method(if stored { CompressionMethod::Stored } else { CompressionMethod::Deflated });
    z.start_file("mimetype", st).unwrap();
    z.write_all(MIMETYPE.as_bytes()).unwrap();
    z.start_file("META-INF/manifest.xml", de).unwrap();
    z.write_all(manifest.as_bytes()).unwrap();
    z.start_file("content.xml", de).unwrap();
    z.write_all(content).unwrap();
    z.finish().unwrap().into_inner()
}

/// shortest decimal text that parses back to the same `f64` (finite values)
pub fn fmt_f64(f: f64) -> String {
    format!("{f:?}")
}

pub fn escape_text(s: &str) -> String {
    let mut o = String::with_capacity(s.len());
    for ch in s.chars() {
        match ch {
            '&' => o.push_str("&amp;"),
            '<' => o.push_str("&lt;"),
            '>' => o.push_str("&gt;"),
            '\r' => o.push_str("&#13;"),
            c => o.push(c),
        }
    }
    o
}

pub fn escape_attr(s: &str) -> String {
    let mut o = String::with_capacity(s.len());
    for ch in s.chars() {
        match ch {
            '&' => o.push_str("&amp;"),
            '<' => o.push_str("&lt;"),
            '>' => o.push_str("&gt;"),
            '"' => o.push_str("&quot;"),
            '\'' => o.push_str("&apos;"),
            '\n' => o.push_str("&#10;"),
            '\r' => o.push_str("&#13;"),
            '\t' => o.push_str("&#9;"),
            c => o.push(c),
        }
    }
    o
}

#[cfg(test)]
mod tests {
    use super::*;
    use calamine::{Ods, Reader};

    #[test]
    fn opens() {
        let rows = vec![
            RowRun::new(vec![OdsCell::float(7.0), OdsCell::empty_run(1), OdsCell::float(1.5), OdsCell::string("a<b&c\nd  e")]),
            RowRun::new(vec![OdsCell::empty_run(16384)]).times(3),
            RowRun::new(vec![
                OdsCell::empty().covered(),
                OdsCell::boolean(true).times(2),
                OdsCell::new(OdsVal::Date("2020-01-02T03:04:05".into())),
                OdsCell::new(OdsVal::Time("PT12H30M".into())),
                OdsCell::new(OdsVal::Percentage(0.25)).with_display("25 %"),
                OdsCell::new(OdsVal::Currency(-3.0)),
                OdsCell::new(OdsVal::StrAttr("x\"y".into())),
                OdsCell::float(2.0).with_formula("of:=[.A1]+1"),
                OdsCell::empty_run(1000),
            ]),
            RowRun::new(vec![OdsCell::empty_run(1024)]).times(1_048_000),
        ];
        let mut rows = rows;
        rows[0].open = vec![RowWrap::HeaderRows];
        rows[0].close = 1;
        rows[1].open = vec![RowWrap::Group, RowWrap::Group];
        rows[1].close = 1;
        rows[2].open = vec![RowWrap::Rows];
        rows[2].visibility = Some("collapse".into());
        rows[2].soft_break_before = true;
        rows[2].cells[1].annotation = Some("a note".into());
        rows[2].cells[1].extra_attrs = " table:style-name=\"ce1\" calcext:value-type=\"boolean\"".into();
        let mut book = OdsBook::new(vec![OdsSheet::new("S 1", rows), OdsSheet::new("empty", vec![])]);
        book.sheets[1].self_closing = true;
        book.sheets[0].prelude = format!("<table:table-source table:mode=\"copy-all\" xlink:href=\"x.ods\"/>{}{}", shapes_xml("in a shape"), columns_xml(5, 9));
        book.sheets[0].postlude = "<table:named-expressions><table:named-range table:name=\"loc\" table:cell-range-address=\"$'S 1'.$A$1\"/></table:named-expressions>".into();
        book.sheets[0].extra_attrs = " table:protected=\"true\" table:print=\"false\"".into();
        book.sheets[1].display = Some(false);
        book.named_ranges.push(("nm".into(), "$'S 1'.$A$1".into()));
        let grid = book.sheets[0].grid();
        let mut ods: Ods<_> = Ods::new(Cursor::new(book.to_bytes())).expect("open");
        let r = ods.worksheet_range("S 1").unwrap();
        assert_eq!(r.start(), Some((0, 0)));
        assert_eq!(r.end(), Some((4, 8)));
        for ((row, col), (v, _)) in &grid {
            assert_eq!(r.get_value((*row as u32, *col as u32)), Some(v), "at {row},{col}");
        }
        assert_eq!(ods.worksheet_formula("S 1").unwrap().get_value((4, 8)), Some(&"of:=[.A1]+1".to_string()));
        assert!(ods.worksheet_range("empty").unwrap().is_empty());
        assert_eq!(ods.defined_names().len(), 1);
        let mut enc = book.clone();
        enc.encrypted = true;
        assert!(matches!(Ods::new(Cursor::new(enc.to_bytes())), Err(calamine::OdsError::Password)));
    }

    #[test]
    fn attribute_spellings_and_text_s() {
        for code in [0u32, 1, 2, 4, 6, 8, 16, 24, 31, 32 * 7 + 5, 32 * 12345 + 30] {
            let st = AttrStyle::from_code(code);
            assert_eq!(st.code(), code);
            let long = format!("a{}b c  d", " ".repeat(40));
            let mut c1 = OdsCell::empty_run(3);
            c1.attr_style = st;
            let mut c2 = OdsCell::float(1.5).times(2).with_formula("of:=1<2");
            c2.attr_style = st;
            let mut c3 = OdsCell::string(&long);
            c3.attr_style = st;
            c3.text_s = 1 + (code % 2) as u8;
            let mut row = RowRun::new(vec![c1, c2, c3]).times(2);
            row.attr_style = st;
            row.visibility = Some("collapse".into());
            let mut sheet = OdsSheet::new("S'1", vec![RowRun::new(vec![]).times(3), row]);
            sheet.attr_style = st;
            sheet.display = Some(true);
            let book = OdsBook::new(vec![sheet]);
            let mut ods: Ods<_> = Ods::new(Cursor::new(book.to_bytes())).unwrap_or_else(|e| panic!("open {code}: {e:?}\n{}", book.content_xml()));
            let r = ods.worksheet_range("S'1").unwrap();
            assert_eq!((r.start(), r.end()), (Some((3, 3)), Some((4, 5))), "style {code}");
            assert_eq!(r.get_value((4, 4)), Some(&Data::Float(1.5)));
            assert_eq!(r.get_value((3, 5)), Some(&Data::String(long.clone())), "style {code}: {}", book.content_xml());
            assert_eq!(ods.worksheet_formula("S'1").unwrap().get_value((3, 3)), Some(&"of:=1<2".to_string()));
        }
    }

    #[test]
    fn twins_nested_tables_count_spellings() {
        for (sp, tw, ne) in [(1u8, 1u8, 1u8), (2, 2, 2), (0, 3, 1), (1, 3, 2)] {
            let mut blank = OdsCell::empty_run(3);
            blank.repeat_spelling = sp;
            blank.twins = tw;
            blank.nested = ne;
            let mut f = OdsCell::float(1.5).times(2).with_formula("of:=1");
            f.repeat_spelling = sp;
            f.twins = tw;
            f.nested = ne;
            let mut b = OdsCell::boolean(true);
            b.twins = tw;
            b.nested = ne;
            let mut t = OdsCell::string("txt");
            t.twins = tw;
            let mut row = RowRun::new(vec![blank, f, b, t]).times(2);
            row.repeat_spelling = sp;
            row.twins = tw;
            let mut lead = RowRun::new(vec![]).times(4);
            lead.repeat_spelling = 3; // rows: a character reference is unescaped
            let mut sheet = OdsSheet::new("S", vec![lead, row, RowRun::new(vec![OdsCell::float(2.0)])]);
            sheet.twins = tw;
            let book = OdsBook::new(vec![sheet]);
            let mut ods: Ods<_> = Ods::new(Cursor::new(book.to_bytes())).unwrap_or_else(|e| panic!("open: {e:?}\n{}", book.content_xml()));
            assert_eq!(ods.sheet_names(), vec!["S".to_string()]);
            let r = ods.worksheet_range("S").unwrap();
            assert_eq!((r.start(), r.end()), (Some((4, 0)), Some((6, 6))), "{}", book.content_xml());
            assert_eq!(r.get_value((5, 4)), Some(&Data::Float(1.5)));
            assert_eq!(r.get_value((5, 5)), Some(&Data::Bool(true)));
            assert_eq!(r.get_value((4, 6)), Some(&Data::String("txt".into())));
            assert_eq!(r.get_value((6, 0)), Some(&Data::Float(2.0)));
            assert_eq!(ods.worksheet_formula("S").unwrap().get_value((4, 3)), Some(&"of:=1".to_string()));
        }
    }

    #[test]
    fn childless_forms() {
        let mut e = OdsCell::string("");
        e.empty_paragraph = false; // <table:table-cell office:value-type="string"/>
        let mut e2 = e.clone();
        e2.self_closing = false;
        let mut blank = RowRun::new(vec![]);
        blank.self_closing = true;
        let book = OdsBook::new(vec![OdsSheet::new("S", vec![RowRun::new(vec![e, OdsCell::float(2.0), e2.times(2), OdsCell::float(3.0)]), blank, RowRun::new(vec![OdsCell::float(4.0)])])]);
        assert!(book.content_xml().contains("<table:table-cell office:value-type=\"string\"/><table:table-cell office:value-type=\"float\""));
        assert!(book.content_xml().contains("<table:table-row/>"));
        let mut ods: Ods<_> = Ods::new(Cursor::new(book.to_bytes())).expect("open");
        let r = ods.worksheet_range("S").unwrap();
        assert_eq!(r.get_size(), (3, 5));
        assert_eq!(r.get_value((0, 0)), Some(&Data::String(String::new())));
        assert_eq!(r.get_value((0, 1)), Some(&Data::Float(2.0)));
        assert_eq!(r.get_value((0, 3)), Some(&Data::String(String::new())));
        assert_eq!(r.get_value((0, 4)), Some(&Data::Float(3.0)));
        assert_eq!(r.get_value((2, 0)), Some(&Data::Float(4.0)));
    }
}
