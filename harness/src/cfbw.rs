//! Compound-file (MS-CFB / OLE2) writer with a random but valid physical layout.
//! Port of design-notes/fuzz-prototypes/cfbw.py. Shared by every harness binary that has to wrap
//! streams (xls `Workbook`, VBA projects, encrypted packages) into a container.
//!
//! ```ignore
//! let bytes = write_cfb(&[("Workbook".into(), biff)], &CfbOpts::default(), &mut rng);      // plain v3 file
//! let bytes = write_cfb(&streams, &CfbOpts::random(&mut rng), &mut rng);                  // every knob random
//! ```
//! Streams shorter than 4096 bytes go to the mini stream (64-byte mini sectors, mini FAT), the others
//! to regular sector chains, exactly as the format demands. The directory is flat (calamine looks
//! streams up by name only): entry 0 is `Root Entry`, then one stream entry per stream.
use crate::rng::Rng;

pub const ENDOFCHAIN: u32 = 0xFFFF_FFFE;
pub const FREESECT: u32 = 0xFFFF_FFFF;
pub const FATSECT: u32 = 0xFFFF_FFFD;
pub const DIFSECT: u32 = 0xFFFF_FFFC;

#[derive(Clone, Debug)]
pub struct CfbOpts {
    /// 512 (version 3) or 4096 (version 4)
    pub sector_size: usize,
    /// random permutation of the sector numbers (fragmented, out-of-order chains); false = sequential
    pub shuffle: bool,
    /// random permutation of the mini-sector numbers
    pub mini_shuffle: bool,
    /// number of additional free (unallocated) sectors
    pub extra_free: usize,
    /// number of additional unused directory entries
    pub unused_dirs: usize,
    /// random order of the directory entries after the root entry
    pub dir_shuffle: bool,
    /// lower bound for the number of FAT sectors (more than 109 forces DIFAT sectors even for small files)
    pub min_fat_sectors: usize,
    /// byte used for padding (sector tails, free sectors)
    pub fill: u8,
    /// fill the rest of the 64-byte name field of every used directory entry, AFTER the UTF-16 NUL terminator,
    /// with stale non-zero code units (what a recycled directory entry leaves behind: the tail of a longer
    /// earlier name). MS-CFB makes the name-length field (kept exact here) authoritative and does not
    /// constrain the bytes behind the terminator. calamine's `Directory::from_slice` ignores the length field
    /// and cuts the decoded name at the FIRST NUL, so the garbage must — and here always does — come after a
    /// NUL. Names of 31 units leave no room (terminator only). The container layout is not affected by this
    /// knob (the garbage is drawn from a side generator).
    pub name_garbage: bool,
    /// where the sector numbers start when `shuffle` is off (and a transformation of the permutation when it is
    /// on): 0 = FAT, DIFAT, chains in this order from sector 0 (tables at the start of the file); 1 = the same
    /// order from the LAST sector downwards (tables at the end, every chain descending); 2 = rotated by half the
    /// file (tables in the middle). `random()` leaves it at 0.
    pub placement: u8,
    /// allocate the directory chain right after the FAT/DIFAT sectors instead of last. `random()` leaves it off.
    pub dir_first: bool,
    /// take the `extra_free` free sectors right AFTER the FAT/DIFAT sectors (before the chains) instead of leaving
    /// them at the end of the allocation order: with `placement` 0 and no shuffle the tables are at the front of
    /// the file and every chain (the directory last) at the very END of the sector range, i.e. in the part of the
    /// allocation table that only the LAST FAT sector(s) cover. With `extra_free_for_fat_sectors` this builds files
    /// with an exact number of FAT sectors (237 = 109 + 128: the first count for which the DIFAT walk needs the
    /// link of a second DIFAT sector). `random()` leaves it off.
    pub free_after_tables: bool,
    /// over-allocated chains: every non-empty stream gets this many spare sectors (regular streams) / mini sectors
    /// (streams below 4096 bytes) linked BEHIND the sectors its size needs; the size field stays exact. Legal per
    /// MS-CFB (the size is authoritative; editors that shrink a stream in place leave such chains behind).
    /// `random()` leaves it at 0.
    pub spare_sectors: usize,
    /// unpadded mini stream: the root entry's size is the offset just behind the last byte of stream data in the mini
    /// stream instead of a multiple of 64 (the mini stream's own sector chain is unchanged: whole sectors). The last
    /// mini sector in use is then only partly inside the declared size. `random()` leaves it off.
    pub unpadded_root: bool,
}

impl Default for CfbOpts {
    fn default() -> CfbOpts {
        CfbOpts { sector_size: 512, shuffle: false, mini_shuffle: false, extra_free: 0, unused_dirs: 0, dir_shuffle: false, min_fat_sectors: 0, fill: 0, name_garbage: false, placement: 0, dir_first: false, free_after_tables: false, spare_sectors: 0, unpadded_root: false }
    }
}

impl CfbOpts {
    /// every knob random; DIFAT sectors in about one file out of eight
    pub fn random(rng: &mut Rng) -> CfbOpts {
        // drawn from a copy of the state: the caller's random stream is the same as before this knob existed
        let name_garbage = Rng(rng.0 ^ 0x6E61_6D65_5F67_6172).chance(1, 3);
        let v4 = rng.chance(1, 3);
        CfbOpts {
            placement: 0,
            dir_first: false,
            free_after_tables: false,
            spare_sectors: 0,
            unpadded_root: false,
            name_garbage,
            sector_size: if v4 { 4096 } else { 512 },
            shuffle: rng.chance(3, 4),
            mini_shuffle: rng.chance(3, 4),
            extra_free: if rng.chance(1, 2) { rng.below(6) as usize } else { 0 },
            unused_dirs: if rng.chance(1, 2) { rng.below(6) as usize } else { 0 },
            dir_shuffle: rng.chance(1, 2),
            min_fat_sectors: if rng.chance(1, 8) { 110 + rng.below(if v4 { 3 } else { 200 }) as usize } else { 0 },
            fill: if rng.chance(1, 2) { 0 } else { rng.next() as u8 },
        }
    }
}

/// one 128-byte directory entry (`typ`: 5 root, 2 stream, 0 unused)
pub fn dir_entry(name: &str, typ: u8, start: u32, size: u64) -> Vec<u8> {
    let mut units: Vec<u16> = name.encode_utf16().collect();
    assert!(units.len() <= 31, "directory entry names hold at most 31 UTF-16 units");
    units.push(0);
    let mut e = Vec::with_capacity(128);
    for u in &units {
        e.extend_from_slice(&u.to_le_bytes());
    }
    e.resize(64, 0);
    e.extend_from_slice(&((units.len() * 2) as u16).to_le_bytes());
    e.push(typ);
    e.push(1); // colour: black
    for _ in 0..3 {
        e.extend_from_slice(&FREESECT.to_le_bytes()); // left, right, child: calamine ignores the tree
    }
    e.resize(116, 0);
    e.extend_from_slice(&start.to_le_bytes());
    e.extend_from_slice(&size.to_le_bytes());
    debug_assert_eq!(e.len(), 128);
    e
}

/// `dir_entry` with the name field's padding (behind the terminating NUL) overwritten by `tail` (as many
/// units as fit); the name-length field still says `(units + 1) * 2`
pub fn dir_entry_with_tail(name: &str, typ: u8, start: u32, size: u64, tail: &[u16]) -> Vec<u8> {
    let mut e = dir_entry(name, typ, start, size);
    let used = (name.encode_utf16().count() + 1) * 2;
    for (k, u) in tail.iter().enumerate() {
        let o = used + 2 * k;
        if o + 2 > 64 {
            break;
        }
        e[o..o + 2].copy_from_slice(&u.to_le_bytes());
    }
    e
}

/// stale code units for the padding of a name field: mostly the tail of a plausible earlier name, sometimes
/// arbitrary non-zero units (surrogate halves included), sometimes with a NUL in between; never all zero
pub fn name_tail(rng: &mut Rng) -> Vec<u16> {
    let mut t: Vec<u16> = match rng.below(3) {
        0 => "taSpaceMapInfoTransformPrimaryStrongEncryption".encode_utf16().skip(rng.below(20) as usize).collect(),
        1 => (0..32).map(|_| rng.range(1, 0xFFFF) as u16).collect(),
        _ => (0..32).map(|_| if rng.chance(1, 5) { 0 } else { rng.range(0x20, 0x7E) as u16 }).collect(),
    };
    t.resize(32, 0x78);
    if t[0] == 0 {
        t[0] = 0x58;
    }
    t
}

pub fn unused_dir_entry() -> Vec<u8> {
    let mut e = vec![0u8; 68];
    for _ in 0..3 {
        e.extend_from_slice(&FREESECT.to_le_bytes());
    }
    e.resize(128, 0);
    e
}

fn pad_to(v: &mut Vec<u8>, multiple: usize, fill: u8) {
    let n = v.len().div_ceil(multiple) * multiple;
    v.resize(n, fill);
}

/// number of sectors `write_cfb` allocates for chains (mini FAT, mini stream, regular streams, directory),
/// not counting free, FAT and DIFAT sectors
pub fn chain_sectors(streams: &[(String, Vec<u8>)], opts: &CfbOpts) -> usize {
    let ss = opts.sector_size;
    let nm: usize = streams.iter().map(|(_, d)| if d.len() < 4096 && !d.is_empty() { d.len().div_ceil(64) + opts.spare_sectors } else { 0 }).sum();
    let mut n = (1 + streams.len() + opts.unused_dirs).div_ceil(ss / 128);
    if nm > 0 {
        n += (nm * 4).div_ceil(ss) + (nm * 64).div_ceil(ss);
    }
    n + streams.iter().filter(|(_, d)| d.len() >= 4096).map(|(_, d)| d.len().div_ceil(ss) + opts.spare_sectors).sum::<usize>()
}

/// the `extra_free` that makes `write_cfb(streams, opts)` need exactly `n_fat` FAT sectors, the file having the
/// largest size with that count (`n_fat * sector_size / 4` sectors); `None` if the chains alone need more.
/// `opts.min_fat_sectors` must not exceed `n_fat`.
pub fn extra_free_for_fat_sectors(streams: &[(String, Vec<u8>)], opts: &CfbOpts, n_fat: usize) -> Option<usize> {
    let per_fat = opts.sector_size / 4;
    let ndif = if n_fat <= 109 { 0 } else { (n_fat - 109).div_ceil(per_fat - 1) };
    let used = chain_sectors(streams, opts) + n_fat + ndif;
    let total = n_fat * per_fat;
    // with one FAT sector less the table would be too small
    if used > total || (n_fat > 1 && total <= (n_fat - 1) * per_fat) {
        return None;
    }
    Some(total - used)
}

/// Build a compound file holding `streams` (name, content). Names: at most 31 UTF-16 units, distinct,
/// not empty, not "Root Entry".
pub fn write_cfb(streams: &[(String, Vec<u8>)], opts: &CfbOpts, rng: &mut Rng) -> Vec<u8> {
    let ss = opts.sector_size;
    assert!(ss == 512 || ss == 4096);
    let major: u16 = if ss == 512 { 3 } else { 4 };
    let per_fat = ss / 4;

    // --- mini stream: mini sectors of 64 bytes, allocated through a permutation
    let mut mini_counts = vec![];
    let mut nm = 0usize;
    for (_, d) in streams {
        let n = if d.len() < 4096 && !d.is_empty() { d.len().div_ceil(64) + opts.spare_sectors } else { 0 };
        mini_counts.push(n);
        nm += n;
    }
    let mut mperm: Vec<usize> = (0..nm).collect();
    if opts.mini_shuffle {
        rng.shuffle(&mut mperm);
    }
    let mut mini = vec![opts.fill; nm * 64];
    let mut minifat = vec![FREESECT; nm];
    let mut mini_start = vec![ENDOFCHAIN; streams.len()];
    let mut next_mini = 0usize;
    let mut mini_used_end = 0usize;
    for (s, (_, d)) in streams.iter().enumerate() {
        let n = mini_counts[s];
        let ids = &mperm[next_mini..next_mini + n];
        next_mini += n;
        for (k, &i) in ids.iter().enumerate() {
            let piece = &d[(k * 64).min(d.len())..d.len().min((k + 1) * 64)]; // empty for a spare mini sector
            mini[i * 64..i * 64 + piece.len()].copy_from_slice(piece);
            if !piece.is_empty() {
                mini_used_end = mini_used_end.max(i * 64 + piece.len());
            }
            minifat[i] = if k + 1 < n { ids[k + 1] as u32 } else { ENDOFCHAIN };
        }
        if n > 0 {
            mini_start[s] = ids[0] as u32;
        }
    }

    // --- regular chains: (tag, data); tags: -1 mini FAT, -2 mini stream, -3 directory, s >= 0 stream s
    let mut chains: Vec<(i64, Vec<u8>)> = vec![];
    let ndir_entries = 1 + streams.len() + opts.unused_dirs;
    let per_dir = ss / 128;
    let ndir_sect = ndir_entries.div_ceil(per_dir);
    if opts.dir_first {
        chains.push((-3, vec![0u8; ndir_sect * ss]));
    }
    if nm > 0 {
        let mut mf: Vec<u8> = minifat.iter().flat_map(|x| x.to_le_bytes()).collect();
        pad_to(&mut mf, ss, 0xFF);
        chains.push((-1, mf));
        chains.push((-2, mini.clone()));
    }
    for (s, (_, d)) in streams.iter().enumerate() {
        if d.len() >= 4096 {
            chains.push((s as i64, d.clone()));
        }
    }
    if !opts.dir_first {
        chains.push((-3, vec![0u8; ndir_sect * ss]));
    }
    let nsect: Vec<usize> = chains.iter().map(|(tag, d)| d.len().div_ceil(ss) + if *tag >= 0 { opts.spare_sectors } else { 0 }).collect();
    let data_sectors: usize = nsect.iter().sum::<usize>() + opts.extra_free;

    // --- number of FAT and DIFAT sectors (fixpoint)
    let mut nfat = opts.min_fat_sectors.max(1);
    let mut ndif;
    loop {
        ndif = if nfat <= 109 { 0 } else { (nfat - 109).div_ceil(per_fat - 1) };
        let total = data_sectors + nfat + ndif;
        let need = total.div_ceil(per_fat);
        if need <= nfat {
            break;
        }
        nfat = need;
    }
    let total = data_sectors + nfat + ndif;
    let mut ids: Vec<usize> = (0..total).collect();
    if opts.shuffle {
        rng.shuffle(&mut ids);
    }
    match opts.placement {
        1 => ids.reverse(),
        2 => ids.rotate_left(total / 2),
        _ => {}
    }
    let mut it = ids.into_iter();
    let mut fat = vec![FREESECT; nfat * per_fat];
    let mut sectors: Vec<Vec<u8>> = vec![vec![opts.fill; ss]; total];
    let fat_ids: Vec<usize> = (0..nfat).map(|_| it.next().unwrap()).collect();
    let dif_ids: Vec<usize> = (0..ndif).map(|_| it.next().unwrap()).collect();
    if opts.free_after_tables {
        for _ in 0..opts.extra_free {
            it.next(); // stays FREESECT in the FAT, `fill` bytes in the file
        }
    }
    for &i in &fat_ids {
        fat[i] = FATSECT;
    }
    for &i in &dif_ids {
        fat[i] = DIFSECT;
    }
    let mut start_of = std::collections::HashMap::new();
    let mut dir_alloc = vec![];
    let mut minifat_sectors = 0usize;
    for ((tag, d), &n) in chains.iter().zip(&nsect) {
        let cid: Vec<usize> = (0..n).map(|_| it.next().unwrap()).collect();
        for (k, &i) in cid.iter().enumerate() {
            let piece = &d[(k * ss).min(d.len())..d.len().min((k + 1) * ss)]; // empty for a spare sector
            sectors[i][..piece.len()].copy_from_slice(piece);
            fat[i] = if k + 1 < n { cid[k + 1] as u32 } else { ENDOFCHAIN };
        }
        start_of.insert(*tag, if n > 0 { cid[0] as u32 } else { ENDOFCHAIN });
        if *tag == -3 {
            dir_alloc = cid;
        } else if *tag == -1 {
            minifat_sectors = n;
        }
    }

    // --- directory
    let start = |tag: i64| *start_of.get(&tag).unwrap_or(&ENDOFCHAIN);
    let mut others: Vec<Vec<u8>> = vec![];
    let mut side = Rng(rng.0 ^ 0x7461_696C_7461_696C);
    let mut entry = |name: &str, typ: u8, st: u32, size: u64| -> Vec<u8> {
        if opts.name_garbage {
            let tail = name_tail(&mut side);
            dir_entry_with_tail(name, typ, st, size, &tail)
        } else {
            dir_entry(name, typ, st, size)
        }
    };
    for (s, (name, d)) in streams.iter().enumerate() {
        let st = if d.len() < 4096 { mini_start[s] } else { start(s as i64) };
        others.push(entry(name, 2, st, d.len() as u64));
    }
    for _ in 0..opts.unused_dirs {
        others.push(unused_dir_entry());
    }
    if opts.dir_shuffle {
        rng.shuffle(&mut others);
    }
    let root_size = if opts.unpadded_root { mini_used_end } else { mini.len() };
    let mut dir = entry("Root Entry", 5, start(-2), root_size as u64);
    for o in others {
        dir.extend_from_slice(&o);
    }
    while dir.len() < ndir_sect * ss {
        dir.extend_from_slice(&unused_dir_entry());
    }
    for (k, &i) in dir_alloc.iter().enumerate() {
        sectors[i] = dir[k * ss..(k + 1) * ss].to_vec();
    }

    // --- FAT sectors and DIFAT
    for (k, &i) in fat_ids.iter().enumerate() {
        sectors[i] = fat[k * per_fat..(k + 1) * per_fat].iter().flat_map(|x| x.to_le_bytes()).collect();
    }
    let rest: Vec<usize> = fat_ids.iter().skip(109).cloned().collect();
    for (k, &i) in dif_ids.iter().enumerate() {
        let mut entries: Vec<u32> = rest.iter().skip(k * (per_fat - 1)).take(per_fat - 1).map(|x| *x as u32).collect();
        entries.resize(per_fat - 1, FREESECT);
        entries.push(if k + 1 < dif_ids.len() { dif_ids[k + 1] as u32 } else { ENDOFCHAIN });
        sectors[i] = entries.iter().flat_map(|x| x.to_le_bytes()).collect();
    }

    // --- header
    let mut h: Vec<u8> = vec![0xD0, 0xCF, 0x11, 0xE0, 0xA1, 0xB1, 0x1A, 0xE1];
    h.resize(24, 0);
    for v in [0x3Eu16, major, 0xFFFE, if ss == 512 { 9 } else { 12 }, 6] {
        h.extend_from_slice(&v.to_le_bytes());
    }
    h.resize(40, 0);
    let u = |x: usize| x as u32;
    for v in [
        if major == 4 { u(ndir_sect) } else { 0 },
        u(nfat),
        start(-3),
        0,
        4096,
        start(-1),
        u(minifat_sectors),
        if ndif > 0 { u(dif_ids[0]) } else { ENDOFCHAIN },
        u(ndif),
    ] {
        h.extend_from_slice(&v.to_le_bytes());
    }
    for k in 0..109 {
        let v = if k < fat_ids.len() { u(fat_ids[k]) } else { FREESECT };
        h.extend_from_slice(&v.to_le_bytes());
    }
    debug_assert_eq!(h.len(), 512);
    h.resize(ss, 0);
    for s in sectors {
        h.extend_from_slice(&s);
    }
    h
}

#[cfg(test)]
mod tests {
    use super::*;
    use std::io::Cursor;

    #[test]
    fn roundtrip_through_calamine() {
        let mut rng = Rng::new(7);
        for round in 0..300 {
            let n = rng.range(1, 5) as usize;
            let mut streams = vec![];
            for s in 0..n {
                let len = *rng.pick(&[0usize, 1, 63, 64, 65, 511, 512, 513, 4095, 4096, 4097, 8192, 20000, 70000]);
                streams.push((format!("S{s}é"), rng.bytes(len)));
            }
            let mut opts = CfbOpts::random(&mut rng);
            if round % 3 == 0 {
                opts.sector_size = 512; // the pinned calamine rejects v4 files without a mini stream (D25)
            }
            let bytes = write_cfb(&streams, &opts, &mut rng);
            let mut cur = Cursor::new(&bytes[..]);
            let has_mini = streams.iter().any(|(_, d)| !d.is_empty() && d.len() < 4096);
            let cfb = calamine::verif_hooks::cfb::Cfb::new(&mut cur, bytes.len());
            if opts.sector_size == 4096 && !has_mini && cfb.is_err() {
                continue; // D25 on an unfixed tree
            }
            let mut cfb = cfb.expect("Cfb::new");
            for (name, data) in &streams {
                let got = cfb.get_stream(name, &mut cur).expect("get_stream");
                assert_eq!(&got, data, "round {round} stream {name} opts {opts:?}");
            }
        }
    }
}
