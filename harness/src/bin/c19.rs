//! C19 — cell text survives every storage form and escaping layer unchanged.
//!
//! For every generated Unicode string, *every* storage form of each format is written into real files
//! (xlsx: shared / inline / `t="str"`; plain / rich runs / phonetic runs; entities vs numeric references vs
//! CDATA; element prefix none / `x:`; ods: literal spaces vs `text:s`, 1–4 paragraphs, spans, annotation;
//! xlsb: BrtSSTItem / BrtCellSt / BrtFmlaString; xls: SST / LABEL / FORMULA+STRING) and read three ways:
//!   impl   : the real readers (`Xlsx/Ods/Xlsb/Xls::new` + `worksheet_range`),
//!   model  : the Lean model (`drv_c19`: read_string, read_shared_strings, the cell kinds, get_datatype, wide_str)
//!            on the *event list* of exactly the fragment that was written (xls: no model here, property C12),
//!   oracle : the string itself.
use calamine::{Data, Ods, Reader, Xls, Xlsb, Xlsx};
use std::io::Cursor;
use verif_harness::{driver::Driver, guarded, odsw, report::Report, rng::Rng, xlsbw, xlsw, xlsxw, Args};

// ------------------------------------------------------------------------------------------------
// XML events with full control of the physical spelling
// ------------------------------------------------------------------------------------------------

/// One XML event as written. `Text` carries the unescaped text and, per character, how it is spelled:
/// 0 = literal (escaped only when XML requires it), 1 = predefined entity when there is one,
/// 2 = decimal character reference, 3 = hexadecimal character reference (empty vector = all 0).
#[derive(Clone, Debug, PartialEq)]
enum X {
    Start(String, Vec<(String, String)>),
    /// `<x/>`: the readers run with `expand_empty_elements`, the model sees Start + End
    Empty(String, Vec<(String, String)>),
    End(String),
    Text(String, Vec<u8>),
    CData(String),
    Comment,
}

fn st(n: &str, attrs: &[(&str, &str)]) -> X {
    X::Start(n.into(), attrs.iter().map(|(k, v)| (k.to_string(), v.to_string())).collect())
}
fn em(n: &str, attrs: &[(&str, &str)]) -> X {
    X::Empty(n.into(), attrs.iter().map(|(k, v)| (k.to_string(), v.to_string())).collect())
}
fn en(n: &str) -> X {
    X::End(n.into())
}
fn tx(s: &str) -> X {
    X::Text(s.into(), vec![])
}

fn hx(b: &[u8]) -> String {
    const D: &[u8; 16] = b"0123456789abcdef";
    let mut s = Vec::with_capacity(b.len() * 2);
    for x in b {
        s.push(D[(x >> 4) as usize]);
        s.push(D[(x & 15) as usize]);
    }
    String::from_utf8(s).unwrap()
}
fn unhx(s: &str) -> Vec<u8> {
    let b = s.as_bytes();
    (0..b.len() / 2).map(|i| u8::from_str_radix(&s[2 * i..2 * i + 2], 16).unwrap()).collect()
}
fn unhx_s(s: &str) -> String {
    String::from_utf8(unhx(s)).expect("utf8 in replay")
}

fn esc_attr(s: &str) -> String {
    xlsxw::esc_attr(s)
}

fn tag_xml(o: &mut String, n: &str, attrs: &[(String, String)]) {
    o.push('<');
    o.push_str(n);
    for (k, v) in attrs {
        o.push(' ');
        o.push_str(k);
        o.push_str("=\"");
        o.push_str(&esc_attr(v));
        o.push('"');
    }
}

fn named_entity(c: char) -> Option<&'static str> {
    match c {
        '&' => Some("&amp;"),
        '<' => Some("&lt;"),
        '>' => Some("&gt;"),
        '"' => Some("&quot;"),
        '\'' => Some("&apos;"),
        _ => None,
    }
}

fn text_xml(o: &mut String, s: &str, modes: &[u8]) {
    for (i, c) in s.chars().enumerate() {
        let m = modes.get(i).copied().unwrap_or(0);
        match m {
            2 => o.push_str(&format!("&#{};", c as u32)),
            3 => o.push_str(&format!("&#x{:X};", c as u32)),
            1 if named_entity(c).is_some() => o.push_str(named_entity(c).unwrap()),
            _ => match c {
                '&' => o.push_str("&amp;"),
                '<' => o.push_str("&lt;"),
                '>' if o.ends_with("]]") => o.push_str("&gt;"),
                // a literal CR would be normalised to LF by a conforming parser: always a reference
                '\r' => o.push_str("&#13;"),
                c => o.push(c),
            },
        }
    }
}

fn xml(evs: &[X]) -> String {
    let mut o = String::new();
    for e in evs {
        match e {
            X::Start(n, a) => {
                tag_xml(&mut o, n, a);
                o.push('>');
            }
            X::Empty(n, a) => {
                tag_xml(&mut o, n, a);
                o.push_str("/>");
            }
            X::End(n) => {
                o.push_str("</");
                o.push_str(n);
                o.push('>');
            }
            X::Text(s, m) => text_xml(&mut o, s, m),
            X::CData(s) => {
                assert!(!s.contains("]]>"));
                o.push_str("<![CDATA[");
                o.push_str(s);
                o.push_str("]]>");
            }
            X::Comment => o.push_str("<!--c-->"),
        }
    }
    o
}

fn tag_wire(k: char, n: &str, attrs: &[(String, String)]) -> String {
    let mut s = format!("{k}{}", hx(n.as_bytes()));
    for (a, v) in attrs {
        s.push_str(&format!(",{}={}", hx(a.as_bytes()), hx(v.as_bytes())));
    }
    s
}

/// the event list in the driver's wire form (also the replay form: `parse_wire` is its inverse)
fn wire(evs: &[X]) -> String {
    let mut w = Vec::with_capacity(evs.len());
    for e in evs {
        w.push(match e {
            X::Start(n, a) => tag_wire('S', n, a),
            X::Empty(n, a) => tag_wire('M', n, a),
            X::End(n) => format!("E{}", hx(n.as_bytes())),
            X::Text(s, m) => {
                if m.iter().any(|x| *x != 0) {
                    format!("T{}~{}", hx(s.as_bytes()), m.iter().map(|x| (b'0' + x) as char).collect::<String>())
                } else {
                    format!("T{}", hx(s.as_bytes()))
                }
            }
            X::CData(s) => format!("C{}", hx(s.as_bytes())),
            X::Comment => "O".to_string(),
        });
    }
    w.join(" ")
}

fn parse_tag(body: &str) -> (String, Vec<(String, String)>) {
    let mut it = body.split(',');
    let n = unhx_s(it.next().unwrap());
    let attrs = it
        .map(|a| {
            let (k, v) = a.split_once('=').unwrap();
            (unhx_s(k), unhx_s(v))
        })
        .collect();
    (n, attrs)
}

fn parse_wire(s: &str) -> Vec<X> {
    s.split_whitespace()
        .map(|t| {
            let body = &t[1..];
            match t.as_bytes()[0] {
                b'S' => {
                    let (n, a) = parse_tag(body);
                    X::Start(n, a)
                }
                b'M' => {
                    let (n, a) = parse_tag(body);
                    X::Empty(n, a)
                }
                b'E' => X::End(unhx_s(body)),
                b'T' => match body.split_once('~') {
                    Some((h, m)) => X::Text(unhx_s(h), m.bytes().map(|b| b - b'0').collect()),
                    None => X::Text(unhx_s(body), vec![]),
                },
                b'C' => X::CData(unhx_s(body)),
                b'O' => X::Comment,
                _ => panic!("bad wire token {t}"),
            }
        })
        .collect()
}

// ------------------------------------------------------------------------------------------------
// character data in every spelling
// ------------------------------------------------------------------------------------------------

#[derive(Clone, Copy, Debug, PartialEq)]
enum Esc {
    /// literal text, escaped only where XML requires it
    Plain,
    /// every character that has a predefined entity uses it
    Named,
    /// every character as a numeric reference (decimal / hexadecimal alternating)
    Numeric,
    /// everything that may legally be inside CDATA is
    CData,
    /// random segments: text with random per-character spelling, CDATA sections, comments in between
    Mixed,
}

fn push_text(out: &mut Vec<X>, s: &str, modes: Vec<u8>) {
    if s.is_empty() {
        return;
    }
    if let Some(X::Text(p, pm)) = out.last_mut() {
        // adjacent character data is one Text event for the tokenizer
        if pm.is_empty() {
            *pm = vec![0; p.chars().count()];
        }
        p.push_str(s);
        pm.extend(if modes.is_empty() { vec![0; s.chars().count()] } else { modes });
        return;
    }
    out.push(X::Text(s.to_string(), modes));
}

fn push_cdata(out: &mut Vec<X>, s: &str) {
    // `]]>` cannot occur inside a section: cut between `]]` and `>`; CR cannot be protected inside CDATA
    let mut cur = String::new();
    let cs: Vec<char> = s.chars().collect();
    for (i, c) in cs.iter().enumerate() {
        if *c == '\r' {
            if !cur.is_empty() {
                out.push(X::CData(std::mem::take(&mut cur)));
            }
            push_text(out, "\r", vec![2]);
            continue;
        }
        if *c == '>' && cur.ends_with("]]") {
            out.push(X::CData(std::mem::take(&mut cur)));
        }
        cur.push(*c);
        let _ = i;
    }
    if !cur.is_empty() {
        out.push(X::CData(cur));
    }
}

/// the events that spell the character data `s` under style `esc` (adjacent Text merged, no empty Text)
fn chunks(rng: &mut Rng, s: &str, esc: Esc) -> Vec<X> {
    let mut out = vec![];
    let n = s.chars().count();
    match esc {
        Esc::Plain => push_text(&mut out, s, vec![]),
        Esc::Named => push_text(&mut out, s, vec![1; n]),
        Esc::Numeric => push_text(&mut out, s, (0..n).map(|i| 2 + (i % 2) as u8).collect()),
        Esc::CData => {
            if s.is_empty() && rng.chance(1, 2) {
                out.push(X::CData(String::new()));
            }
            push_cdata(&mut out, s)
        }
        Esc::Mixed => {
            let cs: Vec<char> = s.chars().collect();
            let mut i = 0;
            if cs.is_empty() && rng.chance(1, 4) {
                out.push(if rng.chance(1, 2) { X::CData(String::new()) } else { X::Comment });
            }
            while i < cs.len() {
                let len = 1 + rng.below((cs.len() - i).min(if cs.len() > 2000 { cs.len() / 3 } else { 12.max(cs.len() / 24) }) as u64) as usize;
                let seg: String = cs[i..i + len].iter().collect();
                i += len;
                match rng.below(4) {
                    0 => push_cdata(&mut out, &seg),
                    _ => {
                        let modes = match rng.below(3) {
                            0 => vec![],
                            1 => (0..len).map(|_| rng.below(4) as u8).collect(),
                            _ => (0..len).map(|_| if rng.chance(1, 3) { 1 + rng.below(3) as u8 } else { 0 }).collect(),
                        };
                        push_text(&mut out, &seg, modes)
                    }
                }
                if rng.chance(1, 10) {
                    out.push(X::Comment);
                }
            }
        }
    }
    out
}

fn has_cdata(evs: &[X]) -> bool {
    evs.iter().any(|e| matches!(e, X::CData(_)))
}

// ------------------------------------------------------------------------------------------------
// string generator
// ------------------------------------------------------------------------------------------------

const SPECIAL: &[&str] = &[
    "&", "<", ">", "\"", "'", " ", " ", "  ", "\t", "\n", "\r", "\r\n", "]", "]]>", "&amp;", "&#10;", "<![CDATA[", "_x000D_",
    "_x0041_", "é", "ß", "Ω", "日本", "\u{FEFF}", "\u{FFFD}", "\u{D7FF}", "\u{E000}", "\u{2028}", "\u{85}", "\u{A0}", "\u{200B}",
    "\u{3000}", "\u{A0} ", "Ã©", "Â£", "Ã¤Ã¶", "Ã\u{BF}", "😀", "\u{10000}", "\u{10FFFF}", "𝒳", "\u{BBEF}\u{BF}", "\u{FFFE}", "0", "1e5", "-", "+", "=", "%", ";", "#", "x:", "a", "Z",
];

fn gen_string(rng: &mut Rng, quick: bool) -> String {
    let kind = rng.below(100);
    if kind < 3 {
        return String::new();
    }
    if kind == 3 || kind == 4 {
        // texts that look like another kind of value: error literals, numbers, booleans, dates
        return rng
            .pick(&[
                "#N/A", "#DIV/0!", "#NAME?", "#NULL!", "#NUM!", "#REF!", "#VALUE!", "#GETTING_DATA", "TRUE", "FALSE", "true", "1", "0", "-1.5e3", "1E5", "inf",
                "NaN", "2020-01-02", "2020-01-02T03:04:05", "PT1H", "12:30", "0x10", " 1", "1 ", "١٢", "1,5",
            ])
            .to_string();
    }
    if kind == 5 {
        // blanks of every kind around a word
        let b = ["", " ", "  ", "\u{A0}", "\u{3000}", "\t", "\n", " \u{A0} "];
        return format!("{}{}{}", rng.pick(&b), rng.pick(&["x", "a b", "é"]), rng.pick(&b));
    }
    if kind == 6 {
        // Latin-1 text whose bytes in a single-byte encoding are valid UTF-8 sequences
        return (0..rng.range(1, 5)).map(|_| *rng.pick(&["Ã©", "Â£", "Ã¤", "Ã\u{BF}", "a", " ", "é", "Â\u{A0}", "<", "&"])).collect();
    }
    let target = if kind < 55 {
        rng.range(1, 6)
    } else if kind < 85 {
        rng.range(4, 30)
    } else if kind < 98 {
        rng.range(20, 300)
    } else if kind == 98 {
        rng.range(300, 3000)
    } else if quick && !rng.chance(1, 6) {
        *rng.pick(&[255u64, 256, 257, 65, 1000, 4096])
    } else {
        // the format limits: 32767 characters per cell, 8224 bytes per BIFF record
        *rng.pick(&[32767u64, 32766, 8224, 8225, 4096, 255, 256, 257, 65, 1000])
    } as usize;
    let mut s = String::new();
    let mut n = 0;
    while n < target {
        let piece: String = match rng.below(10) {
            0..=5 => rng.pick(SPECIAL).to_string(),
            6 => ((b'a' + rng.below(26) as u8) as char).to_string(),
            7 => " ".repeat(rng.range(1, 4) as usize),
            8 => {
                // any XML 1.0 character
                loop {
                    let c = match rng.below(4) {
                        0 => rng.range(0x20, 0x7E),
                        1 => rng.range(0x80, 0xD7FF),
                        2 => rng.range(0xE000, 0xFFFD),
                        _ => rng.range(0x10000, 0x10FFFF),
                    } as u32;
                    if let Some(ch) = char::from_u32(c) {
                        break ch.to_string();
                    }
                }
            }
            _ => rng.pick(&["&", "<", ">", "\"", "'"]).to_string(),
        };
        for c in piece.chars() {
            if n < target {
                s.push(c);
                n += 1;
            }
        }
    }
    s
}

/// cut `s` into `k` pieces at random character boundaries (pieces may be empty)
fn split_k(rng: &mut Rng, s: &str, k: usize) -> Vec<String> {
    let cs: Vec<char> = s.chars().collect();
    let mut cuts: Vec<usize> = (0..k.saturating_sub(1)).map(|_| rng.below(cs.len() as u64 + 1) as usize).collect();
    cuts.sort();
    let mut out = vec![];
    let mut p = 0;
    for c in cuts {
        out.push(cs[p..c].iter().collect());
        p = c;
    }
    out.push(cs[p..].iter().collect());
    out
}

// ------------------------------------------------------------------------------------------------
// cases (what a replay holds)
// ------------------------------------------------------------------------------------------------

#[derive(Clone, Debug)]
struct CellCase {
    /// xlsx: the `t` attribute; ods: "covered" or "-"
    t: Option<String>,
    /// children of the cell element
    kids: Vec<X>,
    /// `None`: observed only (outside the quantifier), never a failure
    expect: Option<String>,
    label: String,
}

#[derive(Clone, Debug)]
struct XlsxCase {
    /// write the sheet and the shared string part in a declared single-byte encoding (windows-1252)
    latin: bool,
    pfx: String,
    /// events of the shared string part from `<sst>` to `</sst>` (empty = no part)
    sst: Vec<X>,
    cells: Vec<CellCase>,
}

#[derive(Clone, Debug)]
struct OdsCase {
    /// write content.xml in a declared single-byte encoding (windows-1252)
    latin: bool,
    cells: Vec<CellCase>,
}

#[derive(Clone, Debug)]
struct BinCell {
    /// "isst" (shared), "st" (inline BrtCellSt / LABEL), "fmla" (BrtFmlaString / FORMULA+STRING)
    kind: String,
    isst: u32,
    units: Vec<u16>,
    expect: String,
    label: String,
}

#[derive(Clone, Debug)]
struct XlsbCase {
    /// shared items: flags byte, code units, bytes following the string in the record
    sst: Vec<(u8, Vec<u16>, Vec<u8>)>,
    cells: Vec<BinCell>,
}

#[derive(Clone, Debug)]
struct XlsCase {
    sst: Vec<String>,
    cells: Vec<BinCell>,
    seed: u64,
    /// write the SST with CONTINUE cuts inside the strings and a fresh 8/16-bit packing choice per segment
    split: bool,
}

#[derive(Clone, Debug)]
enum Case {
    Xlsx(XlsxCase),
    Ods(OdsCase),
    Xlsb(XlsbCase),
    Xls(XlsCase),
}

fn cell_text(c: &CellCase) -> String {
    format!(
        "{}!{}!{}!{}",
        c.t.clone().unwrap_or("-".into()),
        c.expect.as_ref().map(|e| format!("={}", hx(e.as_bytes()))).unwrap_or("?".into()),
        c.label,
        wire(&c.kids)
    )
}
fn parse_cell(s: &str) -> CellCase {
    let p: Vec<&str> = s.splitn(4, '!').collect();
    CellCase {
        t: if p[0] == "-" { None } else { Some(p[0].into()) },
        expect: p[1].strip_prefix('=').map(unhx_s),
        label: p[2].into(),
        kids: parse_wire(p[3]),
    }
}
fn u16hex(u: &[u16]) -> String {
    hx(&u.iter().flat_map(|x| x.to_le_bytes()).collect::<Vec<u8>>())
}
fn unu16(s: &str) -> Vec<u16> {
    unhx(s).chunks(2).map(|c| u16::from_le_bytes([c[0], c[1]])).collect()
}
fn bin_text(c: &BinCell) -> String {
    format!("{}!{}!{}!{}!{}", c.kind, c.isst, u16hex(&c.units), hx(c.expect.as_bytes()), c.label)
}
fn parse_bin(s: &str) -> BinCell {
    let p: Vec<&str> = s.split('!').collect();
    BinCell { kind: p[0].into(), isst: p[1].parse().unwrap(), units: unu16(p[2]), expect: unhx_s(p[3]), label: p[4].into() }
}

impl Case {
    fn text(&self) -> String {
        match self {
            Case::Xlsx(c) => format!(
                "xlsx{}|{}|{}|{}",
                if c.latin { "l" } else { "" },
                if c.pfx.is_empty() { "-" } else { &c.pfx },
                wire(&c.sst),
                c.cells.iter().map(cell_text).collect::<Vec<_>>().join(";")
            ),
            Case::Ods(c) => format!("ods{}|{}", if c.latin { "l" } else { "" }, c.cells.iter().map(cell_text).collect::<Vec<_>>().join(";")),
            Case::Xlsb(c) => format!(
                "xlsb|{}|{}",
                c.sst.iter().map(|(f, u, t)| format!("{}!{}!{}", f, u16hex(u), hx(t))).collect::<Vec<_>>().join(";"),
                c.cells.iter().map(bin_text).collect::<Vec<_>>().join(";")
            ),
            Case::Xls(c) => format!(
                "xls|{}{}|{}|{}",
                c.seed,
                if c.split { "c" } else { "" },
                c.sst.iter().map(|s| format!("={}", hx(s.as_bytes()))).collect::<Vec<_>>().join(";"),
                c.cells.iter().map(bin_text).collect::<Vec<_>>().join(";")
            ),
        }
    }
    fn parse(s: &str) -> Case {
        // a human-readable rendering may follow after " # "
        let s = s.split(" # ").next().unwrap();
        let p: Vec<&str> = s.split('|').collect();
        let list = |x: &str| -> Vec<String> { if x.is_empty() { vec![] } else { x.split(';').map(|y| y.to_string()).collect() } };
        match p[0] {
            "xlsx" | "xlsxl" => Case::Xlsx(XlsxCase { latin: p[0] == "xlsxl",
                pfx: if p[1] == "-" { String::new() } else { p[1].into() },
                sst: parse_wire(p[2]),
                cells: list(p[3]).iter().map(|c| parse_cell(c)).collect(),
            }),
            "ods" | "odsl" => Case::Ods(OdsCase { latin: p[0] == "odsl", cells: list(p[1]).iter().map(|c| parse_cell(c)).collect() }),
            "xlsb" => Case::Xlsb(XlsbCase {
                sst: list(p[1])
                    .iter()
                    .map(|i| {
                        let q: Vec<&str> = i.split('!').collect();
                        (q[0].parse().unwrap(), unu16(q[1]), unhx(q[2]))
                    })
                    .collect(),
                cells: list(p[2]).iter().map(|c| parse_bin(c)).collect(),
            }),
            "xls" => Case::Xls(XlsCase {
                seed: p[1].trim_end_matches('c').parse().unwrap(),
                split: p[1].ends_with('c'),
                sst: list(p[2]).iter().map(|s| unhx_s(&s[1..])).collect(),
                cells: list(p[3]).iter().map(|c| parse_bin(c)).collect(),
            }),
            x => panic!("bad case kind {x}"),
        }
    }
    /// the same file reduced to one observed cell (the tables stay whole: indices must not move)
    fn only(&self, i: usize) -> Case {
        match self {
            Case::Xlsx(c) => Case::Xlsx(XlsxCase { cells: vec![c.cells[i].clone()], ..c.clone() }),
            Case::Ods(c) => Case::Ods(OdsCase { latin: c.latin, cells: vec![c.cells[i].clone()] }),
            Case::Xlsb(c) => Case::Xlsb(XlsbCase { cells: vec![c.cells[i].clone()], ..c.clone() }),
            Case::Xls(c) => Case::Xls(XlsCase { cells: vec![c.cells[i].clone()], ..c.clone() }),
        }
    }
    /// lower bound of the length of `only(i).text()` (to skip building inputs that cannot be the shortest)
    fn weight(&self, i: usize) -> usize {
        let w = |evs: &[X]| -> usize {
            evs.iter()
                .map(|e| match e {
                    X::Text(s, _) | X::CData(s) => 2 * s.len() + 1,
                    X::Start(n, _) | X::Empty(n, _) | X::End(n) => 2 * n.len() + 2,
                    X::Comment => 2,
                })
                .sum()
        };
        match self {
            Case::Xlsx(c) => w(&c.sst) + w(&c.cells[i].kids),
            Case::Ods(c) => w(&c.cells[i].kids),
            Case::Xlsb(c) => c.sst.iter().map(|(_, u, _)| 4 * u.len()).sum::<usize>() + 4 * c.cells[i].units.len(),
            Case::Xls(c) => c.sst.iter().map(|s| 2 * s.len()).sum::<usize>() + 4 * c.cells[i].units.len(),
        }
    }
    /// readable rendering for reports
    fn pretty(&self) -> String {
        match self {
            Case::Xlsx(c) => format!("sharedStrings: {}  sheetData: {}", clip(&xml(&c.sst)), clip(&xlsx_sheet_data(c))),
            Case::Ods(c) => clip(&c.cells.iter().map(ods_cell_xml).collect::<String>()),
            Case::Xlsb(c) => clip(&format!("{:?}", c.cells.iter().map(|b| (&b.kind, b.isst, String::from_utf16_lossy(&b.units))).collect::<Vec<_>>())),
            Case::Xls(c) => clip(&format!("{:?}", c.cells.iter().map(|b| (&b.kind, b.isst, String::from_utf16_lossy(&b.units))).collect::<Vec<_>>())),
        }
    }
}

fn clip(s: &str) -> String {
    if s.chars().count() > 400 {
        format!("{}…", s.chars().take(400).collect::<String>())
    } else {
        s.to_string()
    }
}

// ------------------------------------------------------------------------------------------------
// xlsx forms
// ------------------------------------------------------------------------------------------------

fn q(pfx: &str, n: &str) -> String {
    if pfx.is_empty() {
        n.to_string()
    } else {
        format!("{pfx}:{n}")
    }
}

#[derive(Clone, Copy, Debug, PartialEq)]
enum Shape {
    Plain,
    /// `<t>` followed by phonetic runs and `phoneticPr`
    PlainPh,
    Rich(usize),
    /// runs with phonetic runs interleaved and trailing
    RichPh(usize),
    /// no children at all: `<si/>`
    Nothing,
    /// only a phonetic run
    PhOnly,
}

impl Shape {
    fn label(&self) -> String {
        match self {
            Shape::Plain => "plain".into(),
            Shape::PlainPh => "plain+ph".into(),
            Shape::Rich(_) => "rich".into(),
            Shape::RichPh(_) => "rich+ph".into(),
            Shape::Nothing => "nochild".into(),
            Shape::PhOnly => "phonly".into(),
        }
    }
}

fn ws(rng: &mut Rng, out: &mut Vec<X>) {
    if rng.chance(1, 6) {
        out.push(tx(*rng.pick(&["\n", "\n    ", " ", "\r\n\t"])));
    }
}

fn t_elem(rng: &mut Rng, pfx: &str, s: &str, esc: Esc) -> Vec<X> {
    let name = q(pfx, "t");
    let mut attrs: Vec<(&str, &str)> = vec![];
    // calamine keeps the character data whatever xml:space says (absent / preserve / default)
    match rng.below(5) {
        0 | 1 => attrs.push(("xml:space", "preserve")),
        2 => attrs.push(("xml:space", "default")),
        _ => {}
    }
    if s.is_empty() && rng.chance(1, 2) {
        return vec![em(&name, &attrs)];
    }
    let mut v = vec![st(&name, &attrs)];
    v.extend(chunks(rng, s, esc));
    v.push(en(&name));
    v
}

fn run_props(rng: &mut Rng, pfx: &str) -> Vec<X> {
    let mut v = vec![st(&q(pfx, "rPr"), &[])];
    if rng.chance(1, 2) {
        v.push(em(&q(pfx, "b"), &[]));
    }
    v.push(em(&q(pfx, "sz"), &[("val", "11")]));
    if rng.chance(1, 2) {
        v.push(st(&q(pfx, "rFont"), &[("val", "Calibri")]));
        v.push(en(&q(pfx, "rFont")));
    }
    v.push(en(&q(pfx, "rPr")));
    v
}

fn phonetic_run(rng: &mut Rng, pfx: &str) -> Vec<X> {
    let mut v = vec![st(&q(pfx, "rPh"), &[("sb", "0"), ("eb", "1")])];
    ws(rng, &mut v);
    let ph = *rng.pick(&["フリガナ", "PH", "a&b", " ", ""]);
    let e = *rng.pick(&[Esc::Plain, Esc::Mixed]);
    v.extend(t_elem(rng, pfx, ph, e));
    ws(rng, &mut v);
    v.push(en(&q(pfx, "rPh")));
    v
}

/// children of an `<si>` / `<is>` element storing `s` in the given shape
fn item_body(rng: &mut Rng, pfx: &str, s: &str, shape: Shape, esc: Esc) -> Vec<X> {
    let mut v = vec![];
    match shape {
        Shape::Plain | Shape::PlainPh => {
            ws(rng, &mut v);
            v.extend(t_elem(rng, pfx, s, esc));
            ws(rng, &mut v);
            if shape == Shape::PlainPh {
                for _ in 0..rng.range(1, 2) {
                    v.extend(phonetic_run(rng, pfx));
                    ws(rng, &mut v);
                }
                v.push(em(&q(pfx, "phoneticPr"), &[("fontId", "1"), ("type", "noConversion")]));
            }
        }
        Shape::Rich(k) | Shape::RichPh(k) => {
            let ph = matches!(shape, Shape::RichPh(_));
            ws(rng, &mut v);
            for piece in split_k(rng, s, k) {
                if ph && rng.chance(1, 3) {
                    v.extend(phonetic_run(rng, pfx));
                }
                v.push(st(&q(pfx, "r"), &[]));
                ws(rng, &mut v);
                if rng.chance(1, 2) {
                    v.extend(run_props(rng, pfx));
                    ws(rng, &mut v);
                }
                v.extend(t_elem(rng, pfx, &piece, esc));
                ws(rng, &mut v);
                v.push(en(&q(pfx, "r")));
                ws(rng, &mut v);
            }
            if ph {
                v.extend(phonetic_run(rng, pfx));
                if rng.chance(1, 2) {
                    v.push(em(&q(pfx, "phoneticPr"), &[("fontId", "1")]));
                }
            }
        }
        Shape::Nothing => {}
        Shape::PhOnly => v.extend(phonetic_run(rng, pfx)),
    }
    v
}

fn wrap_item(pfx: &str, tag: &str, body: Vec<X>, self_close: bool) -> Vec<X> {
    let name = q(pfx, tag);
    if body.is_empty() && self_close {
        return vec![em(&name, &[])];
    }
    let mut v = vec![st(&name, &[])];
    v.extend(body);
    v.push(en(&name));
    v
}

fn esc_label(e: Esc) -> &'static str {
    match e {
        Esc::Plain => "lit",
        Esc::Named => "ent",
        Esc::Numeric => "num",
        Esc::CData => "cdata",
        Esc::Mixed => "mixed",
    }
}

fn form_label(store: &str, shape: &str, pfx: &str, evs: &[X], extra: &str) -> String {
    format!(
        "xlsx.{store}.{shape}{}{}{}",
        if pfx.is_empty() { "" } else { ".prefixed" },
        if has_cdata(evs) { ".cdata" } else { "" },
        extra
    )
}

fn pick_shapes(rng: &mut Rng) -> Vec<Shape> {
    vec![
        Shape::Plain,
        Shape::PlainPh,
        Shape::Rich(1),
        Shape::Rich(rng.range(2, 5) as usize),
        Shape::RichPh(rng.range(2, 5) as usize),
    ]
}

fn all_esc() -> [Esc; 5] {
    [Esc::Plain, Esc::Named, Esc::Numeric, Esc::CData, Esc::Mixed]
}

/// every xlsx storage form of `s` in one workbook (one cell per form, column A)
fn gen_xlsx(rng: &mut Rng, s: &str, pfx: &str) -> XlsxCase {
    let mut items: Vec<(Vec<X>, String, String)> = vec![]; // (events of the <si>, expected text, label)
    let mut cells = vec![];
    let decoy = |rng: &mut Rng, items: &mut Vec<(Vec<X>, String, String)>| {
        if rng.chance(1, 2) {
            let (shape, text) = match rng.below(4) {
                0 => (Shape::Nothing, ""),
                1 => (Shape::PhOnly, ""),
                2 => (Shape::Plain, ""),
                _ => (Shape::Plain, "decoy"),
            };
            let body = item_body(rng, pfx, text, shape, Esc::Plain);
            let sc = rng.chance(1, 2);
            items.push((wrap_item(pfx, "si", body, sc), text.to_string(), format!("decoy.{}", shape.label())));
        }
    };
    // shared: every shape under a random spelling, plus plain under every spelling
    let mut forms: Vec<(Shape, Esc)> = pick_shapes(rng).into_iter().map(|sh| (sh, *rng.pick(&all_esc()))).collect();
    for e in all_esc() {
        forms.push((Shape::Plain, e));
    }
    forms.push((Shape::Rich(2), Esc::CData));
    for (shape, esc) in &forms {
        decoy(rng, &mut items);
        let body = item_body(rng, pfx, s, *shape, *esc);
        items.push((wrap_item(pfx, "si", body, false), s.to_string(), format!("{}.{}", shape.label(), esc_label(*esc))));
    }
    decoy(rng, &mut items);
    // the table
    // count / uniqueCount are optional and advisory (ECMA-376 18.4.9): absent, exact, the number of *distinct*
    // strings (smaller than the number of items: the forms of `s` repeat its text), smaller still, larger, garbage
    let mut sst_attrs = vec![(if pfx.is_empty() { "xmlns".to_string() } else { format!("xmlns:{pfx}") }, xlsxw::NS_MAIN.to_string())];
    {
        let n = items.len();
        let mut distinct: Vec<&String> = items.iter().map(|i| &i.1).collect();
        distinct.sort();
        distinct.dedup();
        let pick = |rng: &mut Rng| -> Option<String> {
            match rng.below(7) {
                0 => None,
                1 | 2 => Some(n.to_string()),
                3 => Some(distinct.len().to_string()),
                4 => Some(rng.below(n as u64 + 1).to_string()),
                5 => Some((n + 1 + rng.below(1000) as usize).to_string()),
                _ => Some(rng.pick(&["x", "-1", "", "1e3", " 2"]).to_string()),
            }
        };
        if let Some(c) = pick(rng) {
            sst_attrs.push(("count".into(), c));
        }
        if let Some(u) = pick(rng) {
            sst_attrs.push(("uniqueCount".into(), u));
        }
    }
    let mut sst = vec![X::Start(q(pfx, "sst"), sst_attrs)];
    let mut prev_empty = false;
    for (i, (evs, text, label)) in items.iter().enumerate() {
        ws(rng, &mut sst);
        sst.extend(evs.iter().cloned());
        let v = if rng.chance(1, 8) { format!("0{i}") } else { i.to_string() };
        let vname = q(pfx, "v");
        let mut kids = vec![st(&vname, &[])];
        if v.len() >= 2 && rng.chance(1, 2) {
            // the digits of the index arrive in several events: text / CDATA / comment in between
            let cut = 1 + rng.below(v.len() as u64 - 1) as usize;
            match rng.below(4) {
                0 => {
                    kids.push(tx(&v[..cut]));
                    kids.push(X::CData(v[cut..].to_string()));
                }
                1 => {
                    kids.push(X::CData(v[..cut].to_string()));
                    kids.push(tx(&v[cut..]));
                }
                2 => {
                    kids.push(tx(&v[..cut]));
                    kids.push(X::Comment);
                    kids.push(tx(&v[cut..]));
                }
                _ => {
                    kids.push(X::CData(v[..cut].to_string()));
                    kids.push(X::CData(v[cut..].to_string()));
                }
            }
        } else {
            kids.push(tx(&v));
        }
        kids.push(en(&vname));
        let store = if label.starts_with("decoy") { "shared_decoy" } else { "shared" };
        let shape = label.split('.').next().unwrap_or("").to_string();
        let shape = if store == "shared_decoy" { label["decoy.".len()..].to_string() } else { shape };
        cells.push(CellCase {
            t: Some("s".into()),
            kids,
            expect: Some(text.clone()),
            label: form_label(store, &shape, pfx, evs, if prev_empty { ".after_textless_item" } else { "" }),
        });
        prev_empty = prev_empty || label == "decoy.nochild" || label == "decoy.phonly";
    }
    ws(rng, &mut sst);
    sst.push(en(&q(pfx, "sst")));
    // inline
    let mut iforms: Vec<(Shape, Esc)> = pick_shapes(rng).into_iter().map(|sh| (sh, *rng.pick(&all_esc()))).collect();
    iforms.push((Shape::Plain, Esc::CData));
    iforms.push((Shape::Plain, Esc::Numeric));
    for (shape, esc) in iforms {
        let body = item_body(rng, pfx, s, shape, esc);
        let kids = wrap_item(pfx, "is", body, false);
        let label = form_label("inline", &shape.label(), pfx, &kids, "");
        cells.push(CellCase { t: Some("inlineStr".into()), kids, expect: Some(s.to_string()), label });
    }
    // formula string results
    for esc in all_esc() {
        let mut kids = vec![];
        let with_f = rng.chance(2, 3);
        if with_f {
            let f = q(pfx, "f");
            kids.push(st(&f, &[]));
            let e = *rng.pick(&[Esc::Plain, Esc::Mixed]);
            kids.extend(chunks(rng, "A1&\"<x>\"", e));
            kids.push(en(&f));
        }
        let vname = q(pfx, "v");
        if s.is_empty() && rng.chance(1, 2) {
            kids.push(em(&vname, &[]));
        } else {
            kids.push(st(&vname, &[]));
            kids.extend(chunks(rng, s, esc));
            kids.push(en(&vname));
        }
        let label = form_label("str", if with_f { "formula" } else { "nof" }, pfx, &kids, "");
        if with_f {
            // the same cell seen through worksheet_formula: the text of <f>
            let fl = form_label("formula_text", "f", pfx, &kids[..kids.iter().position(|e| matches!(e, X::End(_))).unwrap()], "");
            cells.push(CellCase { t: Some("str^f".into()), kids: kids.clone(), expect: Some("A1&\"<x>\"".into()), label: fl });
        }
        cells.push(CellCase { t: Some("str".into()), kids, expect: Some(s.to_string()), label });
    }
    XlsxCase { latin: false, pfx: pfx.to_string(), sst, cells }
}

fn xlsx_sheet_data(c: &XlsxCase) -> String {
    let p = &c.pfx;
    let mut o = String::new();
    for (i, cell) in c.cells.iter().enumerate() {
        if cell.t.as_deref() == Some("^table") {
            // not a cell: the whole shared string table, observed through the verif hook
            continue;
        }
        o.push_str(&format!("<{} r=\"{}\"><{} r=\"A{}\"", q(p, "row"), i + 1, q(p, "c"), i + 1));
        if let Some(t) = &cell.t {
            // `str^f`: a t="str" cell observed through worksheet_formula (its formula text)
            o.push_str(&format!(" t=\"{}\"", t.split('^').next().unwrap()));
        }
        o.push('>');
        o.push_str(&xml(&cell.kids));
        o.push_str(&format!("</{}></{}>", q(p, "c"), q(p, "row")));
    }
    o
}

fn xlsx_bytes(c: &XlsxCase) -> Vec<u8> {
    let p = &c.pfx;
    let ns = if p.is_empty() { format!("xmlns=\"{}\"", xlsxw::NS_MAIN) } else { format!("xmlns:{p}=\"{}\"", xlsxw::NS_MAIN) };
    let sheet = format!(
        "<?xml version=\"1.0\" encoding=\"UTF-8\" standalone=\"yes\"?>\n<{} {ns}><{}>{}</{}></{}>",
        q(p, "worksheet"),
        q(p, "sheetData"),
        xlsx_sheet_data(c),
        q(p, "sheetData"),
        q(p, "worksheet")
    );
    let mut book = xlsxw::XlsxBook::new();
    let mut sh = xlsxw::XlsxSheet::new("S");
    sh.raw_xml = Some(sheet);
    book.sheets.push(sh);
    book.raw_shared_strings =
        Some(if c.sst.is_empty() { String::new() } else { format!("<?xml version=\"1.0\" encoding=\"UTF-8\" standalone=\"yes\"?>\n{}", xml(&c.sst)) });
    let mut l = xlsxw::Layout::plain();
    l.prefix = p.clone();
    l.seed = 7;
    let built = book.build(&l);
    if c.latin {
        let parts: Vec<(String, Vec<u8>)> = built
            .parts
            .into_iter()
            .filter(|(n, _)| !(c.sst.is_empty() && n.to_ascii_lowercase().ends_with("sharedstrings.xml")))
            .map(|(n, b)| {
                let low = n.to_ascii_lowercase();
                if low.ends_with("sharedstrings.xml") || low.ends_with("sheet1.xml") {
                    let text = String::from_utf8(b).unwrap();
                    assert!(latin_ok(&text));
                    let k = text.len() as u64;
                    (n, to_latin(&text, k))
                } else {
                    (n, b)
                }
            })
            .collect();
        return xlsxw::zip_parts(&parts, xlsxw::Compression::Deflated, &mut Rng::new(1));
    }
    if c.sst.is_empty() {
        // no shared string part at all
        let parts: Vec<(String, Vec<u8>)> = built.parts.into_iter().filter(|(n, _)| !n.to_ascii_lowercase().ends_with("sharedstrings.xml")).collect();
        return xlsxw::zip_parts(&parts, xlsxw::Compression::Deflated, &mut Rng::new(1));
    }
    built.bytes
}

// ------------------------------------------------------------------------------------------------
// ods forms
// ------------------------------------------------------------------------------------------------

/// pieces of one paragraph: literal text in every spelling, spaces literal or as `text:s`, spans around anything
fn para_pieces(rng: &mut Rng, p: &str, space_mode: u8, esc: Esc, depth: u32) -> Vec<X> {
    let cs: Vec<char> = p.chars().collect();
    let mut out = vec![];
    let mut i = 0;
    while i < cs.len() {
        // long paragraphs: after ~150 pieces the rest is one literal stretch (the model appends to a list)
        if out.len() > (if cs.len() > 2000 { 10 } else { 150 }) {
            let rest: String = cs[i..].iter().collect();
            push_text(&mut out, &rest, vec![]);
            break;
        }
        // optional span around a random stretch
        if depth < 2 && rng.chance(1, 8) {
            let len = 1 + rng.below((cs.len() - i) as u64) as usize;
            let inner: String = cs[i..i + len].iter().collect();
            let (tag, attrs): (&str, Vec<(&str, &str)>) = if rng.chance(1, 4) {
                ("text:a", vec![("xlink:href", "http://x/?a=1&b=2")])
            } else {
                ("text:span", vec![("text:style-name", "T1")])
            };
            out.push(st(tag, &attrs));
            out.extend(para_pieces(rng, &inner, space_mode, esc, depth + 1));
            out.push(en(tag));
            i += len;
            continue;
        }
        if cs[i] == ' ' {
            let mut k = 1;
            while i + k < cs.len() && cs[i + k] == ' ' {
                k += 1;
            }
            // 0 literal, 1 every space an element, 2 one element for the run, 3 random mix
            let mode = if space_mode == 3 { rng.below(3) as u8 } else { space_mode };
            match mode {
                0 => push_text(&mut out, &" ".repeat(k), vec![]),
                1 => {
                    for _ in 0..k {
                        out.push(em("text:s", &[]));
                    }
                }
                _ => {
                    let first = if rng.chance(1, 2) && k > 1 { 1 } else { 0 };
                    if first == 1 {
                        push_text(&mut out, " ", vec![]);
                    }
                    let n = (k - first).to_string();
                    let n = if rng.chance(1, 16) { format!("+{n}") } else { n };
                    if rng.chance(1, 2) {
                        out.push(em("text:s", &[("text:c", &n)]));
                    } else {
                        out.push(st("text:s", &[("text:c", &n)]));
                        out.push(en("text:s"));
                    }
                    if rng.chance(1, 10) {
                        out.push(em("text:s", &[("text:c", "0")]));
                    }
                }
            }
            i += k;
            continue;
        }
        let mut k = 1;
        while i + k < cs.len() && cs[i + k] != ' ' && k < 40 {
            k += 1;
        }
        let len = 1 + rng.below(k as u64) as usize;
        let seg: String = cs[i..i + len].iter().collect();
        for e in chunks(rng, &seg, esc) {
            match e {
                X::Text(s, m) => push_text(&mut out, &s, m),
                e => out.push(e),
            }
        }
        i += len;
    }
    out
}

fn gen_ods(rng: &mut Rng, s: &str) -> OdsCase {
    let mut cells = vec![];
    // (space mode, spelling, annotation, covered)
    let forms: Vec<(u8, Esc, bool, bool)> = vec![
        (0, Esc::Plain, false, false),
        (1, Esc::Plain, false, false),
        (2, Esc::Named, false, false),
        (3, Esc::Mixed, false, false),
        (3, Esc::Mixed, true, false),
        (0, Esc::CData, false, false),
        (2, Esc::Numeric, true, false),
        (3, Esc::Mixed, false, true),
    ];
    for (space_mode, esc, annot, covered) in forms {
        // at most 3 of the newlines become paragraph breaks; the others stay inside a paragraph
        let nl: Vec<usize> = s.char_indices().filter(|(_, c)| *c == '\n').map(|(i, _)| i).collect();
        let mut breaks: Vec<usize> = nl.clone();
        if nl.len() > 3 || (rng.chance(1, 6) && !nl.is_empty()) {
            rng.shuffle(&mut breaks);
            breaks.truncate(rng.below(4) as usize);
            breaks.sort();
        }
        let mut paras = vec![];
        let mut p0 = 0;
        for b in &breaks {
            paras.push(&s[p0..*b]);
            p0 = b + 1;
        }
        paras.push(&s[p0..]);
        let mut kids = vec![];
        if annot {
            kids.push(st("office:annotation", &[("draw:style-name", "gr1"), ("svg:width", "2cm")]));
            kids.push(st("dc:date", &[]));
            kids.push(tx("2020-01-01T00:00:00"));
            kids.push(en("dc:date"));
            kids.push(st("text:p", &[]));
            kids.push(tx("note & more"));
            kids.push(em("text:s", &[("text:c", "3")]));
            kids.push(en("text:p"));
            kids.push(en("office:annotation"));
        }
        for p in &paras {
            if p.is_empty() && rng.chance(1, 2) {
                kids.push(em("text:p", &[]));
                continue;
            }
            kids.push(X::Start("text:p".into(), if rng.chance(1, 3) { vec![("text:style-name".into(), "P1".into())] } else { vec![] }));
            kids.extend(para_pieces(rng, p, space_mode, esc, 0));
            kids.push(en("text:p"));
        }
        let label = format!(
            "ods.{}.{}{}{}{}.p{}",
            ["lit", "s1", "sc", "smix"][space_mode as usize],
            esc_label(esc),
            if annot { ".annot" } else { "" },
            if covered { ".covered" } else { "" },
            if has_cdata(&kids) { ".cdata" } else { "" },
            paras.len().min(4)
        );
        cells.push(CellCase { t: if covered { Some("covered".into()) } else { None }, kids, expect: Some(s.to_string()), label });
    }
    // office:string-value carries the string; the paragraphs are display text (different, or absent). The
    // attribute may stand before or after office:value-type, among other attributes, in any quoting style.
    for k in 0..3 {
        let tag = if k == 2 && rng.chance(1, 2) { "table:covered-table-cell" } else { "table:table-cell" };
        let mut attrs: Vec<(String, String)> = vec![("office:value-type".into(), "string".into()), ("office:string-value".into(), s.to_string())];
        if rng.chance(1, 2) {
            attrs.push(("table:style-name".into(), "ce1".into()));
        }
        if rng.chance(1, 2) {
            attrs.insert(0, ("calcext:value-type".into(), "string".into()));
        }
        // k = 0: string-value first, k = 1: natural order, k = 2: a random permutation and quoting style
        let code = match k {
            0 => {
                let i = attrs.iter().position(|a| a.0 == "office:string-value").unwrap();
                let a = attrs.remove(i);
                attrs.insert(0, a);
                0
            }
            1 => 0,
            _ => (rng.next() as u32) & 0x00FF_FFFF,
        };
        let mut kids = vec![X::Start(tag.into(), attrs)];
        match rng.below(3) {
            0 => {}
            1 => {
                kids.push(st("text:p", &[]));
                kids.push(tx("display text"));
                kids.push(en("text:p"));
            }
            _ => {
                kids.push(st("text:p", &[]));
                kids.extend(para_pieces(rng, "shown  <differently>", 3, Esc::Mixed, 0));
                kids.push(en("text:p"));
                kids.push(em("text:p", &[]));
            }
        }
        kids.push(en(tag));
        cells.push(CellCase { t: Some(format!("raw:{code}")), kids, expect: Some(s.to_string()), label: format!("ods.string_value.{}", ["first", "natural", "permuted"][k]) });
    }
    OdsCase { latin: false, cells }
}

fn ods_cell_xml(c: &CellCase) -> String {
    if let Some(code) = c.t.as_deref().and_then(|t| t.strip_prefix("raw:")) {
        // the whole element is in `kids`; the start tag's attributes go through the shared writer's
        // attribute knobs (order permutation, quote character, white space)
        let mut o = String::new();
        if let Some(X::Start(n, a)) = c.kids.first() {
            o.push('<');
            o.push_str(n);
            let esc: Vec<(String, String)> = a.iter().map(|(k, v)| (k.clone(), odsw::escape_attr(v))).collect();
            odsw::write_attrs(&mut o, &esc, odsw::AttrStyle::from_code(code.parse().unwrap_or(0)));
            o.push('>');
        }
        o.push_str(&xml(&c.kids[1..]));
        return o;
    }
    let tag = if c.t.as_deref() == Some("covered") { "table:covered-table-cell" } else { "table:table-cell" };
    format!("<{tag} office:value-type=\"string\">{}</{tag}>", xml(&c.kids))
}

/// the attributes in the order `odsw::write_attrs` writes them for this style code (same permutation)
fn permuted_attrs(attrs: &[(String, String)], t: &str) -> Vec<(String, String)> {
    let code: u32 = t.strip_prefix("raw:").and_then(|c| c.parse().ok()).unwrap_or(0);
    let st = odsw::AttrStyle::from_code(code);
    let mut idx: Vec<usize> = (0..attrs.len()).collect();
    if st.order != 0 {
        let mut x = st.order as u64;
        for i in (1..idx.len()).rev() {
            x = x.wrapping_mul(6364136223846793005).wrapping_add(1442695040888963407);
            let j = ((x >> 33) % (i as u64 + 1)) as usize;
            idx.swap(i, j);
        }
    }
    idx.into_iter().map(|i| attrs[i].clone()).collect()
}

/// can every character be written as one byte that means the same in windows-1252 and ISO-8859-1?
fn latin_ok(s: &str) -> bool {
    s.chars().all(|c| (c as u32) < 0x80 || (0xA0..=0xFF).contains(&(c as u32)))
}

/// an XML part re-encoded in a single-byte encoding, its declaration saying so
fn to_latin(xml_text: &str, rng_pick: u64) -> Vec<u8> {
    let label = ["windows-1252", "ISO-8859-1", "iso-8859-1", "latin1"][(rng_pick % 4) as usize];
    let body = match xml_text.find("?>") {
        Some(i) if xml_text.starts_with("<?xml") => &xml_text[i + 2..],
        _ => xml_text,
    };
    let mut out = format!("<?xml version=\"1.0\" encoding=\"{label}\"?>").into_bytes();
    out.extend(body.chars().map(|c| c as u32 as u8));
    out
}

fn ods_bytes(c: &OdsCase) -> Vec<u8> {
    if c.latin {
        let rows: Vec<odsw::RowRun> = c
            .cells
            .iter()
            .map(|cell| {
                let mut oc = odsw::OdsCell::string("x");
                oc.raw = Some(ods_cell_xml(cell));
                odsw::RowRun::new(vec![oc])
            })
            .collect();
        // the shared writer's declared-encoding knob (both labels mean windows-1252 to the decoder)
        let mut book = odsw::OdsBook::new(vec![odsw::OdsSheet::new("S", rows)]);
        book.encoding = Some(if c.cells.len() % 2 == 0 { "windows-1252" } else { "ISO-8859-1" });
        return book.to_bytes();
    }
    let rows = c
        .cells
        .iter()
        .map(|cell| {
            let mut oc = odsw::OdsCell::string("x");
            oc.raw = Some(ods_cell_xml(cell));
            odsw::RowRun::new(vec![oc])
        })
        .collect();
    odsw::OdsBook::new(vec![odsw::OdsSheet::new("S", rows)]).to_bytes()
}

// ------------------------------------------------------------------------------------------------
// event soup: arbitrary (also ill-nested) element sequences, to tie the model's state machines to the code
// beyond the well-formed forms. Compared implementation vs model only (no oracle: outside the property).
// ------------------------------------------------------------------------------------------------

fn soup(rng: &mut Rng, names: &[&str], attrs_for: &dyn Fn(&mut Rng, &str) -> Vec<(String, String)>, max: u64) -> Vec<X> {
    let mut out: Vec<X> = vec![];
    let mut stack: Vec<String> = vec![];
    let n = rng.below(max + 1);
    for _ in 0..n {
        let chaos = rng.chance(1, 4);
        match rng.below(10) {
            0..=3 => {
                let name = rng.pick(names).to_string();
                let a = attrs_for(rng, &name);
                if rng.chance(1, 5) {
                    out.push(X::Empty(name, a));
                } else {
                    stack.push(name.clone());
                    out.push(X::Start(name, a));
                }
            }
            4..=6 => {
                // quick-xml (check_end_names = false) accepts any name in an end tag but rejects an end tag
                // with nothing open: the soup keeps the depth non-negative, the names are free
                if let Some(open) = stack.pop() {
                    out.push(X::End(if chaos { rng.pick(names).to_string() } else { open }));
                }
            }
            7 | 8 => {
                let t = *rng.pick(&["a", "b c", " ", "&<", "é😀", "12", "\n"]);
                let e = if rng.chance(1, 4) { Esc::CData } else { Esc::Plain };
                for x in chunks(rng, t, e) {
                    match x {
                        X::Text(s, m) => push_text(&mut out, &s, m),
                        x => out.push(x),
                    }
                }
            }
            _ => out.push(X::Comment),
        }
    }
    // usually close what is open
    if rng.chance(3, 4) {
        while let Some(nm) = stack.pop() {
            out.push(X::End(nm));
        }
    }
    out
}

fn no_attrs(_: &mut Rng, _: &str) -> Vec<(String, String)> {
    vec![]
}

const SI_NAMES: &[&str] = &["si", "r", "rPh", "t", "rPr", "phoneticPr", "x:t", "x:r", "x:si", "x:rPh", "b", "is", "sst"];
const IS_NAMES: &[&str] = &["is", "r", "rPh", "t", "rPr", "x:t", "x:r", "x:is", "x:rPh", "v", "f", "si"];
const ODS_NAMES: &[&str] = &["text:p", "text:s", "text:span", "office:annotation", "text:a", "p", "text:tab", "dc:date", "s"];

fn gen_soup_cases(rng: &mut Rng) -> Vec<Case> {
    let mut v = vec![];
    // 1. the shared string part is soup; one cell per string the model finds (plus a sentinel)
    let pfx = if rng.chance(1, 3) { "x" } else { "" };
    let mut sst = vec![X::Start(
        q(pfx, "sst"),
        vec![(if pfx.is_empty() { "xmlns".to_string() } else { format!("xmlns:{pfx}") }, xlsxw::NS_MAIN.to_string())],
    )];
    sst.extend(soup(rng, SI_NAMES, &no_attrs, 24));
    sst.push(en(&q(pfx, "sst")));
    let cells = vec![
        CellCase {
            t: Some("str".into()),
            kids: vec![st(&q(pfx, "v"), &[]), tx("sentinel"), en(&q(pfx, "v"))],
            expect: None,
            label: "soup.xlsx.sst.sentinel".into(),
        },
        CellCase { t: Some("^table".into()), kids: vec![], expect: None, label: "soup.xlsx.sst.table".into() },
    ];
    v.push(Case::Xlsx(XlsxCase { latin: false, pfx: pfx.into(), sst, cells }));
    // 2. one cell whose children are soup (inline string, value, formula in any order and nesting)
    let pfx = if rng.chance(1, 3) { "x" } else { "" };
    let mut kids = vec![];
    if rng.chance(2, 3) {
        kids.push(st(&q(pfx, "is"), &[]));
        kids.extend(soup(rng, IS_NAMES, &no_attrs, 16));
        kids.push(en(&q(pfx, "is")));
    } else {
        kids.extend(soup(rng, &["is", "v", "f", "t", "r", "x:v", "x:f", "x:is"], &no_attrs, 10));
    }
    let t = *rng.pick(&[Some("inlineStr"), Some("str"), Some("s"), Some("is")]);
    let sst1 = sst_of(pfx, vec![wrap_item(pfx, "si", vec![st(&q(pfx, "t"), &[]), tx("zero"), en(&q(pfx, "t"))], false)]);
    v.push(Case::Xlsx(XlsxCase { latin: false,
        pfx: pfx.into(),
        sst: sst1,
        cells: vec![CellCase { t: t.map(|x| x.to_string()), kids, expect: None, label: "soup.xlsx.cell".into() }],
    }));
    // 3. one ods string cell whose content is soup
    let ods_attrs = |rng: &mut Rng, name: &str| -> Vec<(String, String)> {
        if name == "text:s" && rng.chance(2, 3) {
            let c = *rng.pick(&["0", "1", "2", "3", "007", "+4", "x", "", "-1", " 2", "2 ", "18446744073709551616"]);
            let k = *rng.pick(&["text:c", "text:c", "text:c", "c", "text:d"]);
            vec![(k.to_string(), c.to_string())]
        } else {
            vec![]
        }
    };
    let kids = soup(rng, ODS_NAMES, &ods_attrs, 16);
    v.push(Case::Ods(OdsCase { latin: false, cells: vec![CellCase { t: if rng.chance(1, 5) { Some("covered".into()) } else { None }, kids, expect: None, label: "soup.ods.cell".into() }] }));
    v
}

// ------------------------------------------------------------------------------------------------
// xlsb / xls forms
// ------------------------------------------------------------------------------------------------

fn gen_bin_cells(rng: &mut Rng, s: &str, fmt: &str) -> (Vec<(u8, Vec<u16>, Vec<u8>)>, Vec<BinCell>) {
    let units: Vec<u16> = s.encode_utf16().collect();
    let mut sst: Vec<(u8, Vec<u16>, Vec<u8>)> = vec![];
    let mut cells = vec![];
    let shared = |rng: &mut Rng, sst: &mut Vec<(u8, Vec<u16>, Vec<u8>)>, cells: &mut Vec<BinCell>, u: &[u16], text: &str, label: &str| {
        // xlsb: flags (bit0 rich runs follow, bit1 phonetic data follows) and the trailing structures
        let (flags, trail): (u8, Vec<u8>) = match rng.below(3) {
            0 => (0, vec![]),
            1 => {
                let mut t = 1u32.to_le_bytes().to_vec();
                t.extend_from_slice(&[0, 0, 1, 0]);
                (1, t)
            }
            _ => {
                let mut t = xlsbw::wide_str("フリ");
                t.extend_from_slice(&0u32.to_le_bytes());
                (2, t)
            }
        };
        sst.push((flags, u.to_vec(), trail));
        cells.push(BinCell { kind: "isst".into(), isst: sst.len() as u32 - 1, units: vec![], expect: text.to_string(), label: format!("{fmt}.shared.{label}") });
    };
    // (an empty shared string read through a cell is a known finding of the xls reader: corpus only)
    if rng.chance(1, 2) && fmt != "xls" {
        shared(rng, &mut sst, &mut cells, &[], "", "decoy_empty");
    }
    shared(rng, &mut sst, &mut cells, &units, s, "item");
    if rng.chance(1, 2) {
        shared(rng, &mut sst, &mut cells, &"decoy".encode_utf16().collect::<Vec<_>>(), "decoy", "decoy");
    }
    shared(rng, &mut sst, &mut cells, &units, s, "item_again");
    cells.push(BinCell { kind: "st".into(), isst: 0, units: units.clone(), expect: s.to_string(), label: format!("{fmt}.inline") });
    cells.push(BinCell { kind: "fmla".into(), isst: 0, units: units.clone(), expect: s.to_string(), label: format!("{fmt}.formula_string") });
    if fmt == "xls" {
        // the first cell of a shared formula / array formula / data table: FORMULA, SHRFMLA | ARRAY | TABLE, STRING
        for k in ["shrfmla", "array", "table"] {
            cells.push(BinCell { kind: format!("fmla_{k}"), isst: 0, units: units.clone(), expect: s.to_string(), label: format!("{fmt}.formula_string_{k}") });
        }
    }
    (sst, cells)
}

fn xlsb_sst_part(sst: &[(u8, Vec<u16>, Vec<u8>)]) -> Vec<u8> {
    let mut fr = xlsbw::Framer::new(&xlsbw::Framing::Minimal, 0);
    let mut o = vec![];
    let mut p = (sst.len() as u32).to_le_bytes().to_vec();
    p.extend_from_slice(&(sst.len() as u32).to_le_bytes());
    fr.rec(&mut o, 0x009F, &p);
    for (flags, units, trail) in sst {
        let mut p = vec![*flags];
        p.extend_from_slice(&xlsbw::wide_units(units));
        p.extend_from_slice(trail);
        fr.rec(&mut o, 0x0013, &p);
    }
    fr.rec(&mut o, 0x00A0, &[]);
    o
}

fn xlsb_bytes(c: &XlsbCase) -> Vec<u8> {
    let mut b = xlsbw::XlsbBook::new();
    b.sst = None;
    b.extra_parts.push(("xl/sharedStrings.bin".into(), xlsb_sst_part(&c.sst)));
    let mut s = xlsbw::XlsbSheet::new("S");
    for (i, cell) in c.cells.iter().enumerate() {
        match cell.kind.as_str() {
            "isst" => {
                s.set(i as u32, 0, xlsbw::BVal::Isst(cell.isst));
            }
            "st" => {
                s.set(i as u32, 0, xlsbw::BVal::Str(cell.units.clone()));
            }
            _ => {
                s.set(i as u32, 0, xlsbw::BVal::Str(cell.units.clone())).fmla = Some(xlsbw::Fmla::trivial());
            }
        }
    }
    b.sheets.push(s);
    b.to_bytes()
}

/// SST + CONTINUE payloads with record boundaries *inside* the strings: every segment of a string chooses
/// its own storage (8-bit when all its units are < 0x100, else 16-bit), so the packing may switch at a
/// boundary in both directions (MS-XLS 2.5.293: the continuation starts with a fresh fHighByte flag).
/// Returns the fragments and the number of (8→16, 16→8) switches written.
fn xls_sst_split(strings: &[String], rng: &mut Rng) -> (Vec<Vec<u8>>, (u64, u64)) {
    const MAX: usize = 8224;
    let mut frags: Vec<Vec<u8>> = vec![];
    let mut cur: Vec<u8> = vec![];
    let mut sw = (0u64, 0u64);
    cur.extend_from_slice(&(strings.len() as u32 + 1).to_le_bytes());
    cur.extend_from_slice(&(strings.len() as u32).to_le_bytes());
    for s in strings {
        let u: Vec<u16> = s.encode_utf16().collect();
        if cur.len() + 3 > MAX {
            frags.push(std::mem::take(&mut cur));
        }
        if u.is_empty() {
            cur.extend_from_slice(&[0, 0, 0]);
            continue;
        }
        // cut points: the places where the text changes between Latin-1 and wider characters, and random ones
        let mut cuts: Vec<usize> = vec![];
        for i in 1..u.len() {
            let low = (0xDC00..0xE000).contains(&u[i]);
            let transition = (u[i - 1] < 256) != (u[i] < 256);
            if !low && ((transition && rng.chance(3, 4)) || rng.chance(1, 12.max(u.len() as u64 / 3))) {
                cuts.push(i);
            }
        }
        let mut pos = 0;
        let mut first = true;
        let mut prev8: Option<bool> = None;
        loop {
            let end = cuts.iter().copied().find(|c| *c > pos).unwrap_or(u.len());
            let use8 = u[pos..end].iter().all(|x| *x < 256) && rng.chance(3, 4);
            let unit = if use8 { 1 } else { 2 };
            let hdr = if first { 3 } else { 1 };
            let room = MAX.saturating_sub(cur.len() + hdr) / unit;
            let mut n = (end - pos).min(room);
            if n > 0 && pos + n < u.len() && (0xDC00..0xE000).contains(&u[pos + n]) {
                n -= 1;
            }
            if n == 0 {
                // no room for a single character: next record (the string header is never split)
                frags.push(std::mem::take(&mut cur));
                continue;
            }
            if first {
                cur.extend_from_slice(&(u.len() as u16).to_le_bytes());
            }
            cur.push(if use8 { 0 } else { 1 });
            for x in &u[pos..pos + n] {
                if use8 {
                    cur.push(*x as u8);
                } else {
                    cur.extend_from_slice(&x.to_le_bytes());
                }
            }
            match prev8 {
                Some(true) if !use8 => sw.0 += 1,
                Some(false) if use8 => sw.1 += 1,
                _ => {}
            }
            prev8 = Some(use8);
            pos += n;
            first = false;
            if pos >= u.len() {
                break;
            }
            frags.push(std::mem::take(&mut cur));
        }
    }
    frags.push(cur);
    (frags, sw)
}

fn xls_bytes(c: &XlsCase) -> (Vec<u8>, (u64, u64)) {
    let mut rng = Rng::new(c.seed);
    let mut b = xlsw::XlsBook::new();
    b.sst = c.sst.clone();
    let mut sw = (0, 0);
    if c.split {
        let (frags, n) = xls_sst_split(&c.sst, &mut rng);
        b.sst_raw = Some(frags);
        sw = n;
    }
    let mut s = xlsw::XlsSheet::new("S");
    for (i, cell) in c.cells.iter().enumerate() {
        let text = String::from_utf16_lossy(&cell.units);
        if let Some(k) = cell.kind.strip_prefix("fmla_") {
            // FORMULA (string result pending), the shared-formula / array / table definition, then STRING
            let row = i as u16;
            let fp = xlsw::formula_payload(row, 0, 0, xlsw::formula_value(&xlsw::Cached::Str(String::new())), &xlsw::rgce_int(1));
            s.cells.push(xlsw::XlsCell::raw(xlsw::FORMULA, fp));
            let mut rf = row.to_le_bytes().to_vec(); // Ref / RefU: rwFirst rwLast colFirst colLast
            rf.extend_from_slice(&(row + 1).to_le_bytes());
            rf.extend_from_slice(&[0, 1]);
            let fm = |d: &mut Vec<u8>| {
                let rg = xlsw::rgce_int(1);
                d.extend_from_slice(&(rg.len() as u16).to_le_bytes());
                d.extend_from_slice(&rg);
            };
            let (id, payload) = match k {
                "shrfmla" => {
                    let mut d = rf.clone();
                    d.extend_from_slice(&[0, 2]); // reserved, cUse
                    fm(&mut d);
                    (0x04BCu16, d)
                }
                "array" => {
                    let mut d = rf.clone();
                    d.extend_from_slice(&0u16.to_le_bytes());
                    d.extend_from_slice(&0u32.to_le_bytes());
                    fm(&mut d);
                    (0x0221, d)
                }
                _ => {
                    let mut d = rf.clone();
                    d.extend_from_slice(&0u16.to_le_bytes());
                    d.extend_from_slice(&[0, 0, 0, 0, 0, 0, 0, 0]);
                    (0x0236, d)
                }
            };
            s.cells.push(xlsw::XlsCell::raw(id, payload));
            s.cells.push(xlsw::XlsCell::raw(xlsw::STRING, xlsw::xl_unicode_string(&text, None, &mut rng)));
            continue;
        }
        let v = match cell.kind.as_str() {
            "isst" => xlsw::CellV::LabelSst(cell.isst),
            "st" => xlsw::CellV::Label(text, None),
            _ => xlsw::CellV::Formula { rgce: xlsw::rgce_int(1), cached: xlsw::Cached::Str(text) },
        };
        s.cells.push(xlsw::XlsCell::new(i as u16, 0, v));
    }
    b.sheets.push(s);
    // container: one file in four also carries a BIFF5-style `Book` stream (a copy of the sheet in which every
    // character outside Latin-1 is `?`), before or after the `Workbook` stream in directory order: the texts
    // must come from `Workbook`
    let dual = c.seed % 8;
    if dual < 2 {
        let wb = b.workbook_stream(&mut rng);
        let mut d = xlsw::XlsBook::new();
        let mut ds = xlsw::XlsSheet::new("S");
        for (i, cell) in c.cells.iter().enumerate() {
            let lossy: String = cell.expect.chars().map(|ch| if (ch as u32) < 256 { ch } else { '?' }).take(200).collect();
            ds.cells.push(xlsw::XlsCell::new(i as u16, 0, xlsw::CellV::Label(format!("book:{lossy}"), None)));
        }
        d.sheets.push(ds);
        let decoy = d.workbook_stream(&mut rng);
        let mut opts = verif_harness::cfbw::CfbOpts::random(&mut rng);
        opts.dir_shuffle = false;
        if wb.len() >= 4096 || decoy.len() >= 4096 {
            opts.sector_size = 512;
        }
        let streams: Vec<(String, Vec<u8>)> =
            if dual == 0 { vec![("Book".into(), decoy), ("Workbook".into(), wb)] } else { vec![("Workbook".into(), wb), ("Book".into(), decoy)] };
        return (verif_harness::cfbw::write_cfb(&streams, &opts, &mut rng), sw);
    }
    (b.to_bytes(&mut rng), sw)
}

// ------------------------------------------------------------------------------------------------
// running a case: impl vs model vs oracle
// ------------------------------------------------------------------------------------------------

fn canon_data(d: Option<&Data>) -> String {
    match d {
        Some(Data::String(s)) => format!("S:{}", hx(s.as_bytes())),
        Some(Data::Empty) | None => "empty".into(),
        Some(o) => format!("other:{o:?}"),
    }
}

fn class(s: &str) -> &str {
    if s.starts_with("err") {
        "err"
    } else if s.starts_with("panic") {
        "panic"
    } else {
        s
    }
}

fn column<E: std::fmt::Debug>(n: usize, f: impl FnOnce() -> Result<calamine::Range<Data>, E>) -> Vec<String> {
    match guarded(f) {
        Ok(Ok(r)) => (0..n).map(|i| canon_data(r.get_value((i as u32, 0)))).collect(),
        Ok(Err(e)) => vec![format!("err:{}", clip(&format!("{e:?}"))); n],
        Err(p) => vec![format!("panic:{}", clip(&p)); n],
    }
}

/// model reply of a `cell` / `odscell` request → canonical cell value
fn canon_model(reply: &str) -> String {
    if let Some(r) = reply.strip_prefix("ok ") {
        let r = r.split(' ').next().unwrap();
        if let Some(h) = r.strip_prefix("str:").or_else(|| r.strip_prefix("shared:")) {
            return format!("S:{}", if h == "-" { "" } else { h });
        }
        if r == "empty" {
            return "empty".into();
        }
        return format!("other:{r}");
    }
    reply.to_string()
}

struct Outcome {
    /// per observed cell: (label, expect, impl, model)
    cells: Vec<(String, Option<String>, String, String)>,
    /// hash of the file that was read
    file_hash: u64,
    /// counters gathered while running (bytes written, microseconds per phase)
    stats: Vec<(&'static str, u64)>,
}

/// counters of one run (merged into the report by the main thread)
struct Stats(Vec<(&'static str, u64)>);
impl Stats {
    fn add(&mut self, k: &'static str, v: u64) {
        self.0.push((k, v));
    }
    fn count(&mut self, k: &'static str) {
        self.0.push((k, 1));
    }
}

fn run_case(case: &Case, drv: &mut Driver) -> Outcome {
    let t0 = std::time::Instant::now();
    let mut st = Stats(vec![]);
    let mut o = run_case_inner(case, drv, &mut st);
    st.add("time_us.total", t0.elapsed().as_micros() as u64);
    o.stats = st.0;
    o
}

fn ask(drv: &mut Driver, rep: &mut Stats, req: &str) -> String {
    rep.add("model.request_bytes", req.len() as u64);
    let t0 = std::time::Instant::now();
    let r = drv.ask(req);
    rep.add("time_us.model", t0.elapsed().as_micros() as u64);
    r
}

fn timed<T>(rep: &mut Stats, key: &'static str, f: impl FnOnce() -> T) -> T {
    let t0 = std::time::Instant::now();
    let r = f();
    rep.add(key, t0.elapsed().as_micros() as u64);
    r
}

fn run_case_inner(case: &Case, drv: &mut Driver, rep: &mut Stats) -> Outcome {
    match case {
        Case::Xlsx(c) => {
            let bytes = timed(rep, "time_us.write", || xlsx_bytes(c));
            let file_hash = verif_harness::fnv64(&bytes);
            rep.add("bytes.xlsx", bytes.len() as u64);
            let t_imp = std::time::Instant::now();
            let want_f = c.cells.iter().any(|x| x.t.as_deref() == Some("str^f"));
            let bytes2 = if want_f { bytes.clone() } else { vec![] };
            let mut imp = column(c.cells.len(), || {
                let mut wb: Xlsx<_> = Xlsx::new(Cursor::new(bytes)).map_err(|e| format!("open: {e:?}"))?;
                wb.worksheet_range("S").map_err(|e| format!("range: {e:?}"))
            });
            if let Some(ti) = c.cells.iter().position(|x| x.t.as_deref() == Some("^table")) {
                #[cfg(feature = "hooks")]
                {
                    let b3 = xlsx_bytes(c);
                    imp[ti] = match guarded(|| Xlsx::new(Cursor::new(b3)).map(|wb| calamine::verif_hooks::xlsx::shared_strings(&wb))) {
                        Ok(Ok(l)) => format!("S:{}", hx(l.iter().map(|s| hx(s.as_bytes())).collect::<Vec<_>>().join(",").as_bytes())),
                        Ok(Err(e)) => format!("err:{}", clip(&format!("{e:?}"))),
                        Err(p) => format!("panic:{}", clip(&p)),
                    };
                }
                #[cfg(not(feature = "hooks"))]
                {
                    let _ = ti;
                    rep.count("hooks_unavailable");
                }
            }
            if want_f {
                let n = c.cells.len();
                let fcol: Vec<String> = match guarded(|| -> Result<calamine::Range<String>, String> {
                    let mut wb: Xlsx<_> = Xlsx::new(Cursor::new(bytes2)).map_err(|e| format!("open: {e:?}"))?;
                    wb.worksheet_formula("S").map_err(|e| format!("formula: {e:?}"))
                }) {
                    Ok(Ok(r)) => (0..n).map(|i| format!("S:{}", hx(r.get_value((i as u32, 0)).map(|s| s.as_bytes()).unwrap_or(b"")))).collect(),
                    Ok(Err(e)) => vec![format!("err:{}", clip(&e)); n],
                    Err(p) => vec![format!("panic:{}", clip(&p)); n],
                };
                for (i, cell) in c.cells.iter().enumerate() {
                    if cell.t.as_deref() == Some("str^f") {
                        imp[i] = fcol[i].clone();
                    }
                }
            }
            rep.add("time_us.impl", t_imp.elapsed().as_micros() as u64);
            // model: the table first (the workbook does not open when it fails), then every cell
            let (table, table_err): (Vec<String>, Option<String>) = if c.sst.is_empty() {
                (vec![], None)
            } else {
                let r = ask(drv, rep, &format!("sst {}", wire(&c.sst)));
                match r.strip_prefix("ok ") {
                    Some(l) => (l.split(' ').skip(1).map(|h| if h == "-" { String::new() } else { h.to_string() }).collect(), None),
                    None => (vec![], Some(r)),
                }
            };
            let table_arg = if table.is_empty() { "-".to_string() } else { table.join(",") };
            let small = table_arg.len() <= 6000;
            let cname = hx(q(&c.pfx, "c").as_bytes());
            let mut reqs = vec![];
            for cell in &c.cells {
                if cell.t.as_deref() == Some("str^f") {
                    reqs.push(format!("fmla {} E{}", wire(&cell.kids), cname));
                    continue;
                }
                if cell.t.as_deref() == Some("^table") {
                    reqs.push("^".into());
                    continue;
                }
                let arg = if small || cell.t.as_deref() != Some("s") { &table_arg } else { "" };
                if arg.is_empty() && cell.t.as_deref() == Some("s") {
                    reqs.push(String::new());
                } else {
                    let arg = if cell.t.as_deref() == Some("s") { arg } else { "-" };
                    reqs.push(format!("cell {} {} {} E{}", cell.t.clone().unwrap_or("-".into()), arg, wire(&cell.kids), cname));
                }
            }
            let live: Vec<&String> = reqs.iter().filter(|r| !r.is_empty() && r.as_str() != "^").collect();
            let replies: Vec<String> = if live.is_empty() {
                vec![]
            } else {
                ask(drv, rep, &live.iter().map(|s| s.as_str()).collect::<Vec<_>>().join(" | ")).split(" | ").map(|s| s.to_string()).collect()
            };
            let mut ri = 0;
            let mut cells = vec![];
            for (i, cell) in c.cells.iter().enumerate() {
                let model = if let Some(e) = &table_err {
                    e.clone()
                } else if reqs[i] == "^" {
                    if cfg!(feature = "hooks") {
                        format!("S:{}", hx(table.join(",").as_bytes()))
                    } else {
                        imp[i].clone()
                    }
                } else if reqs[i].is_empty() {
                    // big table: the index lookup is done here on the model's table
                    rep.count("model.shared_lookup_outside_driver");
                    let digits: String = cell.kids.iter().map(|e| match e { X::Text(v, _) | X::CData(v) => v.as_str(), _ => "" }).collect();
                    let idx: usize = digits.parse().unwrap_or(0);
                    table.get(idx).map(|h| format!("S:{h}")).unwrap_or("panic:index".into())
                } else {
                    ri += 1;
                    canon_model(&replies[ri - 1])
                };
                cells.push((cell.label.clone(), cell.expect.clone(), imp[i].clone(), model));
            }
            Outcome { cells, file_hash, stats: vec![] }
        }
        Case::Ods(c) => {
            let bytes = timed(rep, "time_us.write", || ods_bytes(c));
            let file_hash = verif_harness::fnv64(&bytes);
            rep.add("bytes.ods", bytes.len() as u64);
            let t_imp = std::time::Instant::now();
            let imp = column(c.cells.len(), || {
                let mut wb: Ods<_> = Ods::new(Cursor::new(bytes)).map_err(|e| format!("open: {e:?}"))?;
                wb.worksheet_range("S").map_err(|e| format!("range: {e:?}"))
            });
            rep.add("time_us.impl", t_imp.elapsed().as_micros() as u64);
            let reqs: Vec<String> = c
                .cells
                .iter()
                .map(|cell| {
                    if cell.t.as_deref().map_or(false, |t| t.starts_with("raw:")) {
                        // the attribute order the file has is the order after the writer's permutation
                        let mut kids = cell.kids.clone();
                        if let Some(X::Start(_, a)) = kids.first_mut() {
                            *a = permuted_attrs(a, cell.t.as_deref().unwrap());
                        }
                        return format!("odsval {}", wire(&kids));
                    }
                    let tag = if cell.t.as_deref() == Some("covered") { "table:covered-table-cell" } else { "table:table-cell" };
                    format!("odscell {} E{}", wire(&cell.kids), hx(tag.as_bytes()))
                })
                .collect();
            let reply = ask(drv, rep, &reqs.join(" | "));
            let replies: Vec<&str> = reply.split(" | ").collect();
            let cells = c
                .cells
                .iter()
                .enumerate()
                .map(|(i, cell)| {
                    let m = match replies[i].strip_prefix("ok ") {
                        Some(r) => {
                            let h = r.split(' ').next().unwrap();
                            let h = h.strip_prefix("str:").unwrap_or(h);
                            if h == "other" {
                                "other:-".to_string()
                            } else {
                                format!("S:{}", if h == "-" { "" } else { h })
                            }
                        }
                        None => replies[i].to_string(),
                    };
                    (cell.label.clone(), cell.expect.clone(), imp[i].clone(), m)
                })
                .collect();
            Outcome { cells, file_hash, stats: vec![] }
        }
        Case::Xlsb(c) => {
            let bytes = timed(rep, "time_us.write", || xlsb_bytes(c));
            let file_hash = verif_harness::fnv64(&bytes);
            rep.add("bytes.xlsb", bytes.len() as u64);
            let t_imp = std::time::Instant::now();
            let imp = column(c.cells.len(), || {
                let mut wb: Xlsb<_> = Xlsb::new(Cursor::new(bytes)).map_err(|e| format!("open: {e:?}"))?;
                wb.worksheet_range("S").map_err(|e| format!("range: {e:?}"))
            });
            rep.add("time_us.impl", t_imp.elapsed().as_micros() as u64);
            // model: wide_str on the bytes that follow the fixed part of the record
            let mut reqs = vec![];
            for cell in &c.cells {
                let payload = match cell.kind.as_str() {
                    "isst" => {
                        let (_, u, t) = &c.sst[cell.isst as usize];
                        let mut p = xlsbw::wide_units(u);
                        p.extend_from_slice(t);
                        p
                    }
                    "st" => xlsbw::wide_units(&cell.units),
                    _ => {
                        let mut p = xlsbw::wide_units(&cell.units);
                        p.extend_from_slice(&xlsbw::Fmla::trivial().bytes());
                        p
                    }
                };
                reqs.push(format!("wide {}", hx(&payload)));
            }
            let reply = ask(drv, rep, &reqs.join(" | "));
            let replies: Vec<&str> = reply.split(" | ").collect();
            let cells = c
                .cells
                .iter()
                .enumerate()
                .map(|(i, cell)| {
                    let m = match replies[i].strip_prefix("ok ") {
                        Some(r) => {
                            let h = r.split(' ').next().unwrap();
                            let units = unu16(if h == "-" { "" } else { h });
                            // UTF-16 → String is encoding_rs (not modelled): well-formed input, exact conversion
                            format!("S:{}", hx(String::from_utf16_lossy(&units).as_bytes()))
                        }
                        None => replies[i].to_string(),
                    };
                    (cell.label.clone(), Some(cell.expect.clone()), imp[i].clone(), m)
                })
                .collect();
            Outcome { cells, file_hash, stats: vec![] }
        }
        Case::Xls(c) => {
            let (bytes, sw) = timed(rep, "time_us.write", || xls_bytes(c));
            rep.add("xls.sst.packing_switch_at_continue.8_to_16", sw.0);
            rep.add("xls.sst.packing_switch_at_continue.16_to_8", sw.1);
            let file_hash = verif_harness::fnv64(&bytes);
            rep.add("bytes.xls", bytes.len() as u64);
            let t_imp = std::time::Instant::now();
            let imp = column(c.cells.len(), || {
                let mut wb: Xls<_> = Xls::new(Cursor::new(bytes)).map_err(|e| format!("open: {e:?}"))?;
                wb.worksheet_range("S").map_err(|e| format!("range: {e:?}"))
            });
            rep.add("time_us.impl", t_imp.elapsed().as_micros() as u64);
            // the xls string readers are modelled by property C12; here implementation vs oracle only
            let cells = c
                .cells
                .iter()
                .enumerate()
                .map(|(i, cell)| (cell.label.clone(), Some(cell.expect.clone()), imp[i].clone(), format!("S:{}", hx(cell.expect.as_bytes()))))
                .collect();
            Outcome { cells, file_hash, stats: vec![] }
        }
    }
}

/// failure class: format, store and only the features that select a code path (fine-grained labels stay in the counters)
fn sig_of(label: &str, symptom: &str) -> String {
    let parts: Vec<&str> = label.split('.').collect();
    let fmt = parts[0];
    let mut s = if fmt == "ods" {
        if parts.get(1) == Some(&"string_value") { "ods.string_value".to_string() } else { "ods".to_string() }
    } else {
        format!("{}.{}", fmt, parts.get(1).unwrap_or(&""))
    };
    if parts.iter().any(|p| p.starts_with("rich")) {
        s.push_str(".rich");
    }
    for f in ["prefixed", "cdata", "after_textless_item"] {
        if parts.contains(&f) {
            s.push('.');
            s.push_str(f);
        }
    }
    format!("{s}:{symptom}")
}

fn symptom(imp: &str, expect: &str) -> &'static str {
    match class(imp) {
        "err" => "error",
        "panic" => "panic",
        "empty" => "reads_empty",
        _ => {
            if imp.starts_with("other") {
                "not_a_string"
            } else {
                let got = String::from_utf8_lossy(&unhx(&imp[2..])).to_string();
                let want = String::from_utf8_lossy(&unhx(&expect[2..])).to_string();
                if want.trim() == got && want != got {
                    "trimmed"
                } else {
                    "wrong_text"
                }
            }
        }
    }
}

/// evaluate one case; returns the number of failing cells
fn eval(case: &Case, out: &Outcome, rep: &mut Report, record: bool) -> (Vec<(String, String)>, u64) {
    for (k, v) in &out.stats {
        rep.add(k, *v);
    }
    if std::env::var("VERIF_DEBUG").is_ok() {
        for c in &out.cells {
            eprintln!("{:?}", c);
        }
    }
    let mut fails = vec![];
    for (i, (label, expect, imp, model)) in out.cells.iter().enumerate() {
        if record {
            rep.count(&format!("form.{label}"));
        }
        let mut bad: Vec<(&str, String)> = vec![];
        match expect {
            Some(e) => {
                let want = format!("S:{}", hx(e.as_bytes()));
                if class(imp) != want {
                    bad.push(("impl_vs_spec", sig_of(label, symptom(imp, &want))));
                }
                if class(imp) != class(model) {
                    bad.push(("impl_vs_model", sig_of(label, symptom(imp, &want))));
                }
                if class(model) != want && class(imp) == want {
                    bad.push(("model_vs_spec", sig_of(label, "model")));
                }
                if !bad.is_empty() && record {
                    let w = case.weight(i);
                    let mut input: Option<String> = None;
                    for (kind, sig) in &bad {
                        // keep the shortest input per class; do not even build an input that cannot be shorter
                        let known = rep.failures.iter().find(|f| &f.kind == kind && &f.sig == sig).map(|f| f.input.clone());
                        match known {
                            Some(k) if k.len() <= w => rep.fail(kind, sig, &k, imp, model, &want),
                            _ => {
                                let inp = input.get_or_insert_with(|| {
                                    let one = case.only(i);
                                    format!("{} # {}", one.text(), one.pretty())
                                });
                                rep.fail(kind, sig, inp, imp, model, &want)
                            }
                        }
                    }
                }
            }
            None => {
                // outside the quantifier: observed, compared with the model only
                if record {
                    rep.count(&format!("observed.{label}.impl_{}", if imp.starts_with("S:") { "string" } else { class(imp) }));
                }
                if class(imp) != class(model) {
                    bad.push(("impl_vs_model", format!("{label}:observed")));
                    if record {
                        let one = case.only(i);
                        rep.fail("impl_vs_model", &format!("{label}:observed"), &format!("{} # {}", one.text(), one.pretty()), imp, model, "-");
                    }
                }
            }
        }
        for (k, s) in bad {
            fails.push((k.to_string(), s));
        }
    }
    (fails, out.file_hash)
}

// ------------------------------------------------------------------------------------------------
// corpus: minimal regression inputs (every defect found by this property) and fixed edge cases
// ------------------------------------------------------------------------------------------------

fn shared_cell(pfx: &str, idx: usize, expect: &str, label: &str) -> CellCase {
    let v = q(pfx, "v");
    CellCase { t: Some("s".into()), kids: vec![st(&v, &[]), tx(&idx.to_string()), en(&v)], expect: Some(expect.into()), label: label.into() }
}

fn sst_of(pfx: &str, items: Vec<Vec<X>>) -> Vec<X> {
    let mut v = vec![X::Start(
        q(pfx, "sst"),
        vec![(if pfx.is_empty() { "xmlns".to_string() } else { format!("xmlns:{pfx}") }, xlsxw::NS_MAIN.to_string())],
    )];
    for i in items {
        v.extend(i);
    }
    v.push(en(&q(pfx, "sst")));
    v
}

fn corpus() -> Vec<Case> {
    let mut v = vec![];
    let t = |p: &str, s: &str| vec![st(&q(p, "t"), &[]), tx(s), en(&q(p, "t"))];
    let si = |p: &str, body: Vec<X>| wrap_item(p, "si", body, true);
    // D20: an empty <si/> (and a phonetic-only item) must keep its index
    v.push(Case::Xlsx(XlsxCase { latin: false,
        pfx: String::new(),
        sst: sst_of("", vec![si("", t("", "zero")), si("", vec![]), si("", t("", "two"))]),
        cells: vec![
            shared_cell("", 0, "zero", "xlsx.shared.plain"),
            shared_cell("", 1, "", "xlsx.shared_decoy.nochild"),
            shared_cell("", 2, "two", "xlsx.shared.plain.after_textless_item"),
        ],
    }));
    v.push(Case::Xlsx(XlsxCase { latin: false,
        pfx: String::new(),
        sst: sst_of(
            "",
            vec![si("", vec![st("rPh", &[("sb", "0"), ("eb", "1")]), st("t", &[]), tx("ph"), en("t"), en("rPh")]), si("", t("", "one"))],
        ),
        cells: vec![shared_cell("", 0, "", "xlsx.shared_decoy.phonly"), shared_cell("", 1, "one", "xlsx.shared.plain.after_textless_item")],
    }));
    // D21: prefixed rich text in the table: the workbook must open
    let rich = |p: &str, a: &str, b: &str| {
        let mut r = vec![st(&q(p, "r"), &[])];
        r.extend(t(p, a));
        r.push(en(&q(p, "r")));
        r.push(st(&q(p, "r"), &[]));
        r.extend(t(p, b));
        r.push(en(&q(p, "r")));
        r
    };
    v.push(Case::Xlsx(XlsxCase { latin: false,
        pfx: "x".into(),
        sst: sst_of("x", vec![si("x", rich("x", "ri", "ch")), si("x", t("x", "plain"))]),
        cells: vec![shared_cell("x", 0, "rich", "xlsx.shared.rich.prefixed"), shared_cell("x", 1, "plain", "xlsx.shared.plain.prefixed")],
    }));
    // … and as an inline string
    {
        let mut kids = vec![st("x:is", &[])];
        kids.extend(rich("x", "in", "line"));
        kids.push(en("x:is"));
        v.push(Case::Xlsx(XlsxCase { latin: false,
            pfx: "x".into(),
            sst: vec![],
            cells: vec![CellCase { t: Some("inlineStr".into()), kids, expect: Some("inline".into()), label: "xlsx.inline.rich.prefixed".into() }],
        }));
    }
    // D28: CDATA in <t> (shared, inline), in <v>, in text:p
    let cd = |p: &str, tag: &str| vec![st(&q(p, tag), &[]), tx("pre"), X::CData("a<b&c".into()), tx("post"), en(&q(p, tag))];
    v.push(Case::Xlsx(XlsxCase { latin: false,
        pfx: String::new(),
        sst: sst_of("", vec![si("", cd("", "t"))]),
        cells: vec![
            shared_cell("", 0, "prea<b&cpost", "xlsx.shared.plain.cdata"),
            CellCase {
                t: Some("inlineStr".into()),
                kids: wrap_item("", "is", cd("", "t"), false),
                expect: Some("prea<b&cpost".into()),
                label: "xlsx.inline.plain.cdata".into(),
            },
            CellCase { t: Some("str".into()), kids: cd("", "v"), expect: Some("prea<b&cpost".into()), label: "xlsx.str.nof.cdata".into() },
            CellCase {
                t: Some("str^f".into()),
                kids: vec![st("f", &[]), tx("IF(A1"), X::CData("<".into()), tx("2,\"a\",\"b\")"), en("f"), st("v", &[]), tx("a"), en("v")],
                expect: Some("IF(A1<2,\"a\",\"b\")".into()),
                label: "xlsx.formula_text.f.cdata".into(),
            },
        ],
    }));
    v.push(Case::Ods(OdsCase { latin: false,
        cells: vec![CellCase { t: None, kids: cd("", "text:p"), expect: Some("prea<b&cpost".into()), label: "ods.lit.cdata.cdata.p1".into() }],
    }));
    // fixed edge cases of the forms
    v.push(Case::Ods(OdsCase { latin: false,
        cells: vec![
            CellCase {
                t: None,
                kids: vec![st("text:p", &[]), tx("a"), em("text:s", &[("text:c", "3")]), tx("b"), em("text:s", &[]), en("text:p"), em("text:p", &[]), st("text:p", &[]), tx(" c "), en("text:p")],
                expect: Some("a   b \n\n c ".into()),
                label: "ods.sc.lit.p3".into(),
            },
            CellCase { t: None, kids: vec![], expect: Some("".into()), label: "ods.lit.lit.p0".into() },
            CellCase { t: None, kids: vec![em("text:p", &[])], expect: Some("".into()), label: "ods.lit.lit.p1".into() },
            // outside the quantifier: text:tab / text:line-break are not decoded by calamine
            CellCase { t: None, kids: vec![st("text:p", &[]), tx("a"), em("text:tab", &[]), tx("b"), em("text:line-break", &[]), tx("c"), en("text:p")], expect: None, label: "ods.text_tab_line_break".into() },
        ],
    }));
    v.push(Case::Xlsx(XlsxCase { latin: false,
        pfx: String::new(),
        sst: vec![],
        cells: vec![
            // outside the quantifier: an inline string element without <t>, a str cell without <v>, _xHHHH_ escapes
            CellCase { t: Some("inlineStr".into()), kids: vec![em("is", &[])], expect: None, label: "xlsx.inline.nochild".into() },
            CellCase { t: Some("str".into()), kids: vec![st("f", &[]), tx("A1"), en("f")], expect: None, label: "xlsx.str.no_v".into() },
            CellCase { t: Some("str".into()), kids: vec![st("v", &[]), tx("a_x000D_b"), en("v")], expect: None, label: "xlsx.str.x_escape".into() },
            CellCase { t: Some("str".into()), kids: vec![em("v", &[])], expect: Some("".into()), label: "xlsx.str.nof".into() },
            CellCase { t: Some("inlineStr".into()), kids: vec![st("is", &[]), em("t", &[]), en("is")], expect: Some("".into()), label: "xlsx.inline.plain".into() },
        ],
    }));
    // a shared-string index past the table: an error, not a panic (observed: outside this property)
    v.push(Case::Xlsx(XlsxCase { latin: false,
        pfx: String::new(),
        sst: sst_of("", vec![si("", t("", "only"))]),
        cells: vec![CellCase { t: Some("s".into()), kids: vec![st("v", &[]), tx("1"), en("v")], expect: None, label: "xlsx.shared.index_out_of_range".into() }],
    }));
    // xlsb / xls: strings that begin like a byte-order mark (UTF-16 decoding must not sniff)
    for s in ["\u{FEFF}bom", "\u{BBEF}\u{BF}utf8", "\u{FFFE}be", "x\u{FEFF}"] {
        let u: Vec<u16> = s.encode_utf16().collect();
        v.push(Case::Xlsb(XlsbCase {
            sst: vec![(0, u.clone(), vec![])],
            cells: vec![
                BinCell { kind: "isst".into(), isst: 0, units: vec![], expect: s.into(), label: "xlsb.shared.item".into() },
                BinCell { kind: "st".into(), isst: 0, units: u.clone(), expect: s.into(), label: "xlsb.inline".into() },
                BinCell { kind: "fmla".into(), isst: 0, units: u.clone(), expect: s.into(), label: "xlsb.formula_string".into() },
            ],
        }));
        v.push(Case::Xls(XlsCase {
            split: false,
            seed: 1,
            sst: vec![s.into()],
            cells: vec![
                BinCell { kind: "isst".into(), isst: 0, units: vec![], expect: s.into(), label: "xls.shared.item".into() },
                BinCell { kind: "st".into(), isst: 0, units: u.clone(), expect: s.into(), label: "xls.inline".into() },
                BinCell { kind: "fmla".into(), isst: 0, units: u, expect: s.into(), label: "xls.formula_string".into() },
            ],
        }));
    }
    // D36 (xls): an empty LABEL / shared / formula string
    // seeded C19-m17: a part in a declared single-byte encoding whose text bytes look like UTF-8
    {
        let s = "Ã© caf\u{E9} Â£5";
        v.push(Case::Ods(OdsCase {
            latin: true,
            cells: vec![CellCase { t: None, kids: vec![st("text:p", &[]), tx(s), en("text:p")], expect: Some(s.into()), label: "ods.lit.lit.latin1.p1".into() }],
        }));
        v.push(Case::Xlsx(XlsxCase {
            latin: true,
            pfx: String::new(),
            sst: sst_of("", vec![si("", t("", s))]),
            cells: vec![
                shared_cell("", 0, s, "xlsx.shared.plain.latin1"),
                CellCase { t: Some("str".into()), kids: vec![st("v", &[]), tx(s), en("v")], expect: Some(s.into()), label: "xlsx.str.nof.latin1".into() },
            ],
        }));
    }
    // seeded C19-m18: a string whose text is an error literal / a number / a boolean, in every store
    for lit in ["#N/A", "#DIV/0!", "TRUE", "1.5"] {
        v.push(Case::Xlsx(XlsxCase {
            latin: false,
            pfx: String::new(),
            sst: sst_of("", vec![si("", t("", lit))]),
            cells: vec![
                shared_cell("", 0, lit, "xlsx.shared.plain"),
                CellCase { t: Some("inlineStr".into()), kids: wrap_item("", "is", t("", lit), false), expect: Some(lit.into()), label: "xlsx.inline.plain".into() },
                CellCase { t: Some("str".into()), kids: vec![st("v", &[]), tx(lit), en("v")], expect: Some(lit.into()), label: "xlsx.str.nof".into() },
                CellCase {
                    t: Some("str".into()),
                    kids: vec![st("f", &[]), tx("IF(A1,\"x\",\"y\")"), en("f"), st("v", &[]), tx(lit), en("v")],
                    expect: Some(lit.into()),
                    label: "xlsx.str.formula".into(),
                },
            ],
        }));
    }
    // seeded C19-m19: xml:space="default" on <t> with blanks around the text
    {
        let s = " \u{A0}x \u{3000}";
        let td = |p: &str, s: &str| vec![st(&q(p, "t"), &[("xml:space", "default")]), tx(s), en(&q(p, "t"))];
        let mut r = vec![st("r", &[])];
        r.extend(td("", " a"));
        r.push(en("r"));
        r.push(st("r", &[]));
        r.extend(td("", "b "));
        r.push(en("r"));
        v.push(Case::Xlsx(XlsxCase {
            latin: false,
            pfx: String::new(),
            sst: sst_of("", vec![si("", td("", s)), si("", r)]),
            cells: vec![
                shared_cell("", 0, s, "xlsx.shared.plain"),
                shared_cell("", 1, " ab ", "xlsx.shared.rich"),
                CellCase { t: Some("inlineStr".into()), kids: wrap_item("", "is", td("", s), false), expect: Some(s.into()), label: "xlsx.inline.plain".into() },
            ],
        }));
    }
    // seeded C19-m13: a dual-format file (`Book` stream before / after `Workbook` in directory order)
    for seed in [8u64, 16, 9] {
        let s = "Ωμέγα 日本 text";
        v.push(Case::Xls(XlsCase {
            split: false,
            seed,
            sst: vec![s.into()],
            cells: vec![
                BinCell { kind: "isst".into(), isst: 0, units: vec![], expect: s.into(), label: "xls.shared.item.dual_stream".into() },
                BinCell { kind: "st".into(), isst: 0, units: s.encode_utf16().collect(), expect: s.into(), label: "xls.inline.dual_stream".into() },
                BinCell { kind: "fmla".into(), isst: 0, units: s.encode_utf16().collect(), expect: s.into(), label: "xls.formula_string.dual_stream".into() },
            ],
        }));
    }
    // seeded C19-m16: a shared-string index of two digits delivered in more than one event
    {
        let items: Vec<Vec<X>> = (0..12).map(|i| si("", t("", &format!("item{i}")))).collect();
        let mk = |kids: Vec<X>, idx: usize| CellCase { t: Some("s".into()), kids, expect: Some(format!("item{idx}")), label: "xlsx.shared.plain.split_index".into() };
        v.push(Case::Xlsx(XlsxCase { latin: false,
            pfx: String::new(),
            sst: sst_of("", items),
            cells: vec![
                mk(vec![st("v", &[]), tx("1"), X::CData("1".into()), en("v")], 11),
                mk(vec![st("v", &[]), tx("1"), X::Comment, tx("0"), en("v")], 10),
                mk(vec![st("v", &[]), X::CData("1".into()), X::CData("1".into()), en("v")], 11),
                mk(vec![st("v", &[]), tx("0"), X::Comment, tx("9"), en("v")], 9),
            ],
        }));
    }
    // seeded C19-m9: a long multi-byte text followed by text:s (the space elements count whatever the length)
    {
        let cjk: String = "日本語テキスト".chars().cycle().take(25_000).collect();
        let mk = |space: X, n: usize| {
            let mut kids = vec![st("text:p", &[]), tx(&cjk), space];
            if matches!(kids[2], X::Start(..)) {
                kids.push(en("text:s"));
            }
            kids.push(tx("end"));
            kids.push(en("text:p"));
            CellCase { t: None, kids, expect: Some(format!("{cjk}{}end", " ".repeat(n))), label: "ods.sc.lit.long_multibyte.p1".into() }
        };
        v.push(Case::Ods(OdsCase { latin: false, cells: vec![mk(em("text:s", &[]), 1)] }));
        v.push(Case::Ods(OdsCase { latin: false, cells: vec![mk(st("text:s", &[("text:c", "3")]), 3)] }));
        let ascii: String = "abcdefghij".chars().cycle().take(70_000).collect();
        v.push(Case::Ods(OdsCase { latin: false,
            cells: vec![CellCase {
                t: None,
                kids: vec![st("text:p", &[]), tx(&ascii), em("text:s", &[("text:c", "2")]), tx("z"), en("text:p")],
                expect: Some(format!("{ascii}  z")),
                label: "ods.sc.lit.long_ascii.p1".into(),
            }],
        }));
    }
    // seeded C19-m11: a shared string table dominated by empty strings, the texts at its end
    for split in [false, true] {
        let mut sst: Vec<String> = vec![String::new(); 40];
        sst.push("first text".into());
        sst.push("é second".into());
        v.push(Case::Xls(XlsCase {
            split,
            seed: 11,
            sst,
            cells: vec![
                BinCell { kind: "isst".into(), isst: 39, units: vec![], expect: "".into(), label: "xls.shared.decoy_empty.many_empty".into() },
                BinCell { kind: "isst".into(), isst: 40, units: vec![], expect: "first text".into(), label: "xls.shared.item.many_empty".into() },
                BinCell { kind: "isst".into(), isst: 41, units: vec![], expect: "é second".into(), label: "xls.shared.item.many_empty".into() },
            ],
        }));
    }
    // seeded C19-m12: office:string-value written before office:value-type, display text differs or is absent
    {
        let cell = |attrs: Vec<(&str, &str)>, content: Vec<X>, label: &str| {
            let mut kids = vec![st("table:table-cell", &attrs)];
            kids.extend(content);
            kids.push(en("table:table-cell"));
            CellCase { t: Some("raw:0".into()), kids, expect: Some("the <value> & more".into()), label: label.into() }
        };
        let shown = vec![st("text:p", &[]), tx("display"), en("text:p")];
        v.push(Case::Ods(OdsCase { latin: false,
            cells: vec![
                cell(vec![("office:string-value", "the <value> & more"), ("office:value-type", "string")], shown.clone(), "ods.string_value.first"),
                cell(vec![("office:string-value", "the <value> & more"), ("office:value-type", "string")], vec![], "ods.string_value.first"),
                cell(vec![("office:value-type", "string"), ("office:string-value", "the <value> & more")], shown.clone(), "ods.string_value.natural"),
                cell(vec![("table:style-name", "ce1"), ("office:string-value", "the <value> & more"), ("calcext:value-type", "string"), ("office:value-type", "string")], shown, "ods.string_value.first"),
            ],
        }));
    }
    // seeded C19-m5: a formula string result whose STRING record follows a SHRFMLA / ARRAY / TABLE record
    v.push(Case::Xls(XlsCase {
        split: false,
        seed: 5,
        sst: vec![],
        cells: ["shrfmla", "array", "table"]
            .iter()
            .map(|k| BinCell { kind: format!("fmla_{k}"), isst: 0, units: "res<&> ult".encode_utf16().collect(), expect: "res<&> ult".into(), label: format!("xls.formula_string_{k}") })
            .collect(),
    }));
    // seeded C19-m7: one BrtSSTItem record larger than 128 KiB / 256 KiB (rich runs and phonetic data after the
    // text contribute nothing; the text must survive exactly), sizes around the reader's step size
    {
        let text = |n: usize| -> Vec<u16> { (0..n).map(|i| 0x41 + (i % 26) as u16 + if i % 7 == 0 { 0x100 } else { 0 }).collect() };
        let rich = |total: usize, n: usize| -> Vec<u8> {
            // payload = flags(1) + cch(4) + 2n + cRun(4) + 4*cRun (+ padding bytes inside the last run block)
            let rest = total - (1 + 4 + 2 * n) - 4;
            let runs = rest / 4;
            let mut t = (runs as u32).to_le_bytes().to_vec();
            for i in 0..runs {
                t.extend_from_slice(&((i % n.max(1)) as u16).to_le_bytes());
                t.extend_from_slice(&1u16.to_le_bytes());
            }
            t.extend(std::iter::repeat(0u8).take(rest % 4));
            t
        };
        let mut big: Vec<(u8, Vec<u16>, Vec<u8>)> = vec![];
        for total in [131071usize, 131072, 131073, 131076, 262143, 262144, 262145, 262150, 140009] {
            let n = if total == 140009 { 30000 } else { 100 + total % 50 };
            big.push((1, text(n), rich(total, n)));
        }
        // text and phonetic string both at the 32767-character limit
        let mut ph = xlsbw::wide_units(&text(32767));
        ph.extend_from_slice(&1u32.to_le_bytes());
        ph.extend_from_slice(&[0, 0, 0, 0, 1, 0]);
        big.push((2, text(32767), ph));
        for (k, item) in big.into_iter().enumerate() {
            let expect = String::from_utf16(&item.1).unwrap();
            v.push(Case::Xlsb(XlsbCase {
                sst: vec![(0, "before".encode_utf16().collect(), vec![]), item, (0, "after".encode_utf16().collect(), vec![])],
                cells: vec![
                    BinCell { kind: "isst".into(), isst: 0, units: vec![], expect: "before".into(), label: "xlsb.shared.item".into() },
                    BinCell { kind: "isst".into(), isst: 1, units: vec![], expect, label: format!("xlsb.shared.big_record_{k}") },
                    BinCell { kind: "isst".into(), isst: 2, units: vec![], expect: "after".into(), label: "xlsb.shared.item".into() },
                ],
            }));
        }
    }
    // seeded C19-m8: more <si> items than uniqueCount says (it counts distinct strings and is advisory)
    for uc in ["1", "2", "0", "7", "x"] {
        let mut sst = sst_of("", vec![si("", t("", "same")), si("", rich("", "sa", "me")), si("", t("", "other")), si("", vec![])]);
        if let X::Start(_, a) = &mut sst[0] {
            a.push(("count".into(), "4".into()));
            a.push(("uniqueCount".into(), uc.into()));
        }
        v.push(Case::Xlsx(XlsxCase { latin: false,
            pfx: String::new(),
            sst,
            cells: vec![
                shared_cell("", 0, "same", "xlsx.shared.plain"),
                shared_cell("", 1, "same", "xlsx.shared.rich.beyond_unique_count"),
                shared_cell("", 2, "other", "xlsx.shared.plain.beyond_unique_count"),
                shared_cell("", 3, "", "xlsx.shared_decoy.nochild.beyond_unique_count"),
            ],
        }));
    }
    // seeded C19-m3: a shared string cut by CONTINUE records with the 8/16-bit packing switching at the cut
    for (k, s) in ["abcdΩΩΩΩ", "ΩΩΩΩabcd", "ab\u{3A9}cd\u{3A9}ef", "é😀x日本y"].iter().enumerate() {
        for seed in 0..4u64 {
            v.push(Case::Xls(XlsCase {
                split: true,
                seed: 100 + 10 * k as u64 + seed,
                sst: vec!["first".into(), s.to_string(), "last".into()],
                cells: vec![
                    BinCell { kind: "isst".into(), isst: 0, units: vec![], expect: "first".into(), label: "xls.shared.item.split".into() },
                    BinCell { kind: "isst".into(), isst: 1, units: vec![], expect: s.to_string(), label: "xls.shared.item.split".into() },
                    BinCell { kind: "isst".into(), isst: 2, units: vec![], expect: "last".into(), label: "xls.shared.item.split".into() },
                ],
            }));
        }
    }
    v.push(Case::Xls(XlsCase {
        split: false,
        seed: 2,
        sst: vec!["".into(), "a".into()],
        cells: vec![
            BinCell { kind: "isst".into(), isst: 0, units: vec![], expect: "".into(), label: "xls.shared.decoy_empty".into() },
            BinCell { kind: "isst".into(), isst: 1, units: vec![], expect: "a".into(), label: "xls.shared.item".into() },
            BinCell { kind: "st".into(), isst: 0, units: vec![], expect: "".into(), label: "xls.inline".into() },
        ],
    }));
    v
}

// ------------------------------------------------------------------------------------------------

fn main() {
    let args = Args::parse();
    let mut rep = Report::new(
        "C19",
        "Unicode strings (XML 1.0 characters; generator biased to & < > \" ' spaces tabs LF CR ]]> BOM-like and astral \
         characters, empty, lengths up to 32767) x every storage form: xlsx (no prefix and x: prefix) shared / inline / t=str; \
         plain, 1-5 rich runs, phonetic runs interleaved and trailing, items without text between the items; each \
         character literal / predefined entity / decimal / hex reference / inside CDATA, comments between chunks; \
         xml:space; white space between elements; ods literal spaces vs text:s (with/without text:c), 1-4 paragraphs, \
         nested text:span / text:a, annotation first, covered cell; xlsb BrtSSTItem (with rich/phonetic trailers) / \
         BrtCellSt / BrtFmlaString; xls SST (also cut by CONTINUE records inside the strings with the 8/16-bit packing switching at the cut) / LABEL / FORMULA+STRING, the STRING record also after a SHRFMLA / ARRAY / TABLE record (implementation vs oracle only, model = C12); xlsx sst count / uniqueCount absent / exact / distinct-count / smaller / larger / garbage with every item referenced; fixed xlsb files with one BrtSSTItem record of 128 KiB and 256 KiB +- a few bytes (rich runs, phonetic data). Every \
         form is read by the real reader (worksheet_range), by the Lean model on the event list of exactly that fragment, \
         and compared with the string itself. CR is always written as a character reference (a literal CR is normalised \
         by XML), never inside CDATA. Outside the quantifier (observed and counted, compared with the model only): OOXML \
         _xHHHH_ escapes (not decoded), text:tab / text:line-break (contribute nothing), an inline string element \
         without <t> and a t=str cell without <v> (read as Empty), pretty-printed ods (rejected by the row reader). \
         non-trivial = a file with at least one non-ASCII-alphanumeric character in the string; distinct by file content. \
         Before the files: quick_xml::escape::unescape vs the Lean unescape model vs the original string on every string \
         escaped with a random spelling per character (literal / entity / decimal / hex reference, leading zeros, both \
         digit cases), on escapes damaged at one place and on malformed inputs (value and error class); the harness' CDATA \
         cut vs the Lean cdataSplit",
    );
    rep.notes.push(
        "C19: quick-xml's tokenizer (element / text / CDATA / comment boundaries, attribute parsing, encoding detection, \
         the settings trim_text(false) / expand_empty_elements / check_end_names = false) and encoding_rs UTF-16 decoding are \
         NOT modelled: the reader theorems start at the event list / code units and those layers are covered by this \
         differential run only. quick-xml's escape::unescape IS modelled (Model/XmlEscape.lean) and compared here with \
         the real function, value and error class"
            .into(),
    );
    let threads: usize = std::env::var("VERIF_THREADS")
        .ok()
        .and_then(|v| v.parse().ok())
        .unwrap_or(if args.thorough() { std::thread::available_parallelism().map(|n| n.get()).unwrap_or(8) } else { 4 })
        .max(1);
    let mut drivers: Vec<Driver> = (0..threads).map(|_| Driver::spawn(&args.driver)).collect();
    let mut jobs: Vec<Job> = vec![];
    let mut esc_strings: Vec<String> = vec![];
    if let Some(inp) = &args.replay {
        if let Some(h) = inp.strip_prefix("unescape|") {
            let mut r = Rng::new(0);
            let input = unhx_s(h);
            let reply = drivers[0].ask(&format!("unescape {}", if input.is_empty() { "-".to_string() } else { hx(input.as_bytes()) }));
            let imp = esc_class(&quick_xml::escape::unescape(&input));
            let model = match reply.strip_prefix("ok ") {
                Some(h) => format!("S:{}", if h == "-" { "" } else { h }),
                None => reply.clone(),
            };
            rep.case(&format!("unescape {input}"), true);
            if imp != model {
                rep.fail("impl_vs_model", "unescape:differs", inp, &imp, &model, "-");
            }
            let _ = &mut r;
        } else if let Some(h) = inp.strip_prefix("cdatasplit|") {
            let mut r = Rng::new(0);
            escape_stage(&mut r, &[unhx_s(h)], &mut drivers[0], &mut rep);
        } else {
            jobs.push(Job::Fixed(Case::parse(inp)));
        }
    } else {
        // fixed malformed inputs of the unescape function first
        {
            let fixed: Vec<String> = MALFORMED.iter().map(|s| s.to_string()).collect();
            let req = fixed.iter().map(|i| format!("unescape {}", hx(i.as_bytes()))).collect::<Vec<_>>().join(" | ");
            let reply = drivers[0].ask(&req);
            for (input, m) in fixed.iter().zip(reply.split(" | ")) {
                let imp = esc_class(&quick_xml::escape::unescape(input));
                let model = match m.strip_prefix("ok ") {
                    Some(h) => format!("S:{}", if h == "-" { "" } else { h }),
                    None => m.to_string(),
                };
                rep.case(&format!("unescape {input}"), true);
                rep.count("unescape.fixed_malformed");
                if imp != model {
                    rep.fail("impl_vs_model", "unescape:differs", &format!("unescape|{}", hx(input.as_bytes())), &imp, &model, "-");
                }
            }
        }
        jobs.extend(corpus().into_iter().map(Job::Fixed));
        let quick = !args.thorough();
        let n = args.count(3000, 250_000);
        let mut rng = Rng::new(args.seed);
        for i in 0..n {
            let s = gen_string(&mut rng, quick);
            rep.count(&format!(
                "strlen.{}",
                match s.chars().count() {
                    0 => "0",
                    1..=8 => "1-8",
                    9..=64 => "9-64",
                    65..=1024 => "65-1024",
                    _ => ">1024",
                }
            ));
            esc_strings.push(s.clone());
            jobs.push(Job::Str { i, s, seed: rng.next() });
            if i % 2 == 0 {
                jobs.push(Job::Soup { seed: rng.next() });
            }
            // keep memory flat in the thorough tier
            if jobs.len() >= 64 * threads {
                let mut r2 = rng.fork();
                escape_stage(&mut r2, &esc_strings, &mut drivers[0], &mut rep);
                esc_strings.clear();
                run_batch(&mut jobs, &mut drivers, &mut rep);
            }
        }
    }
    {
        let mut r2 = Rng::new(args.seed ^ 0xE5C);
        escape_stage(&mut r2, &esc_strings, &mut drivers[0], &mut rep);
    }
    run_batch(&mut jobs, &mut drivers, &mut rep);
    rep.add("driver_requests", drivers.iter().map(|d| d.requests).sum());
    rep.add("threads", threads as u64);
    rep.write(&args.out);
}

// ------------------------------------------------------------------------------------------------
// below the event list: quick-xml's unescape and the CDATA cut, implementation vs model vs oracle
// ------------------------------------------------------------------------------------------------

fn esc_class(r: &Result<std::borrow::Cow<str>, quick_xml::escape::EscapeError>) -> String {
    use quick_xml::escape::{EscapeError as E, ParseCharRefError as P};
    match r {
        Ok(s) => format!("S:{}", hx(s.as_bytes())),
        Err(E::UnrecognizedEntity(..)) => "err:UnrecognizedEntity".into(),
        Err(E::UnterminatedEntity(..)) => "err:UnterminatedEntity".into(),
        Err(E::InvalidCharRef(P::UnexpectedSign)) => "err:InvalidCharRef(UnexpectedSign)".into(),
        Err(E::InvalidCharRef(P::InvalidNumber(_))) => "err:InvalidCharRef(InvalidNumber)".into(),
        Err(E::InvalidCharRef(P::InvalidCodepoint(_))) => "err:InvalidCharRef(InvalidCodepoint)".into(),
        Err(E::InvalidCharRef(P::IllegalCharacter(_))) => "err:InvalidCharRef(IllegalCharacter)".into(),
    }
}

/// `s` with a random spelling per character (the knobs of `Spec/XmlEscape.escape`)
fn escape_any(rng: &mut Rng, s: &str) -> String {
    let mut o = String::new();
    for c in s.chars() {
        let zeros = "0".repeat(if rng.chance(1, 4) { rng.range(1, 3) as usize } else { 0 });
        match rng.below(5) {
            0 if c != '&' => o.push(c),
            1 => match named_entity(c) {
                Some(e) => o.push_str(e),
                None => o.push(c),
            },
            2 => o.push_str(&format!("&#{zeros}{};", c as u32)),
            3 => o.push_str(&format!("&#x{zeros}{:x};", c as u32)),
            _ => o.push_str(&format!("&#x{zeros}{:X};", c as u32)),
        }
    }
    o
}

const MALFORMED: &[&str] = &[
    "&", "a&", "&amp", "&amp;&", "&a&b;", "&;", "&#;", "&#x;", "&#X41;", "&#+65;", "&#-65;", "&#x+41;", "&#99999999;", "&#4294967295;",
    "&#4294967296;", "&#99999999999;", "&#0;", "&#00;", "&#x0;", "&#xD800;", "&#xDFFF;", "&#x110000;", "&#1;", "&#xFFFE;", "&#xFFFF;",
    "&unknown;", "&AMP;", "&Lt;", "&nbsp;", "&amp ;", "& amp;", "&#6 5;", "&#x4G;", "&#65", ";", ";;&lt;;", "&#xx41;", "&#x41;&#X41;", "&apos;&quot;",
];

fn gen_malformed(rng: &mut Rng) -> String {
    const AL: &[&str] = &["&", "&", ";", ";", "#", "x", "X", "0", "1", "9", "a", "f", "F", "G", "+", "-", "lt", "gt", "amp", "apos", "quot", " ", "é", "😀", "&#", "&#x"];
    (0..rng.range(1, 8)).map(|_| *rng.pick(AL)).collect()
}

/// one batch of unescape / cdata-split comparisons through the driver
fn escape_stage(rng: &mut Rng, strings: &[String], drv: &mut Driver, rep: &mut Report) {
    // (input, oracle) — oracle None: malformed or arbitrary input, implementation vs model only
    let mut items: Vec<(String, Option<String>)> = vec![];
    for s in strings {
        if s.contains('\0') || s.len() > 4000 {
            continue;
        }
        items.push((escape_any(rng, s), Some(s.clone())));
        if !s.contains('&') {
            items.push((s.clone(), Some(s.clone())));
        }
        items.push((gen_malformed(rng), None));
        if rng.chance(1, 3) {
            // a valid escape damaged at one place
            let mut e: Vec<char> = escape_any(rng, s).chars().collect();
            if !e.is_empty() {
                let i = rng.below(e.len() as u64) as usize;
                match rng.below(3) {
                    0 => {
                        e.remove(i);
                    }
                    1 => e.insert(i, *rng.pick(&['&', ';', '#', 'x', '+', '0'])),
                    _ => e[i] = *rng.pick(&['&', ';', '#', 'X', 'g']),
                }
            }
            items.push((e.into_iter().collect(), None));
        }
    }
    for chunk in items.chunks(64) {
        let req = chunk.iter().map(|(i, _)| format!("unescape {}", if i.is_empty() { "-".to_string() } else { hx(i.as_bytes()) })).collect::<Vec<_>>().join(" | ");
        let reply = drv.ask(&req);
        for ((input, oracle), m) in chunk.iter().zip(reply.split(" | ")) {
            let imp = esc_class(&quick_xml::escape::unescape(input));
            let model = match m.strip_prefix("ok ") {
                Some(h) => format!("S:{}", if h == "-" { "" } else { h }),
                None => m.to_string(),
            };
            rep.case(&format!("unescape {input}"), input.contains('&'));
            rep.count(if oracle.is_some() { "unescape.valid" } else if imp.starts_with("S:") { "unescape.arbitrary.ok" } else { "unescape.arbitrary.err" });
            if !imp.starts_with("S:") {
                rep.count(&format!("unescape.{}", &imp[4..]));
            }
            let inp = format!("unescape|{}", hx(input.as_bytes()));
            if imp != model {
                rep.fail("impl_vs_model", "unescape:differs", &inp, &imp, &model, "-");
            }
            if let Some(o) = oracle {
                let want = format!("S:{}", hx(o.as_bytes()));
                if imp != want {
                    rep.fail("impl_vs_spec", "unescape:roundtrip", &inp, &imp, &model, &want);
                } else if model != want {
                    rep.fail("model_vs_spec", "unescape:model", &inp, &imp, &model, &want);
                }
            }
        }
    }
    // the writer's CDATA cut: the harness' own cut (what the files contain) against the Lean definition
    let cd: Vec<&String> = strings.iter().filter(|s| !s.contains('\r') && s.len() <= 4000).collect();
    for chunk in cd.chunks(64) {
        let req = chunk.iter().map(|s| format!("cdatasplit {}", if s.is_empty() { "-".to_string() } else { hx(s.as_bytes()) })).collect::<Vec<_>>().join(" | ");
        let reply = drv.ask(&req);
        for (s, m) in chunk.iter().zip(reply.split(" | ")) {
            let mut out = vec![];
            push_cdata(&mut out, s);
            let mine: Vec<String> = out.iter().map(|e| match e { X::CData(t) => hx(t.as_bytes()), _ => "?".into() }).collect();
            let model: Vec<String> = m.split(' ').skip(1).filter(|h| !h.is_empty()).map(|h| h.to_string()).collect();
            rep.case(&format!("cdatasplit {s}"), s.contains("]]>"));
            if s.contains("]]>") {
                rep.count("cdatasplit.with_terminator");
            }
            if mine != model {
                rep.fail("impl_vs_model", "cdatasplit:differs", &format!("cdatasplit|{}", hx(s.as_bytes())), &mine.join(" "), &model.join(" "), "-");
            }
            if mine.iter().any(|h| h.contains("5d5d3e") && unhx_s(h).contains("]]>")) || mine.iter().map(|h| unhx_s(h)).collect::<String>() != **s {
                rep.fail("model_vs_spec", "cdatasplit:writer", &format!("cdatasplit|{}", hx(s.as_bytes())), &mine.join(" "), &model.join(" "), "-");
            }
        }
    }
}

/// unit of work for a worker thread
enum Job {
    Fixed(Case),
    /// every storage form of every format for one string
    Str { i: u64, s: String, seed: u64 },
    /// ill-nested event soup (implementation vs model only)
    Soup { seed: u64 },
}

fn expand(job: Job) -> Vec<Case> {
    match job {
        Job::Fixed(c) => vec![c],
        Job::Soup { seed } => gen_soup_cases(&mut Rng(seed)),
        Job::Str { i, s, seed } => {
            let mut cases = vec![];
            let mut r = Rng(seed);
            let long = s.len() > 2000;
            // every string goes through every format; the long ones through one xlsx prefix only (cost)
            let x0 = gen_xlsx(&mut r, &s, if i % 2 == 0 { "" } else { "x" });
            if latin_ok(&s) && i % 4 == 1 {
                let mut l = x0.clone();
                l.latin = true;
                for c in l.cells.iter_mut() {
                    c.label = format!("{}.latin1", c.label);
                }
                if latin_ok(&xml(&l.sst)) && latin_ok(&xlsx_sheet_data(&l)) {
                    cases.push(Case::Xlsx(l));
                }
            }
            cases.push(Case::Xlsx(x0));
            if !long {
                cases.push(Case::Xlsx(gen_xlsx(&mut r, &s, if i % 2 == 0 { "x" } else { "" })));
            }
            let ods = gen_ods(&mut r, &s);
            if latin_ok(&s) && i % 2 == 0 {
                // the same document in a declared single-byte encoding (every character of it is Latin-1)
                let mut l = ods.clone();
                l.latin = true;
                for c in l.cells.iter_mut() {
                    c.label = format!("{}.latin1", c.label);
                }
                if l.cells.iter().all(|c| latin_ok(&ods_cell_xml(c))) {
                    cases.push(Case::Ods(l));
                }
            }
            cases.push(Case::Ods(ods));
            let (sst, cells) = gen_bin_cells(&mut r, &s, "xlsb");
            cases.push(Case::Xlsb(XlsbCase { sst, cells }));
            if s.encode_utf16().count() <= 255 || i % 4 == 0 {
                let (sst, cells) = gen_bin_cells(&mut r, &s, "xls");
                // LABEL / STRING records hold at most one record of text in the shared writer
                let cells: Vec<BinCell> = cells.into_iter().filter(|c| c.kind == "isst" || c.units.len() <= 255).collect();
                let texts: Vec<String> = sst.iter().map(|(_, u, _)| String::from_utf16_lossy(u)).collect();
                // sometimes the table is dominated by empty strings (3 bytes each), the texts at its end
                let (texts, cells) = if r.chance(1, 6) {
                    let k = 30 + 2 * texts.iter().map(|t| t.len()).sum::<usize>().min(400) + r.below(40) as usize;
                    let mut t2: Vec<String> = vec![String::new(); k];
                    t2.extend(texts);
                    let mut c2: Vec<BinCell> = cells
                        .into_iter()
                        .map(|c| if c.kind == "isst" { BinCell { isst: c.isst + k as u32, label: format!("{}.many_empty", c.label), ..c } } else { c })
                        .collect();
                    c2.push(BinCell { kind: "isst".into(), isst: k as u32 - 1, units: vec![], expect: String::new(), label: "xls.shared.decoy_empty.many_empty".into() });
                    (t2, c2)
                } else {
                    (texts, cells)
                };
                let seed = r.next();
                // the same table once more with CONTINUE cuts inside the strings and per-segment packing
                let scells: Vec<BinCell> = cells
                    .iter()
                    .filter(|c| c.kind == "isst")
                    .map(|c| BinCell { label: format!("{}.split", c.label), ..c.clone() })
                    .collect();
                cases.push(Case::Xls(XlsCase { sst: texts.clone(), cells: scells, seed: seed ^ 0x5555, split: true }));
                cases.push(Case::Xls(XlsCase { sst: texts, cells, seed, split: false }));
            }
            cases
        }
    }
}

/// the jobs are dealt to the worker threads (one Lean driver each); the results are reported in job order
fn run_batch(jobs: &mut Vec<Job>, drivers: &mut [Driver], rep: &mut Report) {
    let k = drivers.len();
    let mut lots: Vec<Vec<(usize, Job)>> = (0..k).map(|_| vec![]).collect();
    for (j, job) in jobs.drain(..).enumerate() {
        lots[j % k].push((j, job));
    }
    let mut results: Vec<(usize, Vec<(Case, Outcome)>)> = std::thread::scope(|sc| {
        let handles: Vec<_> = lots
            .into_iter()
            .zip(drivers.iter_mut())
            .map(|(lot, drv)| {
                sc.spawn(move || {
                    lot.into_iter()
                        .map(|(j, job)| {
                            let done: Vec<(Case, Outcome)> = expand(job)
                                .into_iter()
                                .map(|c| {
                                    let o = run_case(&c, drv);
                                    (c, o)
                                })
                                .collect();
                            (j, done)
                        })
                        .collect::<Vec<_>>()
                })
            })
            .collect();
        handles.into_iter().flat_map(|h| h.join().expect("worker thread")).collect()
    });
    results.sort_by_key(|r| r.0);
    let t_main = std::time::Instant::now();
    for (case, out) in results.into_iter().flat_map(|r| r.1) {
        let nontrivial = match &case {
            Case::Xlsx(c) => c.cells.iter().any(|x| x.expect.as_ref().map_or(false, |e| e.chars().any(|ch| !ch.is_ascii_alphanumeric()))),
            Case::Ods(c) => c.cells.iter().any(|x| x.expect.as_ref().map_or(false, |e| e.chars().any(|ch| !ch.is_ascii_alphanumeric()))),
            Case::Xlsb(c) => c.cells.iter().any(|x| x.expect.chars().any(|ch| !ch.is_ascii_alphanumeric())),
            Case::Xls(c) => c.cells.iter().any(|x| x.expect.chars().any(|ch| !ch.is_ascii_alphanumeric())),
        };
        rep.count(match &case {
            Case::Xlsx(c) if c.pfx.is_empty() => "files.xlsx.unprefixed",
            Case::Xlsx(_) => "files.xlsx.prefixed",
            Case::Ods(_) => "files.ods",
            Case::Xlsb(_) => "files.xlsb",
            Case::Xls(_) => "files.xls",
        });
        let (fails, file_hash) = eval(&case, &out, rep, true);
        // distinct by file content; the readable form is produced only for the few stored samples
        let sampled = rep.samples.len() < 5 || (rep.samples.len() < 8 && (rep.evaluations + 1) % 997 == 0);
        let id = if sampled { format!("{file_hash:016x} {}", case.pretty()) } else { format!("{file_hash:016x}") };
        rep.case(&id, nontrivial);
        rep.add("cells", out.cells.len() as u64);
        if !fails.is_empty() {
            rep.count("files_with_failures");
        }
    }
    rep.add("time_us.main_thread_reporting", t_main.elapsed().as_micros() as u64);
}
