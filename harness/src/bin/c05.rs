//! C05 — Range stays a consistent rectangle under every sequence of operations.
//! Random operation histories over `calamine::Range<usize>` are run three ways:
//!   impl   : the real `Range` through its public API,
//!   model  : the Lean model (`drv_c05`, the definitions the theorems of Props/C05 are about),
//!   oracle : an independent sparse map + bounding box (the property as stated).
use calamine::{Cell, Range};
use std::collections::HashMap;
use verif_harness::{driver::Driver, guarded, report::Report, rng::Rng, Args};

#[derive(Clone, Debug)]
enum Op {
    N(u32, u32, u32, u32),
    E,
    /// `Range::default()` (what the readers return for a sheet without cells): the same empty range as `E` for the model
    D,
    F(Vec<(u32, u32, usize)>),
    S(u32, u32, usize),
    R(u32, u32, u32, u32),
    /// `range[(i, j)] = v` (relative position, `IndexMut<(usize, usize)>`)
    X(u32, u32, usize),
}

impl Op {
    fn wire(&self) -> String {
        match self {
            Op::N(a, b, c, d) => format!("N,{a},{b},{c},{d}"),
            Op::E => "E".into(),
            Op::D => "D".into(),
            Op::F(cells) => {
                let mut s = String::from("F");
                for (r, c, v) in cells {
                    s.push_str(&format!(",{r},{c},{v}"));
                }
                s
            }
            Op::S(a, b, v) => format!("S,{a},{b},{v}"),
            Op::R(a, b, c, d) => format!("R,{a},{b},{c},{d}"),
            Op::X(a, b, v) => format!("X,{a},{b},{v}"),
        }
    }
    fn parse(s: &str) -> Op {
        let p: Vec<&str> = s.split(',').collect();
        let n = |i: usize| p[i].parse::<u64>().unwrap();
        match p[0] {
            "N" => Op::N(n(1) as u32, n(2) as u32, n(3) as u32, n(4) as u32),
            "E" => Op::E,
            "D" => Op::D,
            "S" => Op::S(n(1) as u32, n(2) as u32, n(3) as usize),
            "R" => Op::R(n(1) as u32, n(2) as u32, n(3) as u32, n(4) as u32),
            "X" => Op::X(n(1) as u32, n(2) as u32, n(3) as usize),
            "F" => Op::F((0..(p.len() - 1) / 3).map(|i| (n(1 + 3 * i) as u32, n(2 + 3 * i) as u32, n(3 + 3 * i) as usize)).collect()),
            x => panic!("bad op {x}"),
        }
    }
}

type Rect = ((u32, u32), (u32, u32));

/// the observable state in the canonical text form shared with the Lean driver
fn dump_view(rect: Option<Rect>, val: &dyn Fn(u32, u32) -> usize) -> String {
    let (se, h, w) = match rect {
        Some((s, e)) => (
            format!("S={},{} E={},{}", s.0, s.1, e.0, e.1),
            (e.0 - s.0) as u64 + 1,
            (e.1 - s.1) as u64 + 1,
        ),
        None => ("S=- E=-".to_string(), 0, 0),
    };
    let (s, e) = rect.unwrap_or(((0, 0), (0, 0)));
    let mut rows = vec![];
    let mut cells = vec![];
    let mut used = vec![];
    for i in 0..h {
        let mut row = vec![];
        for j in 0..w {
            let v = val(s.0 + i as u32, s.1 + j as u32);
            row.push(v.to_string());
            cells.push(format!("{i}:{j}:{v}"));
            if v != 0 {
                used.push(format!("{i}:{j}:{v}"));
            }
        }
        rows.push(row.join(","));
    }
    let inside = |r: u32, c: u32| rect.is_some() && r >= s.0 && r <= e.0 && c >= s.1 && c <= e.1;
    let prow = [s.0.saturating_sub(1), s.0, e.0, e.0.saturating_add(1)];
    let pcol = [s.1.saturating_sub(1), s.1, e.1, e.1.saturating_add(1)];
    let mut gv = vec![];
    for a in prow {
        for b in pcol {
            gv.push(if inside(a, b) { val(a, b).to_string() } else { "-".into() });
        }
    }
    let rel = [(0u64, 0u64), (h.saturating_sub(1), w.saturating_sub(1)), (h, 0), (0, w), (u64::MAX, 0), (0, u64::MAX), (1 << 63, 1), (1 << 62, 3)];
    let g: Vec<String> = rel
        .iter()
        .map(|(i, j)| if *i < h && *j < w { val(s.0 + *i as u32, s.1 + *j as u32).to_string() } else { "-".into() })
        .collect();
    let ix: Vec<String> = g.iter().map(|x| if x == "-" { "!".to_string() } else { x.clone() }).collect();
    // `range[i]` (a whole row): rows inside; a panic past the last row — except on the empty range, whose width is 0
    let ir: Vec<String> = [0u64, h.saturating_sub(1), h, h + 3]
        .iter()
        .map(|i| if *i < h { format!("[{}]", rows[*i as usize].replace(',', ".")) } else if rect.is_none() { "[]".into() } else { "!".into() })
        .collect();
    let hd = if h > 0 { format!("[{}]", rows[0].replace(',', ".")) } else { "-".into() };
    format!(
        "{se} H={h} W={w} ROWS={} CELLS={} USED={} GV={} G={} IX={} IR={} HD={}",
        rows.join("/"),
        cells.join(","),
        used.join(","),
        gv.join(","),
        g.join(","),
        ix.join(","),
        ir.join(","),
        hd
    )
}

/// the same text, but every field taken from the real accessor it names
fn dump_impl(r: &Range<usize>) -> String {
    let se = match (r.start(), r.end()) {
        (Some(s), Some(e)) => format!("S={},{} E={},{}", s.0, s.1, e.0, e.1),
        (None, None) => "S=- E=-".to_string(),
        _ => "S=? E=?".to_string(),
    };
    let (h, w) = r.get_size();
    let rows: Vec<String> = r.rows().map(|row| row.iter().map(|v| v.to_string()).collect::<Vec<_>>().join(",")).collect();
    let cells: Vec<String> = r.cells().map(|(i, j, v)| format!("{i}:{j}:{v}")).collect();
    let used: Vec<String> = r.used_cells().map(|(i, j, v)| format!("{i}:{j}:{v}")).collect();
    let s = r.start().unwrap_or((0, 0));
    let e = r.end().unwrap_or((0, 0));
    let prow = [s.0.saturating_sub(1), s.0, e.0, e.0.saturating_add(1)];
    let pcol = [s.1.saturating_sub(1), s.1, e.1, e.1.saturating_add(1)];
    let mut gv = vec![];
    for a in prow {
        for b in pcol {
            gv.push(r.get_value((a, b)).map(|v| v.to_string()).unwrap_or("-".into()));
        }
    }
    let rel = [(0usize, 0usize), (h.saturating_sub(1), w.saturating_sub(1)), (h, 0), (0, w), (usize::MAX, 0), (0, usize::MAX), (1 << 63, 1), (1 << 62, 3)];
    let g: Vec<String> = rel.iter().map(|p| guarded(|| r.get(*p).map(|v| v.to_string()).unwrap_or("-".into())).unwrap_or("panic".into())).collect();
    let ix: Vec<String> = rel.iter().map(|p| guarded(|| r[*p]).map(|v| v.to_string()).unwrap_or("!".into())).collect();
    let ir: Vec<String> = [0usize, h.saturating_sub(1), h, h + 3]
        .iter()
        .map(|i| guarded(|| r[*i].iter().map(|v| v.to_string()).collect::<Vec<_>>().join(".")).map(|s| format!("[{s}]")).unwrap_or("!".into()))
        .collect();
    let hd = r.headers().map(|v| format!("[{}]", v.join("."))).unwrap_or("-".into());
    format!(
        "{se} H={h} W={w} ROWS={} CELLS={} USED={} GV={} G={} IX={} IR={} HD={}",
        rows.join("/"),
        cells.join(","),
        used.join(","),
        gv.join(","),
        g.join(","),
        ix.join(","),
        ir.join(","),
        hd
    )
}

/// independent oracle: bounding box + sparse map
#[derive(Clone, Default)]
struct Oracle {
    rect: Option<Rect>,
    map: HashMap<(u32, u32), usize>,
}

impl Oracle {
    fn dump(&self) -> String {
        dump_view(self.rect, &|r, c| *self.map.get(&(r, c)).unwrap_or(&0))
    }
    fn resync(&mut self, r: &Range<usize>) {
        self.map.clear();
        self.rect = match (r.start(), r.end()) {
            (Some(s), Some(e)) => Some((s, e)),
            _ => None,
        };
        if let Some((s, _)) = self.rect {
            for (i, j, v) in r.cells() {
                if *v != 0 {
                    self.map.insert((s.0 + i as u32, s.1 + j as u32), *v);
                }
            }
        }
    }
    /// the state change of `apply` without the text: Some(true) = documented panic, Some(false) = defined result,
    /// None = undocumented (resync from the implementation)
    fn apply_quiet(&mut self, op: &Op) -> Option<bool> {
        match op {
            Op::E | Op::D => {
                *self = Oracle::default();
                Some(false)
            }
            Op::N(a, b, c, d) => {
                if a > c || b > d {
                    return Some(true);
                }
                if (*c as u64 - *a as u64 + 1) * (*d as u64 - *b as u64 + 1) >= (1 << 32) {
                    return None;
                }
                self.rect = Some(((*a, *b), (*c, *d)));
                self.map.clear();
                Some(false)
            }
            Op::S(r, c, v) => {
                let (s, e) = self.rect?;
                if *r < s.0 || *c < s.1 {
                    return Some(true);
                }
                self.rect = Some((s, (e.0.max(*r), e.1.max(*c))));
                if *v == 0 {
                    self.map.remove(&(*r, *c));
                } else {
                    self.map.insert((*r, *c), *v);
                }
                Some(false)
            }
            Op::R(a, b, c, d) => {
                if a > c || b > d {
                    return None;
                }
                self.rect = Some(((*a, *b), (*c, *d)));
                self.map.retain(|k, _| k.0 >= *a && k.0 <= *c && k.1 >= *b && k.1 <= *d);
                Some(false)
            }
            Op::X(i, j, v) => {
                // indexed assignment: inside the rectangle it overwrites that cell, outside it panics
                let Some((s, e)) = self.rect else { return Some(true) };
                if *i as u64 > (e.0 - s.0) as u64 || *j as u64 > (e.1 - s.1) as u64 {
                    return Some(true);
                }
                let p = (s.0 + *i, s.1 + *j);
                if *v == 0 {
                    self.map.remove(&p);
                } else {
                    self.map.insert(p, *v);
                }
                Some(false)
            }
            Op::F(cells) => {
                if cells.is_empty() {
                    *self = Oracle::default();
                    return Some(false);
                }
                let first = cells.iter().map(|c| c.0).min().unwrap();
                let last = cells.iter().map(|c| c.0).max().unwrap();
                let c0 = cells.iter().map(|c| c.1).min().unwrap();
                let c1 = cells.iter().map(|c| c.1).max().unwrap();
                self.rect = Some(((first, c0), (last, c1)));
                self.map.clear();
                for (r, c, v) in cells {
                    if *v == 0 {
                        self.map.remove(&(*r, *c));
                    } else {
                        self.map.insert((*r, *c), *v);
                    }
                }
                Some(false)
            }
        }
    }
    /// Some(expected dump) when the op respects the documented preconditions; `Some("panic")` for a
    /// documented panic; None when the documentation says nothing (adopt the implementation's result).
    fn apply(&mut self, op: &Op) -> Option<String> {
        match self.apply_quiet(op)? {
            true => Some("panic".into()),
            false => Some(self.dump()),
        }
    }
}

fn apply_impl(r: &mut Range<usize>, op: &Op) -> Result<(), String> {
    let mut next = r.clone();
    let res = guarded(|| match op {
        Op::E => next = Range::empty(),
        Op::D => next = Range::default(),
        Op::N(a, b, c, d) => next = Range::new((*a, *b), (*c, *d)),
        Op::S(a, b, v) => next.set_value((*a, *b), *v),
        Op::R(a, b, c, d) => next = next.range((*a, *b), (*c, *d)),
        Op::X(i, j, v) => next[(*i as usize, *j as usize)] = *v,
        Op::F(cells) => next = Range::from_sparse(cells.iter().map(|(r, c, v)| Cell::new((*r, *c), *v)).collect()),
    });
    if res.is_ok() {
        *r = next;
    }
    res
}

/// in place (no clone per operation): for the large rectangles; after a panic the state is not used any more
fn apply_inplace(r: &mut Range<usize>, op: &Op) -> Result<(), String> {
    guarded(|| match op {
        Op::E => *r = Range::empty(),
        Op::D => *r = Range::default(),
        Op::N(a, b, c, d) => *r = Range::new((*a, *b), (*c, *d)),
        Op::S(a, b, v) => r.set_value((*a, *b), *v),
        Op::R(a, b, c, d) => *r = r.range((*a, *b), (*c, *d)),
        Op::X(i, j, v) => r[(*i as usize, *j as usize)] = *v,
        Op::F(cells) => *r = Range::from_sparse(cells.iter().map(|(r, c, v)| Cell::new((*r, *c), *v)).collect()),
    })
}

fn sig_of(op: &Op, before: &Range<usize>) -> String {
    match op {
        Op::S(r, c, _) => match before.end() {
            None => "S:empty".into(),
            Some(e) => format!("S:{}{}", if *r > e.0 { "down" } else { "in" }, if *c > e.1 { "-right" } else { "" }),
        },
        Op::R(..) => format!("R:{}", if before.is_empty() { "empty-src" } else { "src" }),
        Op::N(..) => "N".into(),
        Op::X(..) => "X".into(),
        Op::E => "E".into(),
        Op::D => "D".into(),
        Op::F(cells) => {
            let sorted = cells.windows(2).all(|w| w[0].0 <= w[1].0);
            (if sorted { "F" } else { "F:unsorted" }).into()
        }
    }
}

const BASES: [u64; 9] = [0, 0, 1, 2, 5, 255, 65535, (1 << 20) - 1, (1u64 << 32) - 24];

fn gen_history(rng: &mut Rng) -> Vec<Op> {
    let r0 = *rng.pick(&BASES);
    let c0 = *rng.pick(&BASES);
    let n = rng.range(1, 16);
    let mut ops = vec![];
    // shadow bounds so that most ops are meaningful; not used for checking
    let mut cur: Option<(u64, u64, u64, u64)> = None;
    let cl = |x: u64| x.min(u32::MAX as u64) as u32;
    for _ in 0..n {
        let k = rng.below(100);
        let op = if k < 14 || (cur.is_none() && k < 50) {
            let a = r0 + rng.below(6);
            let b = c0 + rng.below(6);
            let (c, d) = if rng.chance(1, 10) {
                (a.saturating_sub(rng.below(2)), b.saturating_sub(rng.below(3)))
            } else {
                (a + rng.below(6), b + rng.below(6))
            };
            cur = if a <= c && b <= d { Some((a, b, c, d)) } else { cur };
            Op::N(cl(a), cl(b), cl(c), cl(d))
        } else if k < 17 {
            cur = None;
            // the two ways to an empty range: `Range::empty()` and `Range::default()` (what the readers return for
            // a sheet without cells, a chart sheet, a table without data rows)
            if rng.chance(1, 2) {
                Op::E
            } else {
                Op::D
            }
        } else if k < 30 {
            // long lists (more than 20 cells over 63 positions: many positions given several times, "last one
            // wins" must hold whatever the order) besides the short ones
            let long = rng.chance(1, 5);
            let m = if long { 21 + rng.below(60) } else { rng.below(9) };
            let mut cells: Vec<(u32, u32, usize)> = if rng.chance(1, 3) {
                // dense-ish: the row-major enumeration of a small box, then some positions replaced by a repeat
                // of their predecessor (a rewritten cell) and some dropped: count == area with duplicates,
                // count < area, count > area all occur
                let (h, w) = (1 + rng.below(4), 1 + rng.below(4));
                let mut v: Vec<(u32, u32, usize)> = vec![];
                for i in 0..h {
                    for j in 0..w {
                        v.push((cl(r0 + i), cl(c0 + j), 1 + rng.below(4) as usize));
                    }
                }
                let edits = rng.below(4);
                for _ in 0..edits {
                    if v.len() < 2 {
                        break;
                    }
                    let i = 1 + rng.below(v.len() as u64 - 1) as usize;
                    match rng.below(3) {
                        0 => v[i] = (v[i - 1].0, v[i - 1].1, rng.below(5) as usize), // replace by a repeat
                        1 => v.insert(i, (v[i - 1].0, v[i - 1].1, rng.below(5) as usize)), // extra repeat
                        _ => {
                            v.remove(i);
                        }
                    }
                }
                v
            } else {
                (0..m).map(|_| (cl(r0 + rng.below(7)), cl(c0 + rng.below(9)), rng.below(5) as usize)).collect()
            };
            if !rng.chance(1, if long { 2 } else { 10 }) {
                cells.sort_by_key(|c| c.0);
            }
            cur = if cells.is_empty() {
                None
            } else {
                Some((
                    cells[0].0 as u64,
                    cells.iter().map(|c| c.1).min().unwrap() as u64,
                    cells[cells.len() - 1].0 as u64,
                    cells.iter().map(|c| c.1).max().unwrap() as u64,
                ))
            };
            Op::F(cells)
        } else if k < 36 {
            // indexed assignment, mostly inside the rectangle, sometimes just outside (or on an empty range)
            let (a, b, c, d) = cur.unwrap_or((0, 0, 0, 0));
            let (hh, ww) = (c.saturating_sub(a) + 1, d.saturating_sub(b) + 1);
            let (i, j) = if rng.chance(1, 6) { (rng.below(hh + 2), rng.below(ww + 2)) } else { (rng.below(hh), rng.below(ww)) };
            Op::X(cl(i), cl(j), rng.below(5) as usize)
        } else if k < 75 {
            let (a, b, c, d) = cur.unwrap_or((r0, c0, r0, c0));
            let (r, col) = if rng.chance(1, 12) {
                (a.saturating_sub(rng.below(2)), b.saturating_sub(rng.below(2)))
            } else {
                (rng.range(a, c.max(a) + 3), rng.range(b, d.max(b) + 3))
            };
            if cur.is_some() && r >= a && col >= b {
                cur = Some((a, b, c.max(r), d.max(col)));
            }
            Op::S(cl(r), cl(col), rng.below(5) as usize)
        } else {
            let (a, b, c, d) = cur.unwrap_or((r0, c0, r0, c0));
            let sa = rng.range(a.saturating_sub(3), c + 3);
            let sb = rng.range(b.saturating_sub(3), d + 3);
            let (ea, eb) = if rng.chance(1, 12) {
                (sa.saturating_sub(rng.below(2)), sb.saturating_sub(rng.below(2)))
            } else {
                (sa + rng.below(6), sb + rng.below(6))
            };
            if sa <= ea && sb <= eb {
                cur = Some((sa, sb, ea, eb));
            }
            Op::R(cl(sa), cl(sb), cl(ea), cl(eb))
        };
        ops.push(op);
    }
    ops
}

struct Outcome {
    /// (kind, sig, step, impl, model, expect)
    fails: Vec<(String, String, usize, String, String, String)>,
    nontrivial: bool,
    kinds: Vec<String>,
    len: usize,
}

/// area (cells) the op would make the implementation allocate, judged from the real current state
fn area_after(r: &Range<usize>, op: &Op) -> u64 {
    let span = |a: u32, b: u32| (b as u64).saturating_sub(a as u64) + 1;
    match op {
        Op::E | Op::D | Op::X(..) => 0,
        Op::N(a, b, c, d) | Op::R(a, b, c, d) => span(*a, *c).saturating_mul(span(*b, *d)),
        Op::S(row, col, _) => {
            let s = r.start().unwrap_or((0, 0));
            let e = r.end().unwrap_or((0, 0));
            span(s.0, e.0.max(*row)).saturating_mul(span(s.1, e.1.max(*col)))
        }
        Op::F(cells) => {
            if cells.is_empty() {
                return 0;
            }
            let c0 = cells.iter().map(|c| c.1).min().unwrap();
            let c1 = cells.iter().map(|c| c.1).max().unwrap();
            let r0 = cells.iter().map(|c| c.0).min().unwrap();
            let r1 = cells.iter().map(|c| c.0).max().unwrap();
            span(r0, r1).saturating_mul(span(c0, c1))
        }
    }
}

const MAX_AREA: u64 = 4096;

fn run_history(ops: &[Op], drv: &mut Driver) -> Outcome {
    let mut out = Outcome { fails: vec![], nontrivial: false, kinds: vec![], len: 0 };
    // pass 1: the implementation alone; the history is cut before an op that would allocate a huge
    // rectangle (D37: dense allocation is a separate, known finding of C06)
    let mut r: Range<usize> = Range::empty();
    let mut impl_dumps = vec![];
    let mut states = vec![];
    let mut sigs = vec![];
    for op in ops {
        if area_after(&r, op) > MAX_AREA {
            break;
        }
        let sig = sig_of(op, &r);
        let res = apply_impl(&mut r, op);
        impl_dumps.push(match &res {
            Ok(()) => dump_impl(&r),
            Err(_) => "panic".to_string(),
        });
        out.kinds.push(format!("{}{}", sig, if res.is_err() { ":panic" } else { "" }));
        sigs.push(sig);
        states.push(r.clone());
    }
    let ops = &ops[..impl_dumps.len()];
    out.len = ops.len();
    if ops.is_empty() {
        return out;
    }
    // `Range::default()` and `Range::empty()` are the same abstract state: the model is sent `E` for both
    let wire: Vec<String> = ops.iter().map(|o| if matches!(o, Op::D) { "E".to_string() } else { o.wire() }).collect();
    let reply = drv.ask(&format!("hist {}", wire.join(";")));
    let model: Vec<&str> = reply.split(';').collect();
    if model.len() != ops.len() {
        out.fails.push(("model_vs_spec".into(), "driver-protocol".into(), 0, String::new(), reply.clone(), String::new()));
        return out;
    }
    let mut oracle = Oracle::default();
    let mut grown = 0;
    for (i, op) in ops.iter().enumerate() {
        let sig = sigs[i].clone();
        let impl_dump = impl_dumps[i].clone();
        if sig.starts_with("S:down") || sig.ends_with("right") || sig.starts_with("R:src") {
            grown += 1;
        }
        let expect = oracle.apply(op);
        if impl_dump != model[i] {
            out.fails.push(("impl_vs_model".into(), sig.clone(), i, impl_dump.clone(), model[i].to_string(), expect.clone().unwrap_or_default()));
        }
        match expect {
            Some(e) => {
                if impl_dump != e {
                    out.fails.push(("impl_vs_spec".into(), sig.clone(), i, impl_dump.clone(), model[i].to_string(), e.clone()));
                }
                if model[i] != e && impl_dump == e {
                    out.fails.push(("model_vs_spec".into(), sig.clone(), i, impl_dump.clone(), model[i].to_string(), e));
                }
            }
            None => oracle.resync(&states[i]),
        }
        if !out.fails.is_empty() {
            break; // the first divergence is the finding; later steps start from different states
        }
    }
    out.nontrivial = grown >= 1 && ops.len() >= 2;
    out
}

/// the three iterators of `r` consumed from both ends by `pat` (`f` = next, `b` = next_back), in the text form of
/// the driver's `iter` reply
fn iter_impl(r: &Range<usize>, pat: &str) -> String {
    let item = |d: char, o: Option<(usize, usize, &usize)>| match o {
        Some((i, j, v)) => format!("{d}{i}:{j}:{v}"),
        None => format!("{d}-"),
    };
    let mut c = r.cells();
    let mut u = r.used_cells();
    let mut w = r.rows();
    let (mut tc, mut tu, mut tw) = (vec![], vec![], vec![]);
    for ch in pat.chars() {
        let (front, k) = match ch {
            'f' => (true, 0),
            'b' => (false, 0),
            'n' => (true, 1),
            'N' => (true, 2),
            'm' => (false, 1),
            _ => (false, 2),
        };
        let d = if front { 'f' } else { 'b' };
        tc.push(item(d, if front { c.nth(k) } else { c.nth_back(k) }));
        tu.push(item(d, if front { u.nth(k) } else { u.nth_back(k) }));
        let row = if front { w.nth(k) } else { w.nth_back(k) };
        tw.push(match row {
            Some(row) => format!("{d}[{}]", row.iter().map(|v| v.to_string()).collect::<Vec<_>>().join(".")),
            None => format!("{d}-"),
        });
    }
    format!("C={} L={} U={} R={} LR={}", tc.join(","), c.len(), tu.join(","), tw.join(","), w.len())
}

/// the same text from the property as stated: the forward enumerations (checked against the oracle by the dump)
/// consumed as double-ended queues
fn iter_spec(r: &Range<usize>, pat: &str) -> String {
    use std::collections::VecDeque;
    let mut c: VecDeque<String> = r.cells().map(|(i, j, v)| format!("{i}:{j}:{v}")).collect();
    let mut u: VecDeque<String> = r.cells().filter(|c| *c.2 != 0).map(|(i, j, v)| format!("{i}:{j}:{v}")).collect();
    let mut w: VecDeque<String> =
        r.rows().map(|row| format!("[{}]", row.iter().map(|v| v.to_string()).collect::<Vec<_>>().join("."))).collect();
    let (mut tc, mut tu, mut tw) = (vec![], vec![], vec![]);
    for ch in pat.chars() {
        let (front, k) = match ch {
            'f' => (true, 0),
            'b' => (false, 0),
            'n' => (true, 1),
            'N' => (true, 2),
            'm' => (false, 1),
            _ => (false, 2),
        };
        let d = if front { 'f' } else { 'b' };
        // nth(k): k items dropped from that end, then one taken
        let take = |q: &mut VecDeque<String>| {
            for _ in 0..k {
                if front { q.pop_front(); } else { q.pop_back(); }
            }
            let o = if front { q.pop_front() } else { q.pop_back() };
            format!("{d}{}", o.unwrap_or("-".into()))
        };
        tc.push(take(&mut c));
        tu.push(take(&mut u));
        tw.push(take(&mut w));
    }
    format!("C={} L={} U={} R={} LR={}", tc.join(","), c.len(), tu.join(","), tw.join(","), w.len())
}

fn gen_pattern(rng: &mut Rng, cells: usize) -> String {
    let n = rng.range(1, (cells as u64 + 3).min(40));
    let bias = rng.below(4); // 0: mostly front, 1: mostly back, 2/3: mixed
    (0..n)
        .map(|_| {
            let f = match bias {
                0 => !rng.chance(1, 6),
                1 => rng.chance(1, 6),
                _ => rng.chance(1, 2),
            };
            match (f, rng.below(8)) {
                (true, 0) => 'n',
                (true, 1) => 'N',
                (false, 0) => 'm',
                (false, 1) => 'M',
                (true, _) => 'f',
                (false, _) => 'b',
            }
        })
        .collect()
}

/// iterator protocol on the final state of a (small) history: impl vs model vs spec
fn run_iter(ops: &[Op], pat: &str, drv: &mut Driver) -> Vec<(String, String, String, String, String)> {
    let mut r: Range<usize> = Range::empty();
    for op in ops {
        if area_after(&r, op) > MAX_AREA {
            return vec![];
        }
        let _ = apply_impl(&mut r, op);
    }
    let wire: Vec<String> = ops.iter().map(|o| if matches!(o, Op::D) { "E".to_string() } else { o.wire() }).collect();
    let model = drv.ask(&format!("iter {pat} {}", wire.join(";")));
    let imp = guarded(|| iter_impl(&r, pat)).unwrap_or_else(|e| format!("panic:{e}"));
    let spec = iter_spec(&r, pat);
    let mut fails = vec![];
    let part = |s: &str, k: usize| s.split(' ').nth(k).unwrap_or("").to_string();
    if imp != spec {
        let which = (0..5).find(|k| part(&imp, *k) != part(&spec, *k)).unwrap_or(0);
        let name = ["cells", "cells-len", "used_cells", "rows", "rows-len"][which.min(4)];
        fails.push(("impl_vs_spec".to_string(), format!("iter:{name}:mixed-ends"), imp.clone(), model.clone(), spec.clone()));
    }
    if imp != model {
        fails.push(("impl_vs_model".to_string(), "iter".to_string(), imp.clone(), model.clone(), spec.clone()));
    }
    if model != spec && imp == spec {
        fails.push(("model_vs_spec".to_string(), "iter".to_string(), imp, model, spec));
    }
    fails
}

// ---------------------------------------------------------------------------------------------------------
// large rectangles (2^17 cells and more): size-dependent code paths. impl vs the independent oracle only —
// the Lean model is not run on these (its list representation is quadratic here); what is compared is the whole
// observable state, structurally instead of as text.

#[derive(Clone, Debug)]
enum LOp {
    New(u32, u32, u32, u32),       // r0, c0, h, w
    Fill(u32, u64),                // k pseudo-random non-default set_values inside the current rectangle
    Set(u32, u32, usize),
    Range(u32, u32, u32, u32),
    Dense(u32, u32, u32, u32, u32, u64), // from_sparse of a full box r0,c0,h,w in reading order with `dups` repeats
}

impl LOp {
    fn wire(&self) -> String {
        match self {
            LOp::New(a, b, c, d) => format!("NB,{a},{b},{c},{d}"),
            LOp::Fill(k, s) => format!("FILL,{k},{s}"),
            LOp::Set(a, b, v) => format!("S,{a},{b},{v}"),
            LOp::Range(a, b, c, d) => format!("R,{a},{b},{c},{d}"),
            LOp::Dense(a, b, c, d, e, s) => format!("FD,{a},{b},{c},{d},{e},{s}"),
        }
    }
    fn parse(s: &str) -> LOp {
        let p: Vec<&str> = s.split(',').collect();
        let n = |i: usize| p[i].parse::<u64>().unwrap();
        match p[0] {
            "NB" => LOp::New(n(1) as u32, n(2) as u32, n(3) as u32, n(4) as u32),
            "FILL" => LOp::Fill(n(1) as u32, n(2)),
            "S" => LOp::Set(n(1) as u32, n(2) as u32, n(3) as usize),
            "R" => LOp::Range(n(1) as u32, n(2) as u32, n(3) as u32, n(4) as u32),
            "FD" => LOp::Dense(n(1) as u32, n(2) as u32, n(3) as u32, n(4) as u32, n(5) as u32, n(6)),
            x => panic!("bad large op {x}"),
        }
    }
    /// the basic operations it stands for, given the current rectangle
    fn expand(&self, rect: Option<Rect>) -> Vec<Op> {
        match self {
            LOp::New(r0, c0, h, w) => vec![Op::N(*r0, *c0, r0 + h - 1, c0 + w - 1)],
            LOp::Set(a, b, v) => vec![Op::S(*a, *b, *v)],
            LOp::Range(a, b, c, d) => vec![Op::R(*a, *b, *c, *d)],
            LOp::Fill(k, seed) => {
                let Some((s, e)) = rect else { return vec![] };
                let mut rng = Rng::new(*seed);
                (0..*k)
                    .map(|_| {
                        Op::S(
                            rng.range(s.0 as u64, e.0 as u64) as u32,
                            rng.range(s.1 as u64, e.1 as u64) as u32,
                            1 + rng.below(1000) as usize,
                        )
                    })
                    .collect()
            }
            LOp::Dense(r0, c0, h, w, dups, seed) => {
                let mut rng = Rng::new(*seed);
                let mut v = Vec::with_capacity((*h as usize) * (*w as usize));
                for i in 0..*h {
                    for j in 0..*w {
                        v.push((r0 + i, c0 + j, if rng.chance(1, 3) { 0 } else { 1 + rng.below(1000) as usize }));
                    }
                }
                // a repeat REPLACES the following position: the count stays equal to the area
                for _ in 0..*dups {
                    let i = 1 + rng.below(v.len() as u64 - 1) as usize;
                    v[i] = (v[i - 1].0, v[i - 1].1, 1 + rng.below(1000) as usize);
                }
                // one list in three is not in reading order: rotated (rows out of order) or with the columns of
                // every row reversed; which of two cells at one position comes last is part of the input
                match seed % 3 {
                    1 if v.len() > 2 => {
                        let k = 1 + (seed / 3) as usize % (v.len() - 1);
                        v.rotate_left(k);
                    }
                    2 => {
                        for row in v.chunks_mut((*w).max(1) as usize) {
                            row.reverse();
                        }
                    }
                    _ => {}
                }
                vec![Op::F(v)]
            }
        }
    }
}

/// every observable of `r` against the oracle, without building text
fn compare_large(r: &Range<usize>, o: &Oracle) -> Option<String> {
    let rect = match (r.start(), r.end()) {
        (Some(s), Some(e)) => Some((s, e)),
        (None, None) => None,
        _ => return Some("start/end disagree on emptiness".into()),
    };
    if rect != o.rect {
        return Some(format!("bounds {:?} expected {:?}", rect, o.rect));
    }
    let Some((s, e)) = rect else {
        return if r.cells().next().is_some() || r.rows().next().is_some() { Some("empty range yields cells".into()) } else { None };
    };
    let (h, w) = ((e.0 - s.0) as usize + 1, (e.1 - s.1) as usize + 1);
    if r.get_size() != (h, w) {
        return Some(format!("get_size {:?} expected {:?}", r.get_size(), (h, w)));
    }
    let val = |i: usize, j: usize| *o.map.get(&(s.0 + i as u32, s.1 + j as u32)).unwrap_or(&0);
    let mut nrows = 0;
    for (i, row) in r.rows().enumerate() {
        if row.len() != w {
            return Some(format!("row {i} has {} cells, width {w}", row.len()));
        }
        for (j, v) in row.iter().enumerate() {
            if *v != val(i, j) {
                return Some(format!("rows()[{i}][{j}] = {v}, expected {}", val(i, j)));
            }
        }
        nrows += 1;
    }
    if nrows != h {
        return Some(format!("rows() yields {nrows} rows, height {h}"));
    }
    let mut k = 0usize;
    for (i, j, v) in r.cells() {
        if (i, j) != (k / w, k % w) || *v != val(i, j) {
            return Some(format!("cells()[{k}] = ({i},{j},{v}), expected ({},{},{})", k / w, k % w, val(k / w, k % w)));
        }
        k += 1;
    }
    if k != h * w {
        return Some(format!("cells() yields {k} cells, expected {}", h * w));
    }
    let mut used: Vec<(usize, usize, usize)> =
        o.map.iter().map(|(p, v)| ((p.0 - s.0) as usize, (p.1 - s.1) as usize, *v)).collect();
    used.sort();
    let got: Vec<(usize, usize, usize)> = r.used_cells().map(|(i, j, v)| (i, j, *v)).collect();
    if got != used {
        let d = got.iter().zip(used.iter()).position(|(a, b)| a != b).unwrap_or(got.len().min(used.len()));
        return Some(format!("used_cells() differs at #{d}: {:?} expected {:?} (counts {} / {})", got.get(d), used.get(d), got.len(), used.len()));
    }
    // accessors on the corners, on the used cells and just outside
    for (i, j, v) in used.iter().take(4096) {
        let abs = (s.0 + *i as u32, s.1 + *j as u32);
        if r.get_value(abs) != Some(v) || r.get((*i, *j)) != Some(v) {
            return Some(format!("get_value{:?} / get({i},{j}) != {v}", abs));
        }
    }
    if r.get((h, 0)).is_some() || r.get((0, w)).is_some() {
        return Some("get outside the rectangle returns a cell".into());
    }
    if e.0 < u32::MAX && r.get_value((e.0 + 1, s.1)).is_some() || e.1 < u32::MAX && r.get_value((s.0, e.1 + 1)).is_some() {
        return Some("get_value outside the rectangle returns a cell".into());
    }
    None
}

const LARGE_MIN: u64 = 1 << 17;

fn gen_large(rng: &mut Rng, cap: u64) -> Vec<LOp> {
    let total = rng.range(LARGE_MIN + 1, (LARGE_MIN * 5 / 2).min(cap / 3));
    let widths = [1u64, 2, 3, 7, 64, 257, 1000, total / 3, total / 2, total];
    let w = (*rng.pick(&widths)).max(1);
    let h = total / w + 1;
    let r0 = *rng.pick(&[0u64, 0, 1, 5, 1000]);
    let c0 = *rng.pick(&[0u64, 0, 1, 3, 700]);
    let mut ops = vec![];
    if rng.chance(1, 3) {
        ops.push(LOp::Dense(r0 as u32, c0 as u32, h as u32, w as u32, rng.below(4) as u32, rng.next()));
    } else {
        ops.push(LOp::New(r0 as u32, c0 as u32, h as u32, w as u32));
        ops.push(LOp::Fill(rng.range(50, 1500) as u32, rng.next()));
    }
    let (mut sr, mut sc, mut er, mut ec) = (r0, c0, r0 + h - 1, c0 + w - 1);
    for _ in 0..rng.range(1, 4) {
        let (hh, ww) = (er - sr + 1, ec - sc + 1);
        if rng.chance(1, 2) {
            // set_value past the end: widen by less than / exactly / more than the old width, or grow down
            let dc = *rng.pick(&[0u64, 1, 1, 2, ww / 2, ww.saturating_sub(1), ww, ww + 5]);
            let dr = *rng.pick(&[0u64, 0, 1, 2, hh / 7]);
            let (nr, nc) = (er + dr, ec + dc);
            if (nr - sr + 1) * (nc - sc + 1) > cap {
                continue;
            }
            let row = if dr == 0 { rng.range(sr, er) } else { nr };
            ops.push(LOp::Set(row as u32, nc as u32, 1 + rng.below(1000) as usize));
            er = nr.max(er);
            ec = nc;
        } else {
            // a window that keeps at least LARGE_MIN cells and (usually) starts in another column / row
            let a = (sr + rng.below(3)).saturating_sub(rng.below(3));
            let b = (sc + rng.below(4)).saturating_sub(rng.below(4));
            let c = (er + rng.below(3)).saturating_sub(rng.below(3)).max(a);
            let d = (ec + rng.below(4)).saturating_sub(rng.below(4)).max(b);
            let area = (c - a + 1) * (d - b + 1);
            if area > cap || area < LARGE_MIN {
                continue;
            }
            ops.push(LOp::Range(a as u32, b as u32, c as u32, d as u32));
            (sr, sc, er, ec) = (a, b, c, d);
        }
    }
    ops
}

/// `set_value` growth whose number of new cells is a multiple of 4096 (and its neighbours), in both arms: rows
/// appended below a rectangle whose width is a power of two, with or without a growth of the width at the same time
fn gen_block(rng: &mut Rng, cap: u64) -> Vec<LOp> {
    let w = *rng.pick(&[1u64, 2, 16, 64, 100, 128, 256, 1024, 4096, 8192]);
    let h = rng.range(1, 6);
    let r0 = *rng.pick(&[0u64, 0, 1, 5, 1000]);
    let c0 = *rng.pick(&[0u64, 0, 1, 3, 700]);
    let mut ops = vec![LOp::New(r0 as u32, c0 as u32, h as u32, w as u32), LOp::Fill(rng.range(1, 60) as u32, rng.next())];
    let (sr, sc, mut er, mut ec) = (r0, c0, r0 + h - 1, c0 + w - 1);
    for _ in 0..rng.range(1, 3) {
        let ww = ec - sc + 1;
        let nw = if rng.chance(1, 2) { ww } else { (*rng.pick(&[64u64, 128, 256, 1024, 4096, 8192])).max(ww) };
        let k = rng.range(1, 3);
        let exact = (4096 * k) % nw == 0;
        let mut dr = if exact { 4096 * k / nw } else { rng.range(1, 70) };
        if exact && rng.chance(1, 4) {
            dr = (dr + rng.below(3)).saturating_sub(1).max(1); // one row less / more than the multiple
        }
        let (nr, nc) = (er + dr, sc + nw - 1);
        if (nr - sr + 1) * (nc - sc + 1) > cap {
            break;
        }
        ops.push(LOp::Set(nr as u32, nc as u32, 1 + rng.below(1000) as usize));
        // a write into the last and the first appended row, a window over the appended rows
        ops.push(LOp::Set(nr as u32, sc as u32, 1 + rng.below(1000) as usize));
        ops.push(LOp::Set((er + 1) as u32, nc as u32, 1 + rng.below(1000) as usize));
        er = nr;
        ec = nc;
    }
    ops
}

/// growth that leaves spare capacity behind, then a widening that fits into it: rows appended to a fully filled
/// rectangle (`Vec::resize` at least doubles the capacity), then columns added so that the widened rectangle
/// still fits (an in-place widening that moves the rows inside the same buffer must not let a row's new place
/// overlap cells not moved yet: seeded C05-m15), at small and medium sizes, all cells distinct
fn gen_slack(rng: &mut Rng, cap: u64) -> Vec<LOp> {
    let big = rng.chance(1, 4);
    let h = if big { rng.range(20, 300) } else { rng.range(2, 9) };
    let w = if big { rng.range(20, 300) } else { rng.range(2, 9) };
    let r0 = *rng.pick(&[0u64, 0, 1, 5, 1000]);
    let c0 = *rng.pick(&[0u64, 0, 1, 3, 700]);
    let mut ops = vec![LOp::New(r0 as u32, c0 as u32, h as u32, w as u32), LOp::Fill((4 * h * w).min(60_000) as u32, rng.next())];
    let (sr, sc, mut er, mut ec) = (r0, c0, r0 + h - 1, c0 + w - 1);
    for _ in 0..rng.range(1, 3) {
        let (hh, ww) = (er - sr + 1, ec - sc + 1);
        // rows: at most as many as there are (the capacity then is twice the old length)
        let d = rng.range(1, hh.min(4));
        let slack_cols = (2 * hh * ww / (hh + d)).saturating_sub(ww);
        // columns: inside the spare capacity (usually), or just beyond it
        let dc = if slack_cols >= 1 && !rng.chance(1, 5) { rng.range(1, slack_cols) } else { slack_cols + 1 + rng.below(3) };
        if (hh + d) * (ww + dc) > cap {
            break;
        }
        ops.push(LOp::Set((er + d) as u32, rng.range(sc, ec) as u32, 1 + rng.below(1000) as usize));
        ops.push(LOp::Fill((2 * d * ww).min(60_000) as u32, rng.next()));
        ops.push(LOp::Set(rng.range(sr, er + d) as u32, (ec + dc) as u32, 1 + rng.below(1000) as usize));
        er += d;
        ec += dc;
    }
    ops
}

/// Some((sig, step text, what differs)) for the first observable difference
fn run_large(lops: &[LOp]) -> Option<(String, String)> {
    let mut r: Range<usize> = Range::empty();
    let mut o = Oracle::default();
    for (i, lop) in lops.iter().enumerate() {
        for op in lop.expand(o.rect) {
            let res = apply_inplace(&mut r, &op);
            let expect_panic = o.apply_quiet(&op);
            match (res.is_err(), expect_panic) {
                (true, Some(false)) => return Some((format!("large:{}:panic", lop.wire().split(',').next().unwrap()), format!("step {i}: implementation panicked"))),
                (false, Some(true)) => return Some((format!("large:{}:no-panic", lop.wire().split(',').next().unwrap()), format!("step {i}: documented panic missing"))),
                _ => {}
            }
            if expect_panic.is_none() {
                o.resync(&r);
            }
        }
        if let Some(d) = compare_large(&r, &o) {
            return Some((format!("large:{}", lop.wire().split(',').next().unwrap()), format!("step {i} ({}): {d}", lop.wire())));
        }
    }
    None
}

// ---------------------------------------------------------------------------------------------------------
// element types other than integers: what counts as "non-default" for used_cells() is T::default() and nothing
// else (an empty STRING is a value). impl vs the property as stated, for Range<Data>, Range<DataRef>, Range<String>.

fn typed_stage(rng: &mut Rng, n: u64, rep: &mut Report) {
    use calamine::{CellErrorType, Data, DataRef};
    // (wire, is the value the type's default)
    let pool: [(&str, bool); 9] = [("E", true), ("S", false), ("Sa", false), ("H", false), ("Ha", false), ("I0", false), ("F0", false), ("B0", false), ("X", false)];
    let mk_ref = |w: &str| -> DataRef<'static> {
        match w {
            "E" => DataRef::Empty,
            "S" => DataRef::String(String::new()),
            "Sa" => DataRef::String("a".into()),
            "H" => DataRef::SharedString(""),
            "Ha" => DataRef::SharedString("a"),
            "I0" => DataRef::Int(0),
            "F0" => DataRef::Float(0.0),
            "B0" => DataRef::Bool(false),
            _ => DataRef::Error(CellErrorType::Div0),
        }
    };
    for case in 0..n {
        let h = rng.range(1, 3) as u32;
        let w = rng.range(1, 4) as u32;
        let (r0, c0) = (rng.below(3) as u32, rng.below(3) as u32);
        let k = rng.below((h * w) as u64 + 1);
        let mut cells: Vec<(u32, u32, &str, bool)> = (0..k)
            .map(|_| {
                let (wire, d) = *rng.pick(&pool);
                (r0 + rng.below(h as u64) as u32, c0 + rng.below(w as u64) as u32, wire, d)
            })
            .collect();
        cells.sort_by_key(|c| c.0);
        let text = format!("typed:{}", cells.iter().map(|c| format!("{},{},{}", c.0, c.1, c.2)).collect::<Vec<_>>().join(";"));
        rep.case(&text, cells.iter().any(|c| c.2 == "H" || c.2 == "S"));
        rep.count("typed.cases");
        if cells.is_empty() {
            continue;
        }
        // expected: last writer wins per position; used = the positions whose last value is not the default
        let mut last: std::collections::BTreeMap<(u32, u32), (&str, bool)> = Default::default();
        for c in &cells {
            last.insert((c.0, c.1), (c.2, c.3));
        }
        let (sr, sc) = (cells.iter().map(|c| c.0).min().unwrap(), cells.iter().map(|c| c.1).min().unwrap());
        let want: Vec<(usize, usize, String)> =
            last.iter().filter(|(_, v)| !v.1).map(|(p, v)| ((p.0 - sr) as usize, (p.1 - sc) as usize, v.0.to_string())).collect();
        let name_ref = |d: &DataRef| pool.iter().map(|p| p.0).find(|w| mk_ref(w) == *d).unwrap_or("?").to_string();
        let check = |label: &str, got: Vec<(usize, usize, String)>, n_cells: usize, rep: &mut Report| {
            if got != want {
                rep.fail("impl_vs_spec", &format!("typed:{label}:used_cells"), &text, &format!("{got:?}"), "(the Lean model is generic in the element type; the driver runs it on integers)", &format!("{want:?}"));
            }
            if n_cells < want.len() {
                rep.fail("impl_vs_spec", &format!("typed:{label}:cells-fewer-than-used"), &text, &n_cells.to_string(), "", &want.len().to_string());
            }
        };
        let _ = case;
        // Range<DataRef>
        let rr = Range::from_sparse(cells.iter().map(|c| Cell::new((c.0, c.1), mk_ref(c.2))).collect());
        check("DataRef", rr.used_cells().map(|(i, j, v)| (i, j, name_ref(v))).collect(), rr.cells().count(), rep);
        let back: Vec<(usize, usize, String)> = { let mut v: Vec<_> = rr.used_cells().rev().map(|(i, j, v)| (i, j, name_ref(v))).collect(); v.reverse(); v };
        check("DataRef-rev", back, rr.cells().count(), rep);
        // Range<Data>: SharedString becomes String (same emptiness), so the wires map S/H -> S, Sa/Ha -> Sa
        let owned_name = |w: &str| match w { "H" => "S".to_string(), "Ha" => "Sa".to_string(), x => x.to_string() };
        let rd: Range<Data> = Range::from_sparse(cells.iter().map(|c| Cell::new((c.0, c.1), Data::from(mk_ref(c.2)))).collect());
        let got: Vec<(usize, usize, String)> = rd
            .used_cells()
            .map(|(i, j, v)| (i, j, pool.iter().map(|p| p.0).find(|w| Data::from(mk_ref(w)) == *v && owned_name(w) == *w).unwrap_or("?").to_string()))
            .collect();
        let want_owned: Vec<(usize, usize, String)> = want.iter().map(|(i, j, w)| (*i, *j, owned_name(w))).collect();
        if got != want_owned {
            rep.fail("impl_vs_spec", "typed:Data:used_cells", &text, &format!("{got:?}"), "", &format!("{want_owned:?}"));
        }
        // Range<String>: default is the empty string
        let rs: Range<String> = Range::from_sparse(cells.iter().map(|c| Cell::new((c.0, c.1), if c.3 { String::new() } else { c.2.to_string() })).collect());
        let got: Vec<(usize, usize, String)> = rs.used_cells().map(|(i, j, v)| (i, j, v.clone())).collect();
        if got != want {
            rep.fail("impl_vs_spec", "typed:String:used_cells", &text, &format!("{got:?}"), "", &format!("{want:?}"));
        }
    }
}

fn shrink(ops: Vec<Op>, kind: &str, sig: &str, drv: &mut Driver) -> Vec<Op> {
    let fails = |o: &[Op], drv: &mut Driver| run_history(o, drv).fails.iter().any(|f| f.0 == kind && f.1 == sig);
    let mut cur = ops;
    loop {
        let mut improved = false;
        let mut i = 0;
        while i < cur.len() {
            let mut cand = cur.clone();
            cand.remove(i);
            if !cand.is_empty() && fails(&cand, drv) {
                cur = cand;
                improved = true;
            } else {
                i += 1;
            }
        }
        if !improved {
            return cur;
        }
    }
}

fn corpus() -> Vec<&'static str> {
    vec![
        // D01: grow downwards only
        "N,0,0,5,2;S,7,1,3",
        // D02: range over an empty source covering (0,0)
        "E;R,0,0,1,1",
        "F;R,0,0,2,2",
        // the same over `Range::default()` (seeded C05-m19)
        "D;R,0,0,1,1",
        "D;R,0,0,0,0;S,0,0,1",
        // grow right, grow both, then window
        "N,1,1,2,2;S,2,4,1;S,5,6,2;R,0,0,9,9;R,2,2,3,3",
        // near u32::MAX
        "N,4294967290,4294967290,4294967292,4294967293;S,4294967294,4294967295,4;R,4294967289,4294967289,4294967295,4294967295",
        // from_sparse duplicates / last writer wins / zero values
        "F,3,7,1,3,7,2,4,2,0,5,9,4;S,5,9,0;R,3,2,5,9",
        // D40: from_sparse on cells not sorted by row (a row above the first's panicked, a row below the last's was dropped)
        "F,3,259,0,0,261,4",
        "F,1,1,1,3,2,2,2,1,3;R,0,0,4,4",
        "F,5,5,1,2,7,2,9,3,3,2,5,4",
        // documented panics
        "N,3,3,2,5;N,3,3,5,2;N,1,1,2,2;S,0,1,1;S,1,0,1",
    ]
}

fn main() {
    let args = Args::parse();
    let mut drv = Driver::spawn(&args.driver);
    let mut rep = Report::new(
        "C05",
        "random operation histories (1..16 ops: new/empty/from_sparse/set_value/range/indexed assignment, coordinates from \
         {0,1,2,5,255,65535,2^20-1,2^32-24}+small deltas, values 0..4; from_sparse lists random or a full small box \
         with repeated / dropped positions) after each op the full observable state \
         (start,end,size,rows,cells,used_cells,get_value/get/Index probes, row indexing range[i], headers()) is compared impl vs Lean model vs \
         independent sparse-map oracle; on the final state of every history the three iterators are consumed from \
         BOTH ends by a random next / next_back / nth / nth_back pattern (with len() of Cells and Rows) (impl vs Lean iterator model vs a double-ended queue over the \
         forward enumeration); plus LARGE rectangles (2^17 .. 2^18.3 cells quick, up to 2^21 thorough; new+fill or \
         dense from_sparse with repeats, then set_value past the end by less/more than the width, windows with a \
         different first column) impl vs oracle only, structurally; plus small Range<DataRef> / Range<Data> / Range<String> built from typed cells \
         (Empty, empty and non-empty String / SharedString, Int 0, Float 0, Bool false, Error): used_cells() = the cells \
         whose last value is not T::default() — an empty string is a value; non-trivial = history of >=2 ops containing a \
         growing set_value or a range over a non-empty source, or any large history; distinct by the history text",
    );
    let mut histories: Vec<Vec<Op>> = vec![];
    let mut iters: Vec<(String, Vec<Op>)> = vec![];
    let mut larges: Vec<Vec<LOp>> = vec![];
    let mut rng = Rng::new(args.seed);
    if let Some(inp) = &args.replay {
        if let Some(rest) = inp.strip_prefix("iter:") {
            let (pat, ops) = rest.split_once('|').expect("iter:<pat>|<ops>");
            iters.push((pat.to_string(), ops.split(';').map(Op::parse).collect()));
        } else if let Some(rest) = inp.strip_prefix("large:") {
            larges.push(rest.split(';').map(LOp::parse).collect());
        } else {
            histories.push(inp.split(';').map(Op::parse).collect());
        }
    } else {
        for c in corpus() {
            histories.push(c.split(';').map(Op::parse).collect());
        }
        for c in corpus_iter() {
            let (pat, ops) = c.split_once('|').unwrap();
            iters.push((pat.to_string(), ops.split(';').map(Op::parse).collect()));
        }
        for c in corpus_large() {
            larges.push(c.split(';').map(LOp::parse).collect());
        }
        let n = args.count(6000, 1_000_000);
        for _ in 0..n {
            histories.push(gen_history(&mut rng));
        }
        let cap: u64 = if args.thorough() { 1 << 21 } else { 1 << 20 };
        let nl = if args.n.is_some() { (n / 150).max(4) } else { args.count(64, 2000) };
        for _ in 0..nl {
            larges.push(match rng.below(4) {
                0 => gen_block(&mut rng, cap),
                1 => gen_slack(&mut rng, cap),
                _ => gen_large(&mut rng, cap),
            });
        }
    }
    let mut shrunk = 0;
    for ops in histories {
        let out = run_history(&ops, &mut drv);
        let ops = ops[..out.len].to_vec();
        if ops.is_empty() {
            rep.count("empty_after_area_cut");
            continue;
        }
        let text = ops.iter().map(|o| o.wire()).collect::<Vec<_>>().join(";");
        rep.case(&text, out.nontrivial);
        rep.add("ops", ops.len() as u64);
        for k in &out.kinds {
            rep.count(&format!("op.{k}"));
        }
        for (kind, sig, step, i, m, e) in &out.fails {
            let small = if shrunk < 12 {
                shrunk += 1;
                shrink(ops[..=*step].to_vec(), kind, sig, &mut drv)
            } else {
                ops[..=*step].to_vec()
            };
            let stext = small.iter().map(|o| o.wire()).collect::<Vec<_>>().join(";");
            // re-run the shrunk history to report its own outputs
            let o2 = run_history(&small, &mut drv);
            if let Some(f) = o2.fails.iter().find(|f| &f.0 == kind && &f.1 == sig) {
                rep.fail(kind, sig, &stext, &f.3, &f.4, &f.5);
            } else {
                rep.fail(kind, sig, &text, i, m, e);
            }
        }
        if out.fails.is_empty() && args.replay.is_none() {
            // the iterators of the final state, consumed from both ends
            let mut r: Range<usize> = Range::empty();
            for op in &ops {
                let _ = apply_impl(&mut r, op);
            }
            let pat = gen_pattern(&mut rng, r.get_size().0 * r.get_size().1);
            iters.push((pat, ops));
        }
    }
    for (pat, ops) in iters {
        let fails = run_iter(&ops, &pat, &mut drv);
        let text = format!("iter:{pat}|{}", ops.iter().map(|o| o.wire()).collect::<Vec<_>>().join(";"));
        let mixed = pat.chars().any(|c| "fnN".contains(c)) && pat.chars().any(|c| "bmM".contains(c));
        rep.case(&text, mixed);
        rep.count(if mixed { "iter.mixed-ends" } else { "iter.one-end" });
        for (kind, sig, i, m, e) in fails {
            // shrink: drop operations, then pattern characters, while the same failure remains
            let (mut sops, mut spat) = (ops.clone(), pat.clone());
            if shrunk < 12 {
                shrunk += 1;
                let still = |o: &[Op], p: &str, drv: &mut Driver| !p.is_empty() && run_iter(o, p, drv).iter().any(|f| f.0 == kind && f.1 == sig);
                let mut k = 0;
                while k < sops.len() {
                    let mut c = sops.clone();
                    c.remove(k);
                    if !c.is_empty() && still(&c, &spat, &mut drv) { sops = c } else { k += 1 }
                }
                let mut k = 0;
                while k < spat.len() {
                    let mut c = spat.clone();
                    c.remove(k);
                    if still(&sops, &c, &mut drv) { spat = c } else { k += 1 }
                }
            }
            let stext = format!("iter:{spat}|{}", sops.iter().map(|o| o.wire()).collect::<Vec<_>>().join(";"));
            match run_iter(&sops, &spat, &mut drv).into_iter().find(|f| f.0 == kind && f.1 == sig) {
                Some(f) => rep.fail(&kind, &sig, &stext, &f.2, &f.3, &f.4),
                None => rep.fail(&kind, &sig, &text, &i, &m, &e),
            }
        }
    }
    for lops in larges {
        if lops.is_empty() {
            continue;
        }
        let text = format!("large:{}", lops.iter().map(|o| o.wire()).collect::<Vec<_>>().join(";"));
        rep.case(&text, true);
        rep.count("large.histories");
        for o in &lops {
            rep.count(&format!("large.op.{}", o.wire().split(',').next().unwrap()));
        }
        if let Some((sig, what)) = run_large(&lops) {
            // shrink: drop whole large operations while the same signature fails
            let mut cur = lops.clone();
            let mut k = 0;
            while k < cur.len() {
                let mut c = cur.clone();
                c.remove(k);
                if !c.is_empty() && run_large(&c).map(|f| f.0 == sig).unwrap_or(false) { cur = c } else { k += 1 }
            }
            let stext = format!("large:{}", cur.iter().map(|o| o.wire()).collect::<Vec<_>>().join(";"));
            let swhat = run_large(&cur).map(|f| f.1).unwrap_or(what);
            rep.fail("impl_vs_spec", &sig, &stext, &swhat, "(the Lean model is not run on large rectangles)", "the oracle's rectangle and sparse map");
        }
    }
    if args.replay.is_none() {
        typed_stage(&mut rng, args.count(1500, 150_000), &mut rep);
    }
    rep.add("driver_requests", drv.requests);
    rep.write(&args.out);
}

fn corpus_iter() -> Vec<&'static str> {
    vec![
        "fbbffb|N,3,4,4,5;S,3,4,1;S,4,5,4",
        "bfbfbfbf|N,0,0,1,2;S,0,0,1;S,1,2,5;S,0,2,7",
        "fb|E",
        // a row taken from the back, then an overshooting nth from the front
        "bn|N,0,0,1,2;S,0,0,1;S,1,2,5",
        "mN|N,0,0,3,1;S,2,1,7",
        "bbbb|F,2,5,1,2,3,2,3,5,3",
    ]
}

fn corpus_large() -> Vec<&'static str> {
    vec![
        // widen a 2^17-cell rectangle by less than its width, then window it from another column
        "NB,0,2,513,257;FILL,400,7;S,100,300,9;R,0,0,513,300",
        "FD,1,1,1025,129,3,11;S,5,140,4",
    ]
}
