//! C05 — Range stays a consistent rectangle under every sequence of operations.
//! Random operation histories over `calamine::Range<usize>` are run three ways:
//!   impl   : the real `Range` through its public API,
//!   model  : the Lean model (`drv_c05`, the definitions the theorems of Props/C05 are about),
//!   oracle : an independent sparse map + bounding box (the property as stated).
use calamine::{Cell, Range};
use std::collections::HashMap;
use verif_harness::{driver::Driver, guarded, report::Report, rng::Rng, Args};

#[derive(Clone, Debug)]
enum Op {
    N(u32, u32, u32, u32),
    E,
    F(Vec<(u32, u32, usize)>),
    S(u32, u32, usize),
    R(u32, u32, u32, u32),
}

impl Op {
    fn wire(&self) -> String {
        match self {
            Op::N(a, b, c, d) => format!("N,{a},{b},{c},{d}"),
            Op::E => "E".into(),
            Op::F(cells) => {
                let mut s = String::from("F");
                for (r, c, v) in cells {
                    s.push_str(&format!(",{r},{c},{v}"));
                }
                s
            }
            Op::S(a, b, v) => format!("S,{a},{b},{v}"),
            Op::R(a, b, c, d) => format!("R,{a},{b},{c},{d}"),
        }
    }
    fn parse(s: &str) -> Op {
        let p: Vec<&str> = s.split(',').collect();
        let n = |i: usize| p[i].parse::<u64>().unwrap();
        match p[0] {
            "N" => Op::N(n(1) as u32, n(2) as u32, n(3) as u32, n(4) as u32),
            "E" => Op::E,
            "S" => Op::S(n(1) as u32, n(2) as u32, n(3) as usize),
            "R" => Op::R(n(1) as u32, n(2) as u32, n(3) as u32, n(4) as u32),
            "F" => Op::F((0..(p.len() - 1) / 3).map(|i| (n(1 + 3 * i) as u32, n(2 + 3 * i) as u32, n(3 + 3 * i) as usize)).collect()),
            x => panic!("bad op {x}"),
        }
    }
}

type Rect = ((u32, u32), (u32, u32));

/// the observable state in the canonical text form shared with the Lean driver
fn dump_view(rect: Option<Rect>, val: &dyn Fn(u32, u32) -> usize) -> String {
    let (se, h, w) = match rect {
        Some((s, e)) => (
            format!("S={},{} E={},{}", s.0, s.1, e.0, e.1),
            (e.0 - s.0) as u64 + 1,
            (e.1 - s.1) as u64 + 1,
        ),
        None => ("S=- E=-".to_string(), 0, 0),
    };
    let (s, e) = rect.unwrap_or(((0, 0), (0, 0)));
    let mut rows = vec![];
    let mut cells = vec![];
    let mut used = vec![];
    for i in 0..h {
        let mut row = vec![];
        for j in 0..w {
            let v = val(s.0 + i as u32, s.1 + j as u32);
            row.push(v.to_string());
            cells.push(format!("{i}:{j}:{v}"));
            if v != 0 {
                used.push(format!("{i}:{j}:{v}"));
            }
        }
        rows.push(row.join(","));
    }
    let inside = |r: u32, c: u32| rect.is_some() && r >= s.0 && r <= e.0 && c >= s.1 && c <= e.1;
    let prow = [s.0.saturating_sub(1), s.0, e.0, e.0.saturating_add(1)];
    let pcol = [s.1.saturating_sub(1), s.1, e.1, e.1.saturating_add(1)];
    let mut gv = vec![];
    for a in prow {
        for b in pcol {
            gv.push(if inside(a, b) { val(a, b).to_string() } else { "-".into() });
        }
    }
    let rel = [(0u64, 0u64), (h.saturating_sub(1), w.saturating_sub(1)), (h, 0), (0, w)];
    let g: Vec<String> = rel
        .iter()
        .map(|(i, j)| if *i < h && *j < w { val(s.0 + *i as u32, s.1 + *j as u32).to_string() } else { "-".into() })
        .collect();
    let ix: Vec<String> = g.iter().map(|x| if x == "-" { "!".to_string() } else { x.clone() }).collect();
    format!(
        "{se} H={h} W={w} ROWS={} CELLS={} USED={} GV={} G={} IX={}",
        rows.join("/"),
        cells.join(","),
        used.join(","),
        gv.join(","),
        g.join(","),
        ix.join(",")
    )
}

/// the same text, but every field taken from the real accessor it names
fn dump_impl(r: &Range<usize>) -> String {
    let se = match (r.start(), r.end()) {
        (Some(s), Some(e)) => format!("S={},{} E={},{}", s.0, s.1, e.0, e.1),
        (None, None) => "S=- E=-".to_string(),
        _ => "S=? E=?".to_string(),
    };
    let (h, w) = r.get_size();
    let rows: Vec<String> = r.rows().map(|row| row.iter().map(|v| v.to_string()).collect::<Vec<_>>().join(",")).collect();
    let cells: Vec<String> = r.cells().map(|(i, j, v)| format!("{i}:{j}:{v}")).collect();
    let used: Vec<String> = r.used_cells().map(|(i, j, v)| format!("{i}:{j}:{v}")).collect();
    let s = r.start().unwrap_or((0, 0));
    let e = r.end().unwrap_or((0, 0));
    let prow = [s.0.saturating_sub(1), s.0, e.0, e.0.saturating_add(1)];
    let pcol = [s.1.saturating_sub(1), s.1, e.1, e.1.saturating_add(1)];
    let mut gv = vec![];
    for a in prow {
        for b in pcol {
            gv.push(r.get_value((a, b)).map(|v| v.to_string()).unwrap_or("-".into()));
        }
    }
    let rel = [(0usize, 0usize), (h.saturating_sub(1), w.saturating_sub(1)), (h, 0), (0, w)];
    let g: Vec<String> = rel.iter().map(|p| r.get(*p).map(|v| v.to_string()).unwrap_or("-".into())).collect();
    let ix: Vec<String> = rel.iter().map(|p| guarded(|| r[*p]).map(|v| v.to_string()).unwrap_or("!".into())).collect();
    format!(
        "{se} H={h} W={w} ROWS={} CELLS={} USED={} GV={} G={} IX={}",
        rows.join("/"),
        cells.join(","),
        used.join(","),
        gv.join(","),
        g.join(","),
        ix.join(",")
    )
}

/// independent oracle: bounding box + sparse map
#[derive(Clone, Default)]
struct Oracle {
    rect: Option<Rect>,
    map: HashMap<(u32, u32), usize>,
}

impl Oracle {
    fn dump(&self) -> String {
        dump_view(self.rect, &|r, c| *self.map.get(&(r, c)).unwrap_or(&0))
    }
    fn resync(&mut self, r: &Range<usize>) {
        self.map.clear();
        self.rect = match (r.start(), r.end()) {
            (Some(s), Some(e)) => Some((s, e)),
            _ => None,
        };
        if let Some((s, _)) = self.rect {
            for (i, j, v) in r.cells() {
                if *v != 0 {
                    self.map.insert((s.0 + i as u32, s.1 + j as u32), *v);
                }
            }
        }
    }
    /// Some(expected dump) when the op respects the documented preconditions; `Some("panic")` for a
    /// documented panic; None when the documentation says nothing (adopt the implementation's result).
    fn apply(&mut self, op: &Op) -> Option<String> {
        match op {
            Op::E => {
                *self = Oracle::default();
                Some(self.dump())
            }
            Op::N(a, b, c, d) => {
                if a > c || b > d {
                    return Some("panic".into());
                }
                if (*c as u64 - *a as u64 + 1) * (*d as u64 - *b as u64 + 1) >= (1 << 32) {
                    return None;
                }
                self.rect = Some(((*a, *b), (*c, *d)));
                self.map.clear();
                Some(self.dump())
            }
            Op::S(r, c, v) => {
                let (s, e) = self.rect?; // empty range: undocumented
                if *r < s.0 || *c < s.1 {
                    return Some("panic".into());
                }
                self.rect = Some((s, (e.0.max(*r), e.1.max(*c))));
                if *v == 0 {
                    self.map.remove(&(*r, *c));
                } else {
                    self.map.insert((*r, *c), *v);
                }
                Some(self.dump())
            }
            Op::R(a, b, c, d) => {
                if a > c || b > d {
                    return None; // `range` documents nothing about reversed bounds
                }
                self.rect = Some(((*a, *b), (*c, *d)));
                self.map.retain(|k, _| k.0 >= *a && k.0 <= *c && k.1 >= *b && k.1 <= *d);
                Some(self.dump())
            }
            Op::F(cells) => {
                if cells.is_empty() {
                    *self = Oracle::default();
                    return Some(self.dump());
                }
                // any cell order (D40: the readers pass cells in file order): tight bounding box over ALL cells
                let first = cells.iter().map(|c| c.0).min().unwrap();
                let last = cells.iter().map(|c| c.0).max().unwrap();
                let c0 = cells.iter().map(|c| c.1).min().unwrap();
                let c1 = cells.iter().map(|c| c.1).max().unwrap();
                self.rect = Some(((first, c0), (last, c1)));
                self.map.clear();
                for (r, c, v) in cells {
                    if *v == 0 {
                        self.map.remove(&(*r, *c));
                    } else {
                        self.map.insert((*r, *c), *v);
                    }
                }
                Some(self.dump())
            }
        }
    }
}

fn apply_impl(r: &mut Range<usize>, op: &Op) -> Result<(), String> {
    let mut next = r.clone();
    let res = guarded(|| match op {
        Op::E => next = Range::empty(),
        Op::N(a, b, c, d) => next = Range::new((*a, *b), (*c, *d)),
        Op::S(a, b, v) => next.set_value((*a, *b), *v),
        Op::R(a, b, c, d) => next = next.range((*a, *b), (*c, *d)),
        Op::F(cells) => next = Range::from_sparse(cells.iter().map(|(r, c, v)| Cell::new((*r, *c), *v)).collect()),
    });
    if res.is_ok() {
        *r = next;
    }
    res
}

fn sig_of(op: &Op, before: &Range<usize>) -> String {
    match op {
        Op::S(r, c, _) => match before.end() {
            None => "S:empty".into(),
            Some(e) => format!("S:{}{}", if *r > e.0 { "down" } else { "in" }, if *c > e.1 { "-right" } else { "" }),
        },
        Op::R(..) => format!("R:{}", if before.is_empty() { "empty-src" } else { "src" }),
        Op::N(..) => "N".into(),
        Op::E => "E".into(),
        Op::F(cells) => {
            let sorted = cells.windows(2).all(|w| w[0].0 <= w[1].0);
            (if sorted { "F" } else { "F:unsorted" }).into()
        }
    }
}

const BASES: [u64; 9] = [0, 0, 1, 2, 5, 255, 65535, (1 << 20) - 1, (1u64 << 32) - 24];

fn gen_history(rng: &mut Rng) -> Vec<Op> {
    let r0 = *rng.pick(&BASES);
    let c0 = *rng.pick(&BASES);
    let n = rng.range(1, 16);
    let mut ops = vec![];
    // shadow bounds so that most ops are meaningful; not used for checking
    let mut cur: Option<(u64, u64, u64, u64)> = None;
    let cl = |x: u64| x.min(u32::MAX as u64) as u32;
    for _ in 0..n {
        let k = rng.below(100);
        let op = if k < 14 || (cur.is_none() && k < 50) {
            let a = r0 + rng.below(6);
            let b = c0 + rng.below(6);
            let (c, d) = if rng.chance(1, 10) {
                (a.saturating_sub(rng.below(2)), b.saturating_sub(rng.below(3)))
            } else {
                (a + rng.below(6), b + rng.below(6))
            };
            cur = if a <= c && b <= d { Some((a, b, c, d)) } else { cur };
            Op::N(cl(a), cl(b), cl(c), cl(d))
        } else if k < 17 {
            cur = None;
            Op::E
        } else if k < 30 {
            let m = rng.below(9);
            let mut cells: Vec<(u32, u32, usize)> =
                (0..m).map(|_| (cl(r0 + rng.below(7)), cl(c0 + rng.below(9)), rng.below(5) as usize)).collect();
            if !rng.chance(1, 10) {
                cells.sort_by_key(|c| c.0);
            }
            cur = if cells.is_empty() {
                None
            } else {
                Some((
                    cells[0].0 as u64,
                    cells.iter().map(|c| c.1).min().unwrap() as u64,
                    cells[cells.len() - 1].0 as u64,
                    cells.iter().map(|c| c.1).max().unwrap() as u64,
                ))
            };
            Op::F(cells)
        } else if k < 75 {
            let (a, b, c, d) = cur.unwrap_or((r0, c0, r0, c0));
            let (r, col) = if rng.chance(1, 12) {
                (a.saturating_sub(rng.below(2)), b.saturating_sub(rng.below(2)))
            } else {
                (rng.range(a, c.max(a) + 3), rng.range(b, d.max(b) + 3))
            };
            if cur.is_some() && r >= a && col >= b {
                cur = Some((a, b, c.max(r), d.max(col)));
            }
            Op::S(cl(r), cl(col), rng.below(5) as usize)
        } else {
            let (a, b, c, d) = cur.unwrap_or((r0, c0, r0, c0));
            let sa = rng.range(a.saturating_sub(3), c + 3);
            let sb = rng.range(b.saturating_sub(3), d + 3);
            let (ea, eb) = if rng.chance(1, 12) {
                (sa.saturating_sub(rng.below(2)), sb.saturating_sub(rng.below(2)))
            } else {
                (sa + rng.below(6), sb + rng.below(6))
            };
            if sa <= ea && sb <= eb {
                cur = Some((sa, sb, ea, eb));
            }
            Op::R(cl(sa), cl(sb), cl(ea), cl(eb))
        };
        ops.push(op);
    }
    ops
}

struct Outcome {
    /// (kind, sig, step, impl, model, expect)
    fails: Vec<(String, String, usize, String, String, String)>,
    nontrivial: bool,
    kinds: Vec<String>,
    len: usize,
}

/// area (cells) the op would make the implementation allocate, judged from the real current state
fn area_after(r: &Range<usize>, op: &Op) -> u64 {
    let span = |a: u32, b: u32| (b as u64).saturating_sub(a as u64) + 1;
    match op {
        Op::E => 0,
        Op::N(a, b, c, d) | Op::R(a, b, c, d) => span(*a, *c).saturating_mul(span(*b, *d)),
        Op::S(row, col, _) => {
            let s = r.start().unwrap_or((0, 0));
            let e = r.end().unwrap_or((0, 0));
            span(s.0, e.0.max(*row)).saturating_mul(span(s.1, e.1.max(*col)))
        }
        Op::F(cells) => {
            if cells.is_empty() {
                return 0;
            }
            let c0 = cells.iter().map(|c| c.1).min().unwrap();
            let c1 = cells.iter().map(|c| c.1).max().unwrap();
            let r0 = cells.iter().map(|c| c.0).min().unwrap();
            let r1 = cells.iter().map(|c| c.0).max().unwrap();
            span(r0, r1).saturating_mul(span(c0, c1))
        }
    }
}

const MAX_AREA: u64 = 4096;

fn run_history(ops: &[Op], drv: &mut Driver) -> Outcome {
    let mut out = Outcome { fails: vec![], nontrivial: false, kinds: vec![], len: 0 };
    // pass 1: the implementation alone; the history is cut before an op that would allocate a huge
    // rectangle (D37: dense allocation is a separate, known finding of C06)
    let mut r: Range<usize> = Range::empty();
    let mut impl_dumps = vec![];
    let mut states = vec![];
    let mut sigs = vec![];
    for op in ops {
        if area_after(&r, op) > MAX_AREA {
            break;
        }
        let sig = sig_of(op, &r);
        let res = apply_impl(&mut r, op);
        impl_dumps.push(match &res {
            Ok(()) => dump_impl(&r),
            Err(_) => "panic".to_string(),
        });
        out.kinds.push(format!("{}{}", sig, if res.is_err() { ":panic" } else { "" }));
        sigs.push(sig);
        states.push(r.clone());
    }
    let ops = &ops[..impl_dumps.len()];
    out.len = ops.len();
    if ops.is_empty() {
        return out;
    }
    let wire: Vec<String> = ops.iter().map(|o| o.wire()).collect();
    let reply = drv.ask(&format!("hist {}", wire.join(";")));
    let model: Vec<&str> = reply.split(';').collect();
    if model.len() != ops.len() {
        out.fails.push(("model_vs_spec".into(), "driver-protocol".into(), 0, String::new(), reply.clone(), String::new()));
        return out;
    }
    let mut oracle = Oracle::default();
    let mut grown = 0;
    for (i, op) in ops.iter().enumerate() {
        let sig = sigs[i].clone();
        let impl_dump = impl_dumps[i].clone();
        if sig.starts_with("S:down") || sig.ends_with("right") || sig.starts_with("R:src") {
            grown += 1;
        }
        let expect = oracle.apply(op);
        if impl_dump != model[i] {
            out.fails.push(("impl_vs_model".into(), sig.clone(), i, impl_dump.clone(), model[i].to_string(), expect.clone().unwrap_or_default()));
        }
        match expect {
            Some(e) => {
                if impl_dump != e {
                    out.fails.push(("impl_vs_spec".into(), sig.clone(), i, impl_dump.clone(), model[i].to_string(), e.clone()));
                }
                if model[i] != e && impl_dump == e {
                    out.fails.push(("model_vs_spec".into(), sig.clone(), i, impl_dump.clone(), model[i].to_string(), e));
                }
            }
            None => oracle.resync(&states[i]),
        }
        if !out.fails.is_empty() {
            break; // the first divergence is the finding; later steps start from different states
        }
    }
    out.nontrivial = grown >= 1 && ops.len() >= 2;
    out
}

fn shrink(ops: Vec<Op>, kind: &str, sig: &str, drv: &mut Driver) -> Vec<Op> {
    let fails = |o: &[Op], drv: &mut Driver| run_history(o, drv).fails.iter().any(|f| f.0 == kind && f.1 == sig);
    let mut cur = ops;
    loop {
        let mut improved = false;
        let mut i = 0;
        while i < cur.len() {
            let mut cand = cur.clone();
            cand.remove(i);
            if !cand.is_empty() && fails(&cand, drv) {
                cur = cand;
                improved = true;
            } else {
                i += 1;
            }
        }
        if !improved {
            return cur;
        }
    }
}

fn corpus() -> Vec<&'static str> {
    vec![
        // D01: grow downwards only
        "N,0,0,5,2;S,7,1,3",
        // D02: range over an empty source covering (0,0)
        "E;R,0,0,1,1",
        "F;R,0,0,2,2",
        // grow right, grow both, then window
        "N,1,1,2,2;S,2,4,1;S,5,6,2;R,0,0,9,9;R,2,2,3,3",
        // near u32::MAX
        "N,4294967290,4294967290,4294967292,4294967293;S,4294967294,4294967295,4;R,4294967289,4294967289,4294967295,4294967295",
        // from_sparse duplicates / last writer wins / zero values
        "F,3,7,1,3,7,2,4,2,0,5,9,4;S,5,9,0;R,3,2,5,9",
        // D40: from_sparse on cells not sorted by row (a row above the first's panicked, a row below the last's was dropped)
        "F,3,259,0,0,261,4",
        "F,1,1,1,3,2,2,2,1,3;R,0,0,4,4",
        "F,5,5,1,2,7,2,9,3,3,2,5,4",
        // documented panics
        "N,3,3,2,5;N,3,3,5,2;N,1,1,2,2;S,0,1,1;S,1,0,1",
    ]
}

fn main() {
    let args = Args::parse();
    let mut drv = Driver::spawn(&args.driver);
    let mut rep = Report::new(
        "C05",
        "random operation histories (1..16 ops: new/empty/from_sparse/set_value/range, coordinates from \
         {0,1,2,5,255,65535,2^20-1,2^32-24}+small deltas, values 0..4) after each op the full observable state \
         (start,end,size,rows,cells,used_cells,get_value/get/Index probes) is compared impl vs Lean model vs \
         independent sparse-map oracle; non-trivial = history of >=2 ops containing a growing set_value or a \
         range over a non-empty source; distinct by the history text",
    );
    let mut histories: Vec<Vec<Op>> = vec![];
    if let Some(inp) = &args.replay {
        histories.push(inp.split(';').map(Op::parse).collect());
    } else {
        for c in corpus() {
            histories.push(c.split(';').map(Op::parse).collect());
        }
        let n = args.count(6000, 1_000_000);
        let mut rng = Rng::new(args.seed);
        for _ in 0..n {
            histories.push(gen_history(&mut rng));
        }
    }
    let mut shrunk = 0;
    for ops in histories {
        let out = run_history(&ops, &mut drv);
        let ops = ops[..out.len].to_vec();
        if ops.is_empty() {
            rep.count("empty_after_area_cut");
            continue;
        }
        let text = ops.iter().map(|o| o.wire()).collect::<Vec<_>>().join(";");
        rep.case(&text, out.nontrivial);
        rep.add("ops", ops.len() as u64);
        for k in &out.kinds {
            rep.count(&format!("op.{k}"));
        }
        for (kind, sig, step, i, m, e) in &out.fails {
            let small = if shrunk < 12 {
                shrunk += 1;
                shrink(ops[..=*step].to_vec(), kind, sig, &mut drv)
            } else {
                ops[..=*step].to_vec()
            };
            let stext = small.iter().map(|o| o.wire()).collect::<Vec<_>>().join(";");
            // re-run the shrunk history to report its own outputs
            let o2 = run_history(&small, &mut drv);
            if let Some(f) = o2.fails.iter().find(|f| &f.0 == kind && &f.1 == sig) {
                rep.fail(kind, sig, &stext, &f.3, &f.4, &f.5);
            } else {
                rep.fail(kind, sig, &text, i, m, e);
            }
        }
    }
    rep.add("driver_requests", drv.requests);
    rep.write(&args.out);
}
