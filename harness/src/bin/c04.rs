//! C04 — ODS: cells read back at their position; repeat counts expand faithfully.
//!
//! Two levels, each compared three ways (impl / Lean model `drv_c04` / independent oracle):
//!   unit : random flat `(cells, cols, rows_repeats)` through the hook `verif_hooks::ods::get_range_usize`,
//!          the model `getRange`, and — for well-formed inputs — the expansion oracle;
//!   file : a random sparse typed grid is written as an .ods file under several random run-length
//!          groupings (explicit copies vs repeated elements, leading/interior/trailing blank runs,
//!          covered cells, huge trailing repeats); `Ods::worksheet_range` of every encoding must be the
//!          bounding box of the non-empty cells with every value at its position (the oracle), and must
//!          agree with the model `getRange (collect runs)` and the Lean spec `bbox/expand`.
use calamine::{Data, Ods, Reader};
use std::collections::{BTreeMap, HashMap};
use std::io::Cursor;
use verif_harness::odsw::{columns_xml, shapes_xml, write_attrs, AttrStyle, OdsBook, OdsCell, OdsSheet, OdsVal, RowRun, RowWrap};
use verif_harness::{driver::Driver, fnv64, guarded, hex, report::Report, rng::Rng, unhex, Args};

const BIG: usize = 4096;

fn show_cells(v: &[u64]) -> String {
    let t = if v.is_empty() { "-".to_string() } else { v.iter().map(|x| x.to_string()).collect::<Vec<_>>().join(",") };
    if v.len() > BIG {
        format!("#{}", fnv64(t.as_bytes()))
    } else {
        t
    }
}

fn dump(s: (u64, u64), e: (u64, u64), cells: &[u64]) -> String {
    format!("S={},{} E={},{} N={} C={}", s.0, s.1, e.0, e.1, cells.len(), show_cells(cells))
}

fn list(v: &[u64]) -> String {
    if v.is_empty() {
        "-".into()
    } else {
        v.iter().map(|x| x.to_string()).collect::<Vec<_>>().join(",")
    }
}

fn parse_list(s: &str) -> Vec<u64> {
    if s == "-" {
        vec![]
    } else {
        s.split(',').map(|x| x.parse().unwrap()).collect()
    }
}

// ------------------------------------------------------------------------------------------------
// unit level
// ------------------------------------------------------------------------------------------------

#[derive(Clone, Debug)]
struct Flat {
    cells: Vec<u64>,
    cols: Vec<u64>,
    reps: Vec<u64>,
}

impl Flat {
    fn wire(&self) -> String {
        format!("{} {} {}", list(&self.cells), list(&self.cols), list(&self.reps))
    }
    fn from_rows(rows: &[(u64, Vec<u64>)]) -> Flat {
        let mut f = Flat { cells: vec![], cols: vec![0], reps: vec![] };
        for (rep, cs) in rows {
            f.cells.extend_from_slice(cs);
            f.cols.push(f.cells.len() as u64);
            f.reps.push(*rep);
        }
        f
    }
    /// the rows if the input is well formed (cols start at 0, monotone, end at cells.len, one repeat >= 1 per row)
    fn rows(&self) -> Option<Vec<(u64, Vec<u64>)>> {
        if self.cols.first() != Some(&0) || self.cols.last() != Some(&(self.cells.len() as u64)) {
            return None;
        }
        if self.cols.windows(2).any(|w| w[0] > w[1]) || self.reps.len() + 1 != self.cols.len() {
            return None;
        }
        if self.reps.iter().any(|r| *r == 0) {
            return None;
        }
        Some(
            self.cols
                .windows(2)
                .zip(self.reps.iter())
                .map(|(w, r)| (*r, self.cells[w[0] as usize..w[1] as usize].to_vec()))
                .collect(),
        )
    }
}

/// expansion oracle: bounding box of the non-zero cells of the expanded rows + row-major values.
/// `None` when a coordinate does not fit `u32` (outside the property) or the box is too large to build.
fn oracle_rows(rows: &[(u64, Vec<u64>)]) -> Option<String> {
    let mut r = 0u64;
    let mut spans: Vec<(u64, u64, &Vec<u64>)> = vec![]; // (first row, count, cells) of non-empty rows
    let (mut c0, mut c1) = (u64::MAX, 0u64);
    for (rep, cs) in rows {
        if let Some(p) = cs.iter().position(|x| *x != 0) {
            let q = cs.iter().rposition(|x| *x != 0).unwrap();
            c0 = c0.min(p as u64);
            c1 = c1.max(q as u64);
            spans.push((r, *rep, cs));
        }
        r = r.checked_add(*rep)?;
    }
    if spans.is_empty() {
        return Some(dump((0, 0), (0, 0), &[]));
    }
    let r0 = spans[0].0;
    let last = spans[spans.len() - 1];
    let r1 = last.0 + last.1 - 1;
    if r1 >= (1 << 32) || c1 >= (1 << 32) {
        return None;
    }
    let w = c1 - c0 + 1;
    let h = r1 - r0 + 1;
    if h.saturating_mul(w) > (1 << 22) {
        return None;
    }
    let mut cells = vec![0u64; (h * w) as usize];
    for (first, cnt, cs) in spans {
        for k in 0..cnt {
            let row = first + k - r0;
            for (j, v) in cs.iter().enumerate() {
                if *v != 0 {
                    cells[(row * w + (j as u64 - c0)) as usize] = *v;
                }
            }
        }
    }
    Some(dump((r0, c0), (r1, c1), &cells))
}

fn impl_unit(f: &Flat) -> String {
    #[cfg(feature = "hooks")]
    {
        let cells: Vec<usize> = f.cells.iter().map(|x| *x as usize).collect();
        let cols: Vec<usize> = f.cols.iter().map(|x| *x as usize).collect();
        let reps: Vec<usize> = f.reps.iter().map(|x| *x as usize).collect();
        match guarded(move || calamine::verif_hooks::ods::get_range_usize(cells, &cols, &reps)) {
            Ok((s, e, inner)) => {
                let inner: Vec<u64> = inner.iter().map(|x| *x as u64).collect();
                dump((s.0 as u64, s.1 as u64), (e.0 as u64, e.1 as u64), &inner)
            }
            Err(_) => "panic".into(),
        }
    }
    #[cfg(not(feature = "hooks"))]
    {
        let _ = f;
        "unavailable".into()
    }
}

const VALS: [u64; 6] = [0, 0, 0, 1, 2, 3];

fn gen_flat(rng: &mut Rng) -> Flat {
    let n = rng.below(7);
    let trim = rng.chance(1, 2);
    let mut rows = vec![];
    for i in 0..n {
        let mut rep = *rng.pick(&[1u64, 1, 1, 1, 2, 3, 5]);
        if rng.chance(1, 40) {
            rep = 0;
        }
        if i == 0 && rng.chance(1, 6) {
            rep = *rng.pick(&[7u64, 65536, 1048576, (1 << 32) - 2, (1 << 32) + 5, 1 << 33]);
        }
        let len = rng.below(6);
        let mut cs: Vec<u64> = (0..len).map(|_| *rng.pick(&VALS)).collect();
        if rng.chance(1, 8) {
            // leading blank run: the first used column is far to the right
            let lead = *rng.pick(&[1usize, 2, 3, 30, 300]);
            let mut v = vec![0; lead];
            v.append(&mut cs);
            cs = v;
        }
        if trim {
            while cs.last() == Some(&0) {
                cs.pop();
            }
        }
        if rep > 5 {
            // a huge repeat is only affordable on a leading blank row (nothing is allocated for it)
            cs.iter_mut().for_each(|x| *x = 0);
        }
        rows.push((rep, cs));
    }
    let mut f = Flat::from_rows(&rows);
    // structural faults (outside the property: impl vs model only)
    if rng.chance(1, 12) && f.reps.iter().all(|r| *r <= 5) {
        match rng.below(6) {
            0 => {
                f.reps.pop();
            }
            1 => f.reps.push(rng.below(4)),
            2 => {
                if f.cols.len() > 1 {
                    let i = rng.below(f.cols.len() as u64) as usize;
                    f.cols[i] = rng.below(f.cells.len() as u64 + 3);
                }
            }
            3 => {
                f.cols.pop();
            }
            4 => f.cols.clear(),
            _ => {
                f.cells.pop();
            }
        }
    }
    f
}

/// `Some((kind, sig, impl, model, expect))` on a mismatch
fn check_unit(f: &Flat, drv: &mut Driver, rep: Option<&mut Report>) -> Option<(String, String, String, String, String)> {
    let imp = impl_unit(f);
    let model = drv.ask(&format!("getrange {}", f.wire()));
    let rows = f.rows();
    let expect = rows.as_ref().and_then(|r| oracle_rows(r));
    if let Some(rep) = rep {
        rep.count(if rows.is_some() { "unit.wellformed" } else { "unit.illformed" });
        if imp == "panic" {
            rep.count("unit.impl_panic");
        }
        if let Some(rows) = &rows {
            let ne: Vec<usize> = rows.iter().enumerate().filter(|(_, r)| r.1.iter().any(|x| *x != 0)).map(|(i, _)| i).collect();
            if ne.is_empty() {
                rep.count("unit.all_empty");
            } else {
                let interior = (ne[0]..*ne.last().unwrap()).any(|i| !ne.contains(&i));
                let cmin = rows.iter().filter_map(|r| r.1.iter().position(|x| *x != 0)).min().unwrap();
                if interior {
                    rep.count("unit.interior_empty_row");
                }
                if cmin > 0 {
                    rep.count("unit.first_col_gt_A");
                }
                if interior && cmin > 0 {
                    rep.count("unit.interior_empty_row_and_first_col_gt_A");
                }
                if rows.iter().any(|r| r.0 > 1 && r.1.iter().any(|x| *x != 0)) {
                    rep.count("unit.repeated_nonempty_row");
                }
                if ne[0] > 0 {
                    rep.count("unit.leading_empty_rows");
                }
            }
        }
    }
    if imp == "unavailable" {
        if let Some(e) = &expect {
            if &model != e {
                return Some(("model_vs_spec".into(), "unit.getrange".into(), imp, model, e.clone()));
            }
        }
        return None;
    }
    if let Some(e) = &expect {
        if &imp != e {
            return Some(("impl_vs_spec".into(), "unit.getrange".into(), imp, model, e.clone()));
        }
        if &model != e {
            return Some(("model_vs_spec".into(), "unit.getrange".into(), imp, model, e.clone()));
        }
    }
    if imp != model {
        return Some(("impl_vs_model".into(), "unit.getrange".into(), imp, model, expect.unwrap_or_default()));
    }
    None
}

fn shrink_unit(f: &Flat, kind: &str, drv: &mut Driver) -> Flat {
    let Some(mut rows) = f.rows() else { return f.clone() };
    let fails = |rows: &Vec<(u64, Vec<u64>)>, drv: &mut Driver| {
        check_unit(&Flat::from_rows(rows), drv, None).map(|x| x.0 == kind).unwrap_or(false)
    };
    loop {
        let mut improved = false;
        let mut i = 0;
        while i < rows.len() {
            let mut c = rows.clone();
            c.remove(i);
            if fails(&c, drv) {
                rows = c;
                improved = true;
                continue;
            }
            if rows[i].0 > 1 {
                let mut c = rows.clone();
                c[i].0 = 1;
                if fails(&c, drv) {
                    rows = c;
                    improved = true;
                    continue;
                }
            }
            let mut j = 0;
            while j < rows[i].1.len() {
                let mut c = rows.clone();
                c[i].1.remove(j);
                if fails(&c, drv) {
                    rows = c;
                    improved = true;
                } else {
                    j += 1;
                }
            }
            i += 1;
        }
        if !improved {
            return Flat::from_rows(&rows);
        }
    }
}

// ------------------------------------------------------------------------------------------------
// file level
// ------------------------------------------------------------------------------------------------

/// text form of an encoded sheet (the replayable input): rows separated by `/`; a row is `<rep>:<cells>` with
/// `<rep>` empty when the element has no number-rows-repeated attribute; cells separated by `;`; a cell is
/// `<kind><payload>[=<formula hex>][~][*k]`: `_` blank, `c` covered blank, `f|p|u<f64 bits hex>`,
/// `s|a|d|t<utf8 hex>`, `b0|b1`; `=…` = table:formula; `~` = has a display `text:p`; `%` = empty string cell without any `text:p` child; `>` = a childless cell is written `<x></x>` instead of `<x/>`; `@<n>.<m>[.<t>.<e>.<c>]` = attribute spelling (`odsw::AttrStyle` code n: quotes, white space, order), blanks-as-`text:s` mode m, foreign-namespace twins t (1 before, 2 after, 3 both), nested table e (1 sub-table, 2 in a draw:frame), spelling c of the repeat count (`odsw::spell_count`); `*k` = number-columns-repeated="k".
fn cell_text(c: &OdsCell) -> String {
    let mut s = match &c.val {
        OdsVal::Empty => if c.covered { "c".to_string() } else { "_".to_string() },
        OdsVal::Float(f) => format!("f{:016x}", f.to_bits()),
        OdsVal::Percentage(f) => format!("p{:016x}", f.to_bits()),
        OdsVal::Currency(f) => format!("u{:016x}", f.to_bits()),
        OdsVal::Str(t) => format!("s{}", hex(t.as_bytes())),
        OdsVal::StrAttr(t) => format!("a{}", hex(t.as_bytes())),
        OdsVal::Bool(b) => format!("b{}", *b as u8),
        OdsVal::Date(t) => format!("d{}", hex(t.as_bytes())),
        OdsVal::Time(t) => format!("t{}", hex(t.as_bytes())),
    };
    if let Some(f) = &c.formula {
        s.push_str(&format!("={}", hex(f.as_bytes())));
    }
    if let Some((r, k)) = c.span {
        s.push_str(&format!("^{r}x{k}"));
    }
    if c.annotation.is_some() {
        s.push('#');
    }
    if !c.extra_attrs.is_empty() {
        s.push('+');
    }
    if !c.empty_paragraph {
        s.push('%');
    }
    if !c.self_closing {
        s.push('>');
    }
    if c.display.is_some() {
        s.push('~');
    }
    if c.attr_style != AttrStyle::default() || c.text_s != 0 || c.twins != 0 || c.nested != 0 || c.repeat_spelling != 0 {
        s.push_str(&format!("@{}.{}.{}.{}.{}", c.attr_style.code(), c.text_s, c.twins, c.nested, c.repeat_spelling));
    }
    if let Some(k) = c.repeat {
        s.push_str(&format!("*{k}"));
    }
    s
}

/// decorations of the table element that hold no rows: column declarations (shape 0..5 of `odsw::columns_xml`,
/// 9 = none) for `ncols` columns, and a bit set: 1 `table:table-source`, 2 `office:forms`, 4 `table:shapes` (with a
/// text box), 8 sheet-local `table:named-expressions` after the rows, 16 `calcext:conditional-formats` after the
/// rows, 32 `table:protected` / `table:print` attributes on the table, 64 decoy sheets before and after, 128 a table without any child is written `<table:table …/>`, 256 a sheet that stores no cell at all (declared and repeated blank rows only) right before the sheet under test, 512 another one as the very first sheet, 1024 foreign-namespace twins of the table's attributes
#[derive(Clone, Copy, Debug, PartialEq)]
struct Deco {
    col_shape: usize,
    ncols: usize,
    bits: u32,
    /// `AttrStyle` code of the `table:table` element
    astyle: u32,
}

const NO_DECO: Deco = Deco { col_shape: 9, ncols: 1, bits: 0, astyle: 0 };

const CELL_EXTRA: &str = " table:style-name=\"ce1\" calcext:value-type=\"void\" table:content-validation-name=\"val1\"";
const ROW_EXTRA: &str = " table:style-name=\"ro1\"";

fn decorate(sheet: &mut OdsSheet, d: Deco) {
    let mut pre = String::new();
    if d.bits & 1 != 0 {
        pre.push_str("<table:table-source table:mode=\"copy-all\" xlink:href=\"other.ods\" table:table-name=\"T\"/>");
    }
    if d.bits & 2 != 0 {
        pre.push_str("<office:forms form:automatic-focus=\"false\" form:apply-design-mode=\"false\"/>");
    }
    if d.bits & 4 != 0 {
        pre.push_str(&shapes_xml("text in a shape"));
    }
    if d.col_shape != 9 {
        pre.push_str(&columns_xml(d.col_shape, d.ncols));
    }
    sheet.prelude = pre;
    let mut post = String::new();
    if d.bits & 8 != 0 {
        post.push_str("<table:named-expressions><table:named-range table:name=\"local\" table:base-cell-address=\"$Sheet1.$A$1\" table:cell-range-address=\"$Sheet1.$A$1:.$B$2\"/></table:named-expressions>");
    }
    if d.bits & 16 != 0 {
        post.push_str("<calcext:conditional-formats><calcext:conditional-format calcext:target-range-address=\"Sheet1.A1:Sheet1.B2\"><calcext:condition calcext:apply-style-name=\"Good\" calcext:value=\"&gt;1\" calcext:base-cell-address=\"Sheet1.A1\"/></calcext:conditional-format></calcext:conditional-formats>");
    }
    sheet.postlude = post;
    sheet.attr_style = AttrStyle::from_code(d.astyle);
    if d.bits & 1024 != 0 {
        sheet.twins = 3;
    }
    if d.bits & 128 != 0 {
        sheet.self_closing = true; // only takes effect on a table without any child
    }
    if d.bits & 32 != 0 {
        sheet.extra_attrs = " table:protected=\"true\" table:print=\"false\"".into();
    }
}

fn row_text(r: &RowRun) -> String {
    let mut t = String::new();
    for w in &r.open {
        t.push(match w {
            RowWrap::Group => 'G',
            RowWrap::HeaderRows => 'H',
            RowWrap::Rows => 'R',
        });
    }
    match r.visibility.as_deref() {
        Some("collapse") => t.push('V'),
        Some(_) => t.push('F'),
        None => {}
    }
    if r.soft_break_before {
        t.push('K');
    }
    if !r.extra_attrs.is_empty() {
        t.push('Y');
    }
    if r.self_closing {
        t.push('Z');
    }
    if r.attr_style != AttrStyle::default() || r.twins != 0 || r.repeat_spelling != 0 {
        t.push_str(&format!("Q{}.{}.{}q", r.attr_style.code(), r.twins, r.repeat_spelling));
    }
    t.push_str(&format!(
        "{}:{}",
        r.repeat.map(|k| k.to_string()).unwrap_or_default(),
        r.cells.iter().map(cell_text).collect::<Vec<_>>().join(";")
    ));
    for _ in 0..r.close {
        t.push(')');
    }
    t
}

/// rows: `<opens><flags><rep>:<cells><closes>` — opens `G` (table-row-group) `H` (table-header-rows) `R` (table-rows)
/// before the row, flags `V`/`F` (table:visibility collapse/filter) `K` (soft page break before) `Y` (row style),
/// one `)` per container closed after the row. `Q<n>[.<t>.<c>]q` = attribute spelling of the row element (`AttrStyle` code), twins, spelling of its repeat count. Optional sheet prefix `P<col shape>.<ncols>.<bits>[.<attr style>]@` (see `Deco`).
fn sheet_text(rows: &[RowRun], d: Deco) -> String {
    let pre = if d == NO_DECO { String::new() } else { format!("P{}.{}.{}.{}@", d.col_shape, d.ncols, d.bits, d.astyle) };
    if rows.is_empty() {
        return format!("{pre}-");
    }
    format!("{pre}{}", rows.iter().map(row_text).collect::<Vec<_>>().join("/"))
}

fn parse_cell(s: &str) -> OdsCell {
    let (body, rep) = match s.split_once('*') {
        Some((b, k)) => (b, Some(k.parse::<usize>().unwrap())),
        None => (s, None),
    };
    let (body, astyle, text_s, twins, nested, spelling) = match body.rsplit_once('@') {
        Some((b, st)) => {
            let f: Vec<u32> = st.split('.').map(|x| x.parse::<u32>().unwrap()).collect();
            let g = |i: usize| f.get(i).copied().unwrap_or(0);
            (b, g(0), g(1) as u8, g(2) as u8, g(3) as u8, g(4) as u8)
        }
        None => (body, 0, 0, 0, 0, 0),
    };
    let (mut body, mut disp, mut ann, mut extra, mut nopara, mut openclose) = (body, false, false, false, false, false);
    loop {
        if let Some(b) = body.strip_suffix('~') {
            body = b;
            disp = true;
        } else if let Some(b) = body.strip_suffix('#') {
            body = b;
            ann = true;
        } else if let Some(b) = body.strip_suffix('+') {
            body = b;
            extra = true;
        } else if let Some(b) = body.strip_suffix('%') {
            body = b;
            nopara = true;
        } else if let Some(b) = body.strip_suffix('>') {
            body = b;
            openclose = true;
        } else {
            break;
        }
    }
    let (body, span) = match body.split_once('^') {
        Some((b, sp)) => {
            let (r, k) = sp.split_once('x').expect("span");
            (b, Some((r.parse::<usize>().unwrap(), k.parse::<usize>().unwrap())))
        }
        None => (body, None),
    };
    let (body, formula) = match body.split_once('=') {
        Some((b, f)) => (b, Some(String::from_utf8(unhex(f)).unwrap())),
        None => (body, None),
    };
    let txt = |h: &str| String::from_utf8(unhex(h)).unwrap();
    let bits = |h: &str| f64::from_bits(u64::from_str_radix(h, 16).unwrap());
    let (k, p) = body.split_at(1);
    let mut c = match k {
        "_" => OdsCell::empty(),
        "c" => OdsCell::empty().covered(),
        "f" => OdsCell::new(OdsVal::Float(bits(p))),
        "p" => OdsCell::new(OdsVal::Percentage(bits(p))),
        "u" => OdsCell::new(OdsVal::Currency(bits(p))),
        "s" => OdsCell::new(OdsVal::Str(txt(p))),
        "a" => OdsCell::new(OdsVal::StrAttr(txt(p))),
        "b" => OdsCell::new(OdsVal::Bool(p == "1")),
        "d" => OdsCell::new(OdsVal::Date(txt(p))),
        "t" => OdsCell::new(OdsVal::Time(txt(p))),
        x => panic!("bad cell kind {x}"),
    };
    c.repeat = rep;
    c.formula = formula;
    c.span = span;
    if disp {
        c.display = Some("shown".into());
    }
    if ann {
        c.annotation = Some("a note\nsecond line".into());
    }
    if extra {
        c.extra_attrs = CELL_EXTRA.into();
    }
    c.empty_paragraph = !nopara;
    c.self_closing = !openclose;
    c.attr_style = AttrStyle::from_code(astyle);
    c.text_s = text_s;
    c.twins = twins;
    c.nested = nested;
    c.repeat_spelling = spelling;
    c
}

fn parse_sheet(s: &str) -> (Vec<RowRun>, Deco) {
    let (deco, s) = match s.strip_prefix('P').and_then(|r| r.split_once('@')) {
        Some((d, rest)) => {
            let p: Vec<&str> = d.split('.').collect();
            (Deco { col_shape: p[0].parse().unwrap(), ncols: p[1].parse().unwrap(), bits: p[2].parse().unwrap(), astyle: p.get(3).map(|x| x.parse().unwrap()).unwrap_or(0) }, rest)
        }
        None => (NO_DECO, s),
    };
    if s == "-" {
        return (vec![], deco);
    }
    let rows = s
        .split('/')
        .map(|r| {
            let close = r.len() - r.trim_end_matches(')').len();
            let r = r.trim_end_matches(')');
            let (head, cells) = r.split_once(':').expect("row");
            let (head, rstyle) = match (head.find('Q'), head.find('q')) {
                (Some(a), Some(b)) if a < b => {
                    let f: Vec<u32> = head[a + 1..b].split('.').map(|x| x.parse::<u32>().unwrap()).collect();
                    (format!("{}{}", &head[..a], &head[b + 1..]), (f[0], f.get(1).copied().unwrap_or(0) as u8, f.get(2).copied().unwrap_or(0) as u8))
                }
                _ => (head.to_string(), (0, 0, 0)),
            };
            let rep: String = head.chars().filter(|c| c.is_ascii_digit()).collect();
            let mut row = RowRun::new(if cells.is_empty() { vec![] } else { cells.split(';').map(parse_cell).collect() });
            row.repeat = if rep.is_empty() { None } else { Some(rep.parse().unwrap()) };
            row.close = close;
            row.attr_style = AttrStyle::from_code(rstyle.0);
            row.twins = rstyle.1;
            row.repeat_spelling = rstyle.2;
            for ch in head.chars() {
                match ch {
                    'G' => row.open.push(RowWrap::Group),
                    'H' => row.open.push(RowWrap::HeaderRows),
                    'R' => row.open.push(RowWrap::Rows),
                    'V' => row.visibility = Some("collapse".into()),
                    'F' => row.visibility = Some("filter".into()),
                    'K' => row.soft_break_before = true,
                    'Y' => row.extra_attrs = ROW_EXTRA.into(),
                    'Z' => row.self_closing = true,
                    _ => {}
                }
            }
            row
        })
        .collect();
    (rows, deco)
}

/// Legal ODF decorations that must not change any range: row containers (nested outline groups, header rows,
/// table-rows), row visibility / style / soft page breaks, cell spans, annotations, foreign attributes.
fn wrap_rows(rows: &mut [RowRun], rng: &mut Rng) -> Deco {
    if rng.chance(1, 3) {
        return NO_DECO; // plain encoding
    }
    // the whole declared extent of the sheet (blank runs included): a faulty reader that stores a blank cell makes the
    // dense range as large as this
    let total_rows: u64 = rows.iter().map(|r| r.count() as u64).sum();
    let max_cols: u64 = rows.iter().map(|r| r.cells.iter().map(|c| c.count() as u64).sum::<u64>()).max().unwrap_or(0);
    let safe_extent = total_rows.saturating_mul(max_cols.max(1)) <= (1 << 21);
    // (kind of each open container); header-rows and table-rows hold rows only, groups nest
    let mut open: Vec<RowWrap> = vec![];
    let n = rows.len();
    for (i, row) in rows.iter_mut().enumerate() {
        let leaf = matches!(open.last(), Some(RowWrap::HeaderRows | RowWrap::Rows));
        if !leaf {
            while open.len() < 3 && rng.chance(1, 4) {
                row.open.push(RowWrap::Group);
                open.push(RowWrap::Group);
            }
            if rng.chance(1, 5) {
                let w = if rng.chance(1, 2) { RowWrap::HeaderRows } else { RowWrap::Rows };
                row.open.push(w);
                open.push(w);
            }
        }
        // close some of what is open after this row (sometimes left to the end of the table)
        while !open.is_empty() && (rng.chance(1, 3) || (i + 1 == n && rng.chance(1, 2))) {
            open.pop();
            row.close += 1;
        }
        if rng.chance(1, 8) {
            row.visibility = Some(if rng.chance(1, 2) { "collapse" } else { "filter" }.to_string());
        }
        if rng.chance(1, 10) {
            row.soft_break_before = true;
        }
        if rng.chance(1, 6) {
            row.extra_attrs = ROW_EXTRA.into();
        }
        if rng.chance(1, 3) {
            row.attr_style = AttrStyle::from_code(rng.below(32 * 64) as u32);
        }
        if rng.chance(1, 4) {
            row.twins = rng.range(1, 3) as u8;
        }
        if row.repeat.is_some() && rng.chance(1, 4) {
            // `+k`, `00k`, a character reference, a blank before / after the digits
            row.repeat_spelling = rng.range(1, 6) as u8;
        }
        // decorations that would turn a blank run into stored cells under a faulty reader are kept off huge runs, so that
        // such a reader yields a wrong range (a replayable finding) instead of exhausting memory
        let small_row = row.repeat.unwrap_or(1) <= 64 && safe_extent;
        for cell in row.cells.iter_mut() {
            // every legal spelling of the attributes the reader looks at (repeat count, value type, value, formula)
            if rng.chance(1, 3) {
                cell.attr_style = AttrStyle::from_code(rng.below(32 * 64) as u32);
            }
            // foreign-namespace twins of every attribute the reader looks at, before and / or after the real ones
            if rng.chance(1, 4) && (!cell.is_blank() || (small_row && cell.count() <= 64)) {
                cell.twins = rng.range(1, 3) as u8;
            }
            // a table nested in a cell whose value is in its attributes (or in a blank cell): its cells are not the sheet's
            if !matches!(cell.val, OdsVal::Str(_)) && small_row && cell.count() <= 64 && rng.chance(1, 8) {
                cell.nested = rng.range(1, 2) as u8;
                cell.self_closing = false;
            }
            if cell.repeat.is_some() && rng.chance(1, 4) {
                cell.repeat_spelling = rng.range(1, 6) as u8;
            }
            if !cell.is_blank() && !cell.covered && rng.chance(1, 8) {
                cell.span = Some((rng.range(1, 3) as usize, rng.range(1, 3) as usize));
            }
            if rng.chance(1, 8) {
                cell.annotation = Some("a note\nsecond line".into());
                cell.self_closing = false;
            }
            if rng.chance(1, 6) {
                cell.extra_attrs = CELL_EXTRA.into();
            }
        }
    }
    Deco {
        col_shape: if rng.chance(1, 3) { 9 } else { rng.below(6) as usize },
        ncols: *rng.pick(&[1usize, 2, 3, 7, 1024, 16384]),
        bits: if rng.chance(1, 2) { rng.below(2048) as u32 } else { 0 },
        // (white space in the table's END tag only on sheets of small declared extent: a reader that misses that end tag
        // appends the next sheet's rows, which must stay a replayable wrong range, not an allocation failure)
        astyle: if rng.chance(1, 3) {
            // the sheets that may follow (decoys: 2003 rows x 41 columns) count into that extent
            let safe_with_followers = (total_rows + 2100).saturating_mul(max_cols.max(41)) <= (1 << 21);
            (rng.below(32 * 8) as u32) & if safe_with_followers { !0 } else { !16 }
        } else {
            0
        },
    }
}

/// what a grid position stores: a value (possibly `Empty`) and a formula (possibly none); never both absent
type GCell = (OdsVal, Option<String>);
type TGrid = BTreeMap<(u64, u64), GCell>;

fn palette(rng: &mut Rng) -> GCell {
    let v = match rng.below(16) {
        0 => OdsVal::Float(1.5),
        1 => OdsVal::Float(-2.0),
        2 => OdsVal::Percentage(0.5),
        3 => OdsVal::Currency(3.25),
        4 => OdsVal::Str("a".into()),
        5 => OdsVal::Str(String::new()),
        6 => OdsVal::Str("x y\nz & <w>".into()),
        7 => OdsVal::StrAttr("q\"r".into()),
        8 => OdsVal::Bool(true),
        9 => OdsVal::Bool(false),
        10 => OdsVal::Date("2021-03-04".into()),
        11 => OdsVal::Date("2021-03-04T05:06:07".into()),
        12 => OdsVal::Time("PT1H2M3S".into()),
        13 => OdsVal::Float(f64::from_bits(rng.next() & 0x7fef_ffff_ffff_ffff | ((rng.next() & 1) << 63))),
        14 => {
            if rng.chance(1, 3) {
                // runs of blanks around the sizes a reader might treat specially, written as text:s by the encoder
                let n = *rng.pick(&[2usize, 31, 32, 33, 64, 100, 1000]);
                OdsVal::Str(format!("{}a{}b  c ", if rng.chance(1, 3) { " " } else { "" }, " ".repeat(n)))
            } else {
                OdsVal::Str(format!("s{}", rng.below(1000)))
            }
        }
        _ => OdsVal::Float(rng.below(100) as f64),
    };
    match rng.below(12) {
        0 => (v, Some("of:=[.A1]+1".to_string())),
        1 => (v, Some(format!("of:=SUM([.A1:.B{}])&\"<x>\"", rng.range(1, 9)))),
        2 => (OdsVal::Empty, Some("of:=[.B2]".to_string())), // a formula without a cached value
        _ => (v, None),
    }
}

const ROW_BASE: [u64; 9] = [0, 0, 0, 1, 2, 5, 100, 65535, 1_048_000];
const COL_BASE: [u64; 9] = [0, 0, 0, 1, 2, 3, 26, 255, 16300];

/// a sparse typed grid; duplicates of neighbouring cells/rows are frequent so that repeats matter
fn gen_grid(rng: &mut Rng) -> TGrid {
    let mut g = TGrid::new();
    if rng.chance(1, 40) {
        return g;
    }
    let r0 = *rng.pick(&ROW_BASE);
    let c0 = *rng.pick(&COL_BASE);
    if rng.chance(1, 12) {
        // boundary positions: a small block right behind the sheet limits of the office suites (column 16384, row
        // 1048576) and other powers of two, so that ONE blank run longer than the limit precedes a value; every
        // value lies near (r0, c0), so the bounding box stays small
        let rb = *rng.pick(&[0u64, 0, 3, 1_048_575, 1_048_576, 1_048_577, 1_048_590, 2_097_153, 16_777_217]);
        let cb = *rng.pick(&[0u64, 2, 16_383, 16_384, 16_385, 16_400, 65_536, 65_537, 1_048_577]);
        let h = rng.range(1, 3);
        let w = rng.range(1, 3);
        for i in 0..h {
            for j in 0..w {
                if rng.chance(2, 3) {
                    g.insert((rb + i, cb + j), palette(rng));
                }
            }
        }
        if g.is_empty() {
            g.insert((rb, cb), palette(rng));
        }
        // sometimes one more value in the first column of one of these rows: a single row as wide as the limit
        if (cb <= 16_400 || (cb <= 65_537 && rng.chance(1, 4))) && rng.chance(1, 4) {
            g.insert((rb, 0), palette(rng));
        }
        return g;
    }
    if rng.chance(1, 100) {
        // two far-apart cells (bounding box <= 2^21 cells, mostly much smaller)
        let h = rng.range(1, 2000);
        let area = if rng.chance(1, 8) { 1 << 20 } else { 1 << 15 };
        let w = rng.range(1, (area / h).max(1)).min(16383 - c0.min(16000));
        g.insert((r0, c0), palette(rng));
        g.insert((r0 + h, c0 + w), palette(rng));
        if rng.chance(1, 2) {
            g.insert((r0 + h / 2, c0 + w / 2), palette(rng));
        }
        return g;
    }
    let h = rng.range(1, 9);
    let w = rng.range(1, 8);
    let density = rng.range(1, 9);
    let mut prev: Vec<Option<GCell>> = vec![None; w as usize];
    for i in 0..h {
        let mode = rng.below(10);
        let row: Vec<Option<GCell>> = if mode < 2 {
            vec![None; w as usize] // blank row
        } else if mode < 5 {
            prev.clone() // copy of the previous row
        } else {
            let mut row: Vec<Option<GCell>> = vec![];
            for j in 0..w as usize {
                let v = if rng.below(10) < density {
                    if j > 0 && rng.chance(1, 3) {
                        row[j - 1].clone()
                    } else {
                        Some(palette(rng))
                    }
                } else {
                    None
                };
                row.push(v);
            }
            row
        };
        for (j, v) in row.iter().enumerate() {
            if let Some(v) = v {
                g.insert((r0 + i, c0 + j as u64), v.clone());
            }
        }
        prev = row;
    }
    // sometimes a lone cell further away (interior blank rows / columns of some length)
    if rng.chance(1, 5) {
        g.insert((r0 + h + rng.below(40), c0 + rng.below(30)), palette(rng));
    }
    g
}

fn split(rng: &mut Rng, n: u64) -> u64 {
    match rng.below(3) {
        0 => 1,
        1 => n,
        _ => rng.range(1, n),
    }
}

/// one random run-length grouping of the grid
fn encode(g: &TGrid, rng: &mut Rng) -> Vec<RowRun> {
    let mut rows: Vec<RowRun> = vec![];
    let mut by_row: BTreeMap<u64, Vec<(u64, &GCell)>> = BTreeMap::new();
    for ((r, c), v) in g {
        by_row.entry(*r).or_default().push((*c, v));
    }
    let blank_row = |rng: &mut Rng, k: u64| -> RowRun {
        let cells = match rng.below(4) {
            0 => vec![],
            1 => vec![OdsCell::empty()],
            2 => vec![OdsCell::empty_run(*rng.pick(&[1usize, 3, 1024, 16384]))],
            _ => vec![OdsCell::empty().covered(), OdsCell::empty_run(2)],
        };
        let mut r = RowRun::new(cells);
        r.self_closing = rng.chance(1, 2);
        if k > 1 || rng.chance(1, 3) {
            r.repeat = Some(k as usize);
        }
        r
    };
    let keys: Vec<u64> = by_row.keys().cloned().collect();
    let mut r = 0u64;
    let mut ki = 0;
    while ki < keys.len() {
        let next = keys[ki];
        // blank rows r..next
        let mut left = next - r;
        while left > 0 {
            let k = split(rng, left);
            rows.push(blank_row(rng, k));
            left -= k;
        }
        // how many following rows are identical to this one?
        let cur = &by_row[&next];
        let mut n = 1;
        while ki + (n as usize) < keys.len() && keys[ki + n as usize] == next + n && &by_row[&keys[ki + n as usize]] == cur {
            n += 1;
        }
        let k = split(rng, n);
        // encode the row's cells
        let mut cells: Vec<OdsCell> = vec![];
        let mut c = 0u64;
        let mut i = 0;
        let blank = |rng: &mut Rng, k: u64| -> OdsCell {
            let mut cell = if rng.chance(1, 4) { OdsCell::empty().covered() } else { OdsCell::empty() };
            if k > 1 || rng.chance(1, 3) {
                cell.repeat = Some(k as usize);
            }
            cell.self_closing = rng.chance(3, 4);
            cell
        };
        while i < cur.len() {
            let (col, v) = cur[i];
            let mut left = col - c;
            while left > 0 {
                let k = split(rng, left);
                cells.push(blank(rng, k));
                left -= k;
            }
            let mut n = 1;
            while i + n < cur.len() && cur[i + n].0 == col + n as u64 && cur[i + n].1 == v {
                n += 1;
            }
            let k = split(rng, n as u64);
            let mut cell = OdsCell::new(v.0.clone());
            cell.formula = v.1.clone();
            if k > 1 || rng.chance(1, 4) {
                cell.repeat = Some(k as usize);
            }
            if !matches!(v.0, OdsVal::Str(_)) && !v.0.is_empty() && rng.chance(1, 3) {
                cell.display = Some("shown".into());
            }
            if rng.chance(1, 10) {
                cell.covered = true; // a covered cell that still carries content
            }
            cell.self_closing = rng.chance(1, 2);
            // every childless form of a cell: an empty string without its empty paragraph
            cell.empty_paragraph = !rng.chance(1, 2);
            if matches!(v.0, OdsVal::Str(_)) {
                cell.text_s = rng.below(3) as u8;
            }
            cells.push(cell);
            c = col + k;
            i += k as usize;
        }
        // trailing blank run of any length
        if rng.chance(1, 2) {
            let k = *rng.pick(&[1u64, 2, 5, 1000, 16384]);
            let k = if k == 16384 { 16384u64.saturating_sub(c).max(1) } else { k };
            cells.push(blank(rng, k));
            if rng.chance(1, 4) {
                cells.push(blank(rng, 3));
            }
        }
        let mut row = RowRun::new(cells);
        if k > 1 || rng.chance(1, 4) {
            row.repeat = Some(k as usize);
        }
        rows.push(row);
        r = next + k;
        ki += k as usize;
    }
    // trailing blank rows, possibly the rest of the sheet
    if rng.chance(1, 2) {
        let k = *rng.pick(&[1u64, 3, 1000, 1_048_576]);
        let k = if k == 1_048_576 { 1_048_576u64.saturating_sub(r).max(1) } else { k };
        rows.push(blank_row(rng, k));
        if rng.chance(1, 4) {
            rows.push(blank_row(rng, 2));
        }
    }
    rows
}

/// values range and formulas range, each as impl / model / Lean spec / oracle dump
struct FileOut {
    imp: [String; 2],
    model: [String; 2],
    spec: [String; 2],
    expect: [String; 2],
    /// typed mismatch found by walking the real ranges against the grid (independent of the id tables)
    typed: Option<String>,
}

fn data_key(d: &Data) -> String {
    match d {
        Data::Float(f) => format!("F:{:016x}", f.to_bits()),
        other => format!("{other:?}"),
    }
}

/// bounding box + row-major ids of the non-zero entries
fn oracle_dump(cells: &[((u64, u64), u64)]) -> String {
    if cells.is_empty() {
        return dump((0, 0), (0, 0), &[]);
    }
    let r0 = cells.iter().map(|x| x.0 .0).min().unwrap();
    let r1 = cells.iter().map(|x| x.0 .0).max().unwrap();
    let c0 = cells.iter().map(|x| x.0 .1).min().unwrap();
    let c1 = cells.iter().map(|x| x.0 .1).max().unwrap();
    let w = c1 - c0 + 1;
    let mut out = vec![0u64; ((r1 - r0 + 1) * w) as usize];
    for (p, v) in cells {
        out[((p.0 - r0) * w + (p.1 - c0)) as usize] = *v;
    }
    dump((r0, c0), (r1, c1), &out)
}

/// a sheet read through the public API against the expansion of what was written: bounds = bounding box of the
/// non-empty values (formulas), every value (formula) at its position, nothing else stored
fn check_sheet(r: &calamine::Range<Data>, fr: &calamine::Range<String>, grid: &verif_harness::odsw::Grid) -> Option<String> {
    fn bbox<'a>(it: impl Iterator<Item = &'a (u64, u64)>) -> Option<((u32, u32), (u32, u32))> {
        let v: Vec<&(u64, u64)> = it.collect();
        if v.is_empty() {
            return None;
        }
        Some((
            (v.iter().map(|p| p.0).min().unwrap() as u32, v.iter().map(|p| p.1).min().unwrap() as u32),
            (v.iter().map(|p| p.0).max().unwrap() as u32, v.iter().map(|p| p.1).max().unwrap() as u32),
        ))
    }
    let bv = bbox(grid.iter().filter(|(_, v)| v.0 != Data::Empty).map(|(k, _)| k));
    let bf = bbox(grid.iter().filter(|(_, v)| !v.1.is_empty()).map(|(k, _)| k));
    if (r.start(), r.end()) != (bv.map(|b| b.0), bv.map(|b| b.1)) {
        return Some(format!("values range {:?}..{:?}, expected {:?}", r.start(), r.end(), bv));
    }
    if (fr.start(), fr.end()) != (bf.map(|b| b.0), bf.map(|b| b.1)) {
        return Some(format!("formulas range {:?}..{:?}, expected {:?}", fr.start(), fr.end(), bf));
    }
    let mut nv = 0;
    let mut nf = 0;
    for (p, (v, f)) in grid {
        if *v != Data::Empty {
            nv += 1;
            if r.get_value((p.0 as u32, p.1 as u32)) != Some(v) {
                return Some(format!("value at {p:?}: {:?}, expected {v:?}", r.get_value((p.0 as u32, p.1 as u32))));
            }
        }
        if !f.is_empty() {
            nf += 1;
            if fr.get_value((p.0 as u32, p.1 as u32)) != Some(f) {
                return Some(format!("formula at {p:?}: {:?}, expected {f:?}", fr.get_value((p.0 as u32, p.1 as u32))));
            }
        }
    }
    if r.used_cells().count() != nv || fr.used_cells().count() != nf {
        return Some(format!("{} used values / {} used formulas, expected {nv} / {nf}", r.used_cells().count(), fr.used_cells().count()));
    }
    None
}

fn run_file(rows: &[RowRun], deco: Deco, drv: &mut Driver, stored: bool) -> FileOut {
    let mut sheet = OdsSheet::new("Sheet1", rows.to_vec());
    decorate(&mut sheet, deco);
    let grid = sheet.grid();
    // id tables: 0 = empty, ids by first appearance in the runs
    let mut ids: HashMap<String, u64> = HashMap::new();
    ids.insert(data_key(&Data::Empty), 0);
    let mut fids: HashMap<String, u64> = HashMap::new();
    fids.insert(String::new(), 0);
    fn id_of(m: &mut HashMap<String, u64>, k: String) -> u64 {
        let n = m.len() as u64;
        *m.entry(k).or_insert(n)
    }
    let runs_wire = if rows.is_empty() {
        "-".to_string()
    } else {
        rows.iter()
            .map(|r| {
                format!(
                    "{}:{}",
                    r.count(),
                    r.cells
                        .iter()
                        .map(|c| {
                            format!(
                                "{}{},{}*{}",
                                if c.covered { "c" } else { "" },
                                id_of(&mut ids, data_key(&c.val.expected())),
                                id_of(&mut fids, c.formula.clone().unwrap_or_default()),
                                c.count()
                            )
                        })
                        .collect::<Vec<_>>()
                        .join(";")
                )
            })
            .collect::<Vec<_>>()
            .join("/")
    };
    // oracle: bounding box of the non-empty values / formulas
    let ne_v: Vec<(&(u64, u64), &Data)> = grid.iter().filter(|(_, v)| v.0 != Data::Empty).map(|(k, v)| (k, &v.0)).collect();
    let ne_f: Vec<(&(u64, u64), &String)> = grid.iter().filter(|(_, v)| !v.1.is_empty()).map(|(k, v)| (k, &v.1)).collect();
    let ev: Vec<((u64, u64), u64)> = ne_v.iter().map(|(p, v)| (**p, id_of(&mut ids, data_key(v)))).collect();
    let ef: Vec<((u64, u64), u64)> = ne_f.iter().map(|(p, f)| (**p, id_of(&mut fids, (*f).clone()))).collect();
    let expect = [oracle_dump(&ev), oracle_dump(&ef)];
    // implementation
    let mut book = OdsBook::new(vec![sheet]);
    if deco.bits & 64 != 0 {
        // decoy sheets around the one under test: their rows must not leak into it
        let decoy = |name: &str| {
            OdsSheet::new(
                name,
                vec![
                    RowRun::new(vec![OdsCell::empty_run(40), OdsCell::string("decoy")]).times(3),
                    RowRun::new(vec![OdsCell::float(9.0).times(2)]).times(2000),
                ],
            )
        };
        book.sheets.insert(0, decoy("Summary"));
        book.sheets.push(decoy("Archive"));
    }
    // sheets that declare rows but store no cell at all, in front of sheets with data
    let blank_sheet = |name: &str| {
        let mut r0 = RowRun::new(vec![]).times(4);
        r0.self_closing = true;
        OdsSheet::new(
            name,
            vec![r0, RowRun::new(vec![OdsCell::empty_run(5)]).times(3), RowRun::new(vec![OdsCell::empty().covered(), OdsCell::empty()])],
        )
    };
    if deco.bits & 256 != 0 {
        let at = book.sheets.iter().position(|s| s.name == "Sheet1").unwrap();
        book.sheets.insert(at, blank_sheet("Sheet10"));
    }
    if deco.bits & 512 != 0 {
        book.sheets.insert(0, blank_sheet("zz blank first"));
    }
    let others: Vec<OdsSheet> = book.sheets.iter().filter(|s| s.name != "Sheet1").cloned().collect();
    let doc_names: Vec<String> = book.sheets.iter().map(|s| s.name.clone()).collect();
    book.stored = stored;
    let bytes = book.to_bytes();
    let bytes_len = bytes.len();
    let mut typed = None;
    let imp = match guarded(|| {
        let mut ods: Ods<_> = Ods::new(Cursor::new(bytes)).map_err(|e| format!("err:{e:?}"))?;
        let v = ods.worksheet_range("Sheet1").map_err(|e| format!("err:{e:?}"))?;
        let f = ods.worksheet_formula("Sheet1").map_err(|e| format!("err:{e:?}"))?;
        // every other sheet of the file reads as its own grid too
        for o in &others {
            let r = ods.worksheet_range(&o.name).map_err(|e| format!("err:{e:?}"))?;
            let fr = ods.worksheet_formula(&o.name).map_err(|e| format!("err:{e:?}"))?;
            if let Some(msg) = check_sheet(&r, &fr, &o.grid()) {
                return Err(format!("other-sheet '{}': {msg}", o.name));
            }
        }
        // access paths agree: the n-th sheet in DOCUMENT order (sheet_names / worksheet_range_at), the sheet of that
        // name, and the entry of that name in worksheets()
        let names = ods.sheet_names();
        if names != doc_names {
            return Err(format!("sheet_names {names:?}, document order {doc_names:?}"));
        }
        let all = ods.worksheets();
        for (n, name) in names.iter().enumerate() {
            let by_name = ods.worksheet_range(name).map_err(|e| format!("err:{e:?}"))?;
            let same = |x: &calamine::Range<Data>| x.start() == by_name.start() && x.end() == by_name.end() && x.rows().eq(by_name.rows());
            match ods.worksheet_range_at(n) {
                Some(Ok(r)) if same(&r) => {}
                other => return Err(format!("worksheet_range_at({n}) is not sheet '{name}': {:?}", other.map(|r| r.map(|r| (r.start(), r.end())))))
            }
            match all.iter().find(|(k, _)| k == name) {
                Some((_, r)) if same(r) => {}
                _ => return Err(format!("worksheets() entry '{name}' differs from worksheet_range")),
            }
        }
        if all.len() != names.len() {
            return Err(format!("worksheets() has {} entries for {} sheets", all.len(), names.len()));
        }
        // reading is independent of the reader's option history: after Row(a) / FirstNonEmptyRow / Row(b) detours the
        // same value reads the same ranges as a freshly opened one (cut by the public `Range::range`)
        if let (Some(st), Some(en)) = (v.start(), v.end()) {
            if (en.0 - st.0) < 64 && (bytes_len % 4) == 0 {
                let a = st.0 + (bytes_len as u32 / 4) % (en.0 - st.0 + 1);
                let b = st.0 + (bytes_len as u32 / 8) % (en.0 - st.0 + 1);
                let ra = ods.with_header_row(calamine::HeaderRow::Row(a)).worksheet_range("Sheet1").map_err(|e| format!("err:{e:?}"))?;
                let v2 = ods.with_header_row(calamine::HeaderRow::FirstNonEmptyRow).worksheet_range("Sheet1").map_err(|e| format!("err:{e:?}"))?;
                let rb = ods.with_header_row(calamine::HeaderRow::Row(b)).worksheet_range("Sheet1").map_err(|e| format!("err:{e:?}"))?;
                let same = |x: &calamine::Range<Data>, y: &calamine::Range<Data>| x.start() == y.start() && x.end() == y.end() && x.rows().eq(y.rows());
                if !same(&ra, &v.range((a, st.1), en)) || !same(&v2, &v) || !same(&rb, &v.range((b, st.1), en)) {
                    return Err(format!("option-history: Row({a}) / FirstNonEmptyRow / Row({b}) on one reader differ from fresh reads"));
                }
                ods.with_header_row(calamine::HeaderRow::FirstNonEmptyRow);
            }
        }
        Ok::<_, String>((v, f))
    }) {
        Err(p) => [format!("panic:{p}"), String::new()],
        Ok(Err(e)) => [e, String::new()],
        Ok(Ok((range, frange))) => {
            let inner: Vec<u64> = range
                .rows()
                .flatten()
                .map(|d| if *d == Data::Empty { 0 } else { ids.get(&data_key(d)).copied().unwrap_or(999_999) })
                .collect();
            let finner: Vec<u64> =
                frange.rows().flatten().map(|f| if f.is_empty() { 0 } else { fids.get(f).copied().unwrap_or(999_999) }).collect();
            let (s, e) = (range.start().unwrap_or((0, 0)), range.end().unwrap_or((0, 0)));
            let (fs, fe) = (frange.start().unwrap_or((0, 0)), frange.end().unwrap_or((0, 0)));
            // typed walk through the public accessors
            for (p, v) in &ne_v {
                let got = range.get_value((p.0 as u32, p.1 as u32));
                if got != Some(*v) {
                    typed = Some(format!("at ({},{}) expected {:?} got {:?}", p.0, p.1, v, got));
                    break;
                }
            }
            for (p, f) in &ne_f {
                let got = frange.get_value((p.0 as u32, p.1 as u32));
                if got != Some(*f) {
                    typed = Some(format!("formula at ({},{}) expected {:?} got {:?}", p.0, p.1, f, got));
                    break;
                }
            }
            if typed.is_none() && !range.is_empty() {
                let (h, w) = range.get_size();
                let used = range.used_cells().count();
                if used != ne_v.len() || h * w != inner.len() {
                    typed = Some(format!("size {h}x{w} with {} cells, {} used cells, expected {} used", inner.len(), used, ne_v.len()));
                }
            }
            [
                dump((s.0 as u64, s.1 as u64), (e.0 as u64, e.1 as u64), &inner),
                dump((fs.0 as u64, fs.1 as u64), (fe.0 as u64, fe.1 as u64), &finner),
            ]
        }
    };
    let reply = drv.ask(&format!("casevf {runs_wire}"));
    let p: Vec<&str> = reply.split('|').collect();
    let g = |i: usize| p.get(i).map(|s| s.to_string()).unwrap_or_else(|| reply.clone());
    FileOut { imp, model: [g(0), g(2)], spec: [g(1), g(3)], expect, typed }
}

/// rows x columns the sheet declares, blank runs included
fn declared_extent(rows: &[RowRun]) -> u64 {
    let total_rows: u64 = rows.iter().map(|r| r.count() as u64).sum();
    let max_cols: u64 = rows.iter().map(|r| r.cells.iter().map(|c| c.count() as u64).sum::<u64>()).max().unwrap_or(0);
    total_rows.saturating_mul(max_cols.max(1))
}

fn judge_file(o: &FileOut) -> Option<(String, String)> {
    if o.imp[0] != o.expect[0] {
        return Some(("impl_vs_spec".into(), "file.range".into()));
    }
    if o.imp[1] != o.expect[1] {
        return Some(("impl_vs_spec".into(), "file.formulas".into()));
    }
    if o.typed.is_some() {
        return Some(("impl_vs_spec".into(), "file.typed".into()));
    }
    if o.model != o.expect || o.spec != o.expect {
        return Some(("model_vs_spec".into(), "file.range".into()));
    }
    None
}

fn show_out(o: &[String; 2]) -> String {
    format!("values {} formulas {}", o[0], o[1])
}

/// shrink an encoded sheet: drop rows, drop cells, reduce repeats
/// make the container structure consistent again after rows were removed: never close more than is open
fn rebalance(rows: &mut [RowRun]) {
    let mut depth = 0usize;
    for r in rows.iter_mut() {
        depth += r.open.len();
        r.close = r.close.min(depth);
        depth -= r.close;
    }
}

fn shrink_file(rows: &[RowRun], deco: Deco, kind: &str, drv: &mut Driver) -> (Vec<RowRun>, Deco) {
    let mut deco = deco;
    if deco != NO_DECO && judge_file(&run_file(rows, NO_DECO, drv, false)).map(|x| x.0 == kind).unwrap_or(false) {
        deco = NO_DECO;
    }
    let fails = |rows: &Vec<RowRun>, drv: &mut Driver| {
        let mut r = rows.clone();
        rebalance(&mut r);
        judge_file(&run_file(&r, deco, drv, false)).map(|x| x.0 == kind).unwrap_or(false)
    };
    let mut cur = rows.to_vec();
    // first try without any row container / row decoration, then with one fewer at a time
    {
        let mut c = cur.clone();
        for r in c.iter_mut() {
            r.open.clear();
            r.close = 0;
            r.visibility = None;
            r.soft_break_before = false;
            r.extra_attrs.clear();
        }
        if fails(&c, drv) {
            cur = c;
        }
    }
    loop {
        let mut improved = false;
        let mut i = 0;
        while i < cur.len() {
            let mut c = cur.clone();
            c.remove(i);
            if fails(&c, drv) {
                cur = c;
                improved = true;
                continue;
            }
            if cur[i].repeat.is_some() {
                let mut c = cur.clone();
                c[i].repeat = None;
                if fails(&c, drv) {
                    cur = c;
                    improved = true;
                    continue;
                }
            }
            if !cur[i].open.is_empty() || cur[i].visibility.is_some() || cur[i].soft_break_before || !cur[i].extra_attrs.is_empty() {
                let mut c = cur.clone();
                if !c[i].open.is_empty() {
                    c[i].open.pop();
                } else {
                    c[i].visibility = None;
                    c[i].soft_break_before = false;
                    c[i].extra_attrs.clear();
                }
                if fails(&c, drv) {
                    cur = c;
                    improved = true;
                    continue;
                }
            }
            let mut j = 0;
            while j < cur[i].cells.len() {
                let mut c = cur.clone();
                c[i].cells.remove(j);
                if fails(&c, drv) {
                    cur = c;
                    improved = true;
                    continue;
                }
                let cell = &cur[i].cells[j];
                if cell.repeat.is_some() || cell.display.is_some() || cell.covered || !cell.self_closing || cell.span.is_some() || cell.annotation.is_some() || !cell.extra_attrs.is_empty() {
                    let mut c = cur.clone();
                    c[i].cells[j].repeat = None;
                    c[i].cells[j].display = None;
                    c[i].cells[j].covered = false;
                    c[i].cells[j].self_closing = true;
                    c[i].cells[j].span = None;
                    c[i].cells[j].annotation = None;
                    c[i].cells[j].extra_attrs.clear();
                    if fails(&c, drv) {
                        cur = c;
                        improved = true;
                        continue;
                    }
                }
                if cell.formula.is_some() && !cell.val.is_empty() {
                    let mut c = cur.clone();
                    c[i].cells[j].formula = None;
                    if fails(&c, drv) {
                        cur = c;
                        improved = true;
                        continue;
                    }
                }
                if !cell.val.is_empty() && cell.val != OdsVal::Float(1.0) {
                    let mut c = cur.clone();
                    c[i].cells[j].val = OdsVal::Float(1.0);
                    if fails(&c, drv) {
                        cur = c;
                        improved = true;
                        continue;
                    }
                }
                j += 1;
            }
            i += 1;
        }
        if !improved {
            rebalance(&mut cur);
            return (cur, deco);
        }
    }
}

fn unit_corpus() -> Vec<&'static str> {
    vec![
        // D19 (minimal, found by this check on the tree before the fix): rows [_,2] / [] / [_,3]
        "0,2,0,3 0,2,2,4 1,1,1",
        // D19 (ledger witness): rows [_,1,2] / [] / [_,3]
        "0,1,2,0,3 0,3,3,5 1,1,1",
        // D19 with repeated interior blank rows and a repeated data row
        "0,0,4,0,0,5 0,3,3,3,6 2,3,1,2",
        // leading blank rows, repeats, trailing blank rows
        "7,0,8 0,0,0,3,3 5,1,2,9",
        // rows longer than col_max+1 (trailing defaults materialised, as with formula-only cells)
        "1,0,0,0,2,0 0,3,6 1,1",
        // nothing but blanks
        "0,0 0,1,2 3,4",
        "- 0 -",
        "- - -",
        // leading repeat beyond u32 (the `as u32` casts)
        "1 0,0,1 4294967301,1",
        // ill-formed: cols not monotone / past the end (slice panics), repeats too short, repeat 0
        "1,2,3 0,2,1,3 1,1,1",
        "1,2,3 0,2,5 1,1",
        "1,2,3 0,1,2,3 1,1",
        "1,2,3 0,1,2,3 1,0,1",
        // repeat 0 on a blank row keeps consecutive_empty_rows alive across a data row
        "3,3,3,2,2,3 0,2,2,3,3,6 3,0,2,2,5",
    ]
}

fn file_corpus() -> Vec<&'static str> {
    vec![
        // D19 (minimal, found by this check on the tree before the fix): a blank row inside data that starts in column B
        ":_;f3ff0000000000000/:/:_;f3ff0000000000000",
        // D19 ledger witness: [_,1,2] / [] / [_,3]
        ":_;f3ff0000000000000;f4000000000000000/:/:_;f4008000000000000",
        // D19 through repeats: blank rows as one repeated element, data in column C
        ":_*2;s61/3:_*16384/2:c;_;b1*2;_*1000/1048000:_*1024",
        // every value kind, display text, covered cells
        ":f3ff8000000000000~;p3fe0000000000000;u400a000000000000~;s782079;a71;b1;b0~;d323032312d30332d3034;t50543148*2;c*3;s",
        // formulas: with a cached value, without one (materialised as an empty value), repeated, after a blank run
        ":_;f3ff0000000000000=6f663a3d5b2e41315d;_=6f663a3d5b2e42325d*2/:_*3;_=6f663a3d5b2e42325d/2:/:s61",
        // no rows at all; only blanks
        "-",
        "5:_*7/:c",
        // seeded C04-m1: rows inside (nested) table:table-row-group / table-header-rows / table-rows keep their
        // positions; column declarations with group/header wrappers, shapes, forms, table-source before the rows
        "P5.7.127@H:s61)/G:f3ff0000000000000/GR2:_;f4000000000000000)/:_*3;b1))/:s62",
        "P4.16384.4@GGG:_;f3ff0000000000000/:/:_;f4008000000000000",
        // seeded C04-m7: ONE blank run longer than 16384 columns / 1048576 rows in front of a value is counted in full
        ":_*16385;f3ff0000000000000",
        "1048577:/:f3ff0000000000000",
        "Z1048576:/2:_*65536/:c*16384;_;s61;_*20000;b1",
        // seeded C04-m8: childless cells in self-closing form for every kind — an empty string cell without paragraph
        // (`<table:table-cell office:value-type="string"/>`) must not swallow its neighbours; self-closing rows
        ":s%;f3ff0000000000000;s%*2;b1/Z:/:s%>;f4000000000000000",
        // seeded C04-m9: repeat counts (and every other attribute) in single quotes / with white space around `=`
        ":_@1.0*3;f3ff0000000000000@2.0*2;_@6.0*2;s61@30.0/Q7q2:_@4.0*2;b1@17.0*2",
        // seeded C04-m11: sheets that store no cell (declared rows only) in front of sheets with data; every sheet checked
        "P9.1.832.0@:_;f3ff0000000000000/:f4000000000000000",
        // seeded C04-m12: blanks written as text:s with counts 32, 33, 1000 (mode 1 and 2)
        ":s6120202020202020202020202020202020202020202020202020202020202020202062@0.1;s6120202020202020202020202020202020202020202020202020202020202020202062@0.2;s612020202020202020202020202020202020202020202020202020202020202020622063@13.1",
        // seeded C04-m15: repeat counts spelled `+k`, `00k`, and on rows with a character reference
        ":_@0.0.0.0.1*3;f3ff0000000000000@0.0.0.0.2*2/Q0.0.1q4:/Q0.0.3q3:/Q0.0.4q12:/:b1",
        // seeded C04-m16: tables nested in cells (sub-table, table in a draw:frame) of every value kind and of blank cells,
        // followed by further cells and rows
        ":f3ff0000000000000>@0.0.0.1.0;_>@0.0.0.2.0;b1>@0.0.0.1.0;a71>@0.0.0.2.0;d323032312d30332d3034>@0.0.0.1.0;s61/:c>@0.0.0.1.0*2;t50543148>~@0.0.0.2.0;f4000000000000000/:s62",
        // seeded C04-m14: foreign-namespace twins of every attribute, before / after / around the real ones
        "P9.1.1024.0@Q0.3.0q2:_@0.0.1.0.0*2;f3ff0000000000000=6f663a3d31@0.0.2.0.0*2;s61@0.0.3.0.0;a71@0.0.1.0.0;b0@0.0.2.0.0;d323032312d30332d3034@0.0.3.0.0;_@0.0.3.0.0;f4000000000000000",
        // fixed (ddcfda3; found by this check): a column count with a character reference, blanks around a count on either axis
        ":f3ff0000000000000;_@0.0.0.0.3*3;f4000000000000000",
        ":f3ff0000000000000/Q0.0.5q3:_/:f4000000000000000",
        ":f4008000000000000@0.0.0.0.5*7;s78/Q0.0.6q2:_@0.0.0.0.4*12;_@0.0.0.0.6*3;b1",
        // seeded C04-m17: end tags with white space before `>` (table, row, cell, paragraph) and further sheets after it
        "P9.1.64.24@Q16.0.0q:f3ff0000000000000>@24.0.0.0.0;s61@16.0.0.0.0/Q24.0.0q2:_>@16.0.0.0.0*2;b1",
        // seeded C04-m18: five sheets whose document order is not their name order, read by index, by name and through worksheets()
        "P9.1.832.0@:f3ff0000000000000;s61",
        // spans, annotations (on a value, a string, a blank), foreign attributes, hidden rows, soft page breaks
        "VKY:f3ff0000000000000^2x2#+~;c;s61#;_#*2;b1+/F:c;c;s782079#+",
    ]
}

// ------------------------------------------------------------------------------------------------
// cell level: value typing from the attributes (get_datatype), any attribute order
// ------------------------------------------------------------------------------------------------

#[derive(Clone, Debug, PartialEq)]
enum CAttr {
    Value(String),
    Str(String),
    Date(String),
    Time(String),
    Bool(String),
    VType(String),
    Formula(String),
    Other(usize),
}

const OTHER_ATTRS: [&str; 11] = [
    "x:value=\"99.5\"",
    "x:string-value=\"TWIN\"",
    "loext:boolean-value=\"true\"",
    "x:date-value=\"1999-01-01\"",
    "x:formula=\"of:=TWIN()\"",
    "x:number-columns-repeated=\"7\"",
    "table:style-name=\"ce1\"",
    "office:currency=\"EUR\"",
    "table:number-columns-repeated=\"1\"",
    "calcext:value-type=\"string\"",
    "table:number-rows-spanned=\"1\"",
];

#[derive(Clone, Debug)]
struct CellCase {
    attrs: Vec<CAttr>,
    text: Option<String>,
    /// no text child: write `<table:table-cell …/>` instead of `<table:table-cell …></table:table-cell>`
    self_closing: bool,
    /// spelling of the attributes (`odsw::AttrStyle` code; the order field is unused, `attrs` is already shuffled)
    astyle: u32,
    /// with a text child: the paragraph is `<text:p>TEXT<text:s text:c="RAW"/>x</text:p>`; `"~"` = `text:s` without
    /// a `text:c` attribute
    text_s: Option<String>,
}

/// what `<text:s text:c="raw"/>` stands for: the count is an `i32` in the code (`str::parse::<i32>`: optional sign,
/// digits only); zero and negative counts give nothing; anything else is a `ParseInt` error. `~` = attribute absent = 1
fn text_s_blanks(raw: &str) -> Result<usize, ()> {
    if raw == "~" {
        return Ok(1);
    }
    let (neg, digits) = match raw.as_bytes().first() {
        Some(b'-') => (true, &raw[1..]),
        Some(b'+') => (false, &raw[1..]),
        _ => (false, raw),
    };
    if digits.is_empty() || !digits.bytes().all(|b| b.is_ascii_digit()) {
        return Err(());
    }
    let v: u128 = digits.parse().map_err(|_| ())?;
    if neg {
        if v > 2147483648 { Err(()) } else { Ok(0) }
    } else if v > 2147483647 {
        Err(())
    } else {
        Ok(v as usize)
    }
}

impl CellCase {
    fn text_form(&self) -> String {
        let a: Vec<String> = self
            .attrs
            .iter()
            .map(|a| match a {
                CAttr::Value(r) => format!("v{}", hex(r.as_bytes())),
                CAttr::Str(r) => format!("s{}", hex(r.as_bytes())),
                CAttr::Date(r) => format!("d{}", hex(r.as_bytes())),
                CAttr::Time(r) => format!("t{}", hex(r.as_bytes())),
                CAttr::Bool(r) => format!("b{}", hex(r.as_bytes())),
                CAttr::VType(r) => format!("y{}", hex(r.as_bytes())),
                CAttr::Formula(r) => format!("f{}", hex(r.as_bytes())),
                CAttr::Other(i) => format!("o{i}"),
            })
            .collect();
        let base = format!("{}|{}", if a.is_empty() { "-".to_string() } else { a.join(";") }, self.text.as_ref().map(|t| hex(t.as_bytes())).unwrap_or(if self.self_closing { "/".into() } else { "!".into() }));
        if self.astyle == 0 && self.text_s.is_none() {
            base
        } else {
            format!("{base}|{}|{}", self.astyle, self.text_s.as_ref().map(|t| format!("x{}", hex(t.as_bytes()))).unwrap_or("!".into()))
        }
    }
    fn parse(s: &str) -> CellCase {
        let parts: Vec<&str> = s.split('|').collect();
        let (a, t) = (parts[0], parts[1]);
        let astyle: u32 = parts.get(2).map(|x| x.parse().unwrap()).unwrap_or(0);
        let txt = |h: &str| String::from_utf8(unhex(h)).unwrap();
        let attrs = if a == "-" {
            vec![]
        } else {
            a.split(';')
                .map(|x| {
                    let (k, p) = x.split_at(1);
                    match k {
                        "v" => CAttr::Value(txt(p)),
                        "s" => CAttr::Str(txt(p)),
                        "d" => CAttr::Date(txt(p)),
                        "t" => CAttr::Time(txt(p)),
                        "b" => CAttr::Bool(txt(p)),
                        "y" => CAttr::VType(txt(p)),
                        "f" => CAttr::Formula(txt(p)),
                        _ => CAttr::Other(p.parse().unwrap()),
                    }
                })
                .collect()
        };
        let text_s = parts.get(3).and_then(|x| x.strip_prefix('x')).map(|h| txt(h));
        CellCase { attrs, text: if t == "!" || t == "/" { None } else { Some(txt(t)) }, self_closing: t == "/", astyle, text_s }
    }
    fn xml(&self) -> String {
        use verif_harness::odsw::{escape_attr, escape_text};
        let mut x = String::from("<table:table-cell");
        let st = AttrStyle { order: 0, ..AttrStyle::from_code(self.astyle) };
        for a in &self.attrs {
            let kv = |k: &str, v: &str| vec![(k.to_string(), escape_attr(v))];
            match a {
                CAttr::Value(r) => write_attrs(&mut x, &kv("office:value", r), st),
                CAttr::Str(r) => write_attrs(&mut x, &kv("office:string-value", r), st),
                CAttr::Date(r) => write_attrs(&mut x, &kv("office:date-value", r), st),
                CAttr::Time(r) => write_attrs(&mut x, &kv("office:time-value", r), st),
                CAttr::Bool(r) => write_attrs(&mut x, &kv("office:boolean-value", r), st),
                CAttr::VType(r) => write_attrs(&mut x, &kv("office:value-type", r), st),
                CAttr::Formula(r) => write_attrs(&mut x, &kv("table:formula", r), st),
                CAttr::Other(i) => {
                    x.push(' ');
                    x.push_str(OTHER_ATTRS[*i])
                }
            }
        }
        if self.text.is_none() && self.self_closing {
            x.push_str("/>");
            return x;
        }
        x.push('>');
        if let Some(t) = &self.text {
            match &self.text_s {
                None => x.push_str(&format!("<text:p>{}</text:p>", escape_text(t))),
                Some(raw) => {
                    let mut sp = String::from("<text:s");
                    if raw != "~" {
                        write_attrs(&mut sp, &[("text:c".to_string(), escape_attr(raw))], st);
                    }
                    sp.push_str("/>");
                    x.push_str(&format!("<text:p>{}{}x</text:p>", escape_text(t), sp));
                }
            }
        }
        x.push_str("</table:table-cell>");
        x
    }
    /// the text content of the element as the reader assembles it (`Err` = `ParseInt`)
    fn content(&self) -> Result<String, ()> {
        match (&self.text, &self.text_s) {
            (None, _) => Ok(String::new()),
            (Some(t), None) => Ok(t.clone()),
            (Some(t), Some(raw)) => Ok(format!("{t}{}x", " ".repeat(text_s_blanks(raw)?))),
        }
    }
    fn wire(&self) -> String {
        if self.attrs.is_empty() {
            return "-".into();
        }
        self.attrs
            .iter()
            .map(|a| match a {
                CAttr::Value(r) => match r.parse::<f64>() {
                    Ok(f) => format!("v{}", f.to_bits()),
                    Err(_) => "v!".to_string(),
                },
                CAttr::Str(r) => format!("s{}", hex(r.as_bytes())),
                CAttr::Date(r) => format!("d{}", hex(r.as_bytes())),
                CAttr::Time(r) => format!("t{}", hex(r.as_bytes())),
                CAttr::Bool(r) => format!("b{}", hex(r.as_bytes())),
                CAttr::VType(r) => format!("y{}", hex(r.as_bytes())),
                CAttr::Formula(r) => format!("f{}", hex(r.as_bytes())),
                CAttr::Other(_) => "o".to_string(),
            })
            .collect::<Vec<_>>()
            .join(";")
    }
    /// the value the property states for a well-formed cell: exactly one value attribute, exactly one
    /// `office:value-type` and they match (string cells: `office:string-value` or the text content)
    fn expected(&self) -> Option<Data> {
        let vts: Vec<&String> = self.attrs.iter().filter_map(|a| if let CAttr::VType(t) = a { Some(t) } else { None }).collect();
        let vals: Vec<&CAttr> = self
            .attrs
            .iter()
            .filter(|a| matches!(a, CAttr::Value(_) | CAttr::Str(_) | CAttr::Date(_) | CAttr::Time(_) | CAttr::Bool(_)))
            .collect();
        if vts.len() != 1 || vals.len() > 1 {
            return None;
        }
        match (vts[0].as_str(), vals.first()) {
            ("float" | "percentage" | "currency", Some(CAttr::Value(r))) => r.parse::<f64>().ok().map(Data::Float),
            ("string", Some(CAttr::Str(r))) => Some(Data::String(r.clone())),
            ("string", None) => self.content().ok().map(Data::String),
            ("boolean", Some(CAttr::Bool(r))) if r == "true" || r == "false" => Some(Data::Bool(r == "true")),
            ("date", Some(CAttr::Date(r))) => Some(Data::DateTimeIso(r.clone())),
            ("time", Some(CAttr::Time(r))) => Some(Data::DurationIso(r.clone())),
            _ => None,
        }
    }
}

fn show_data(d: &Data) -> String {
    match d {
        Data::Empty => "E".into(),
        Data::Float(f) => format!("F{}", f.to_bits()),
        Data::String(s) => format!("S{}", hex(s.as_bytes())),
        Data::Bool(b) => format!("B{}", *b as u8),
        Data::DateTimeIso(s) => format!("D{}", hex(s.as_bytes())),
        Data::DurationIso(s) => format!("T{}", hex(s.as_bytes())),
        other => format!("?{other:?}"),
    }
}

const FLOAT_RAWS: [&str; 12] = ["0", "1.5", "-2", "1e3", "1E-3", "0.1", "123456789012345678", "-0", ".5", "inf", "abc", ""];
const TEXTS: [&str; 6] = ["", "a", "x y", "12", "true", "q&r<s>"];

fn gen_cell(rng: &mut Rng) -> CellCase {
    let mut attrs = vec![];
    let text = if rng.chance(2, 3) { Some(rng.pick(&TEXTS).to_string()) } else { None };
    let value_attr = |rng: &mut Rng, k: u64| -> CAttr {
        match k {
            0 => CAttr::Value(rng.pick(&FLOAT_RAWS).to_string()),
            1 => CAttr::Str(rng.pick(&TEXTS).to_string()),
            2 => CAttr::Date(rng.pick(&["2021-03-04", "2021-03-04T05:06:07", "1899-12-30", "x"]).to_string()),
            3 => CAttr::Time(rng.pick(&["PT1H2M3S", "PT00H00M00S", "P1D"]).to_string()),
            _ => CAttr::Bool(rng.pick(&["true", "false", "TRUE", "FALSE", "True", "1", ""]).to_string()),
        }
    };
    const KINDS: [&str; 8] = ["float", "percentage", "currency", "string", "boolean", "date", "time", "void"];
    if rng.chance(7, 10) {
        // well-formed: one value-type and the matching value attribute (string: attribute or text content)
        let k = rng.below(7);
        attrs.push(CAttr::VType(KINDS[k as usize].to_string()));
        match k {
            0..=2 => attrs.push(CAttr::Value(rng.pick(&FLOAT_RAWS[..10]).to_string())),
            3 => {
                if rng.chance(1, 2) {
                    attrs.push(value_attr(rng, 1))
                }
            }
            4 => attrs.push(CAttr::Bool(rng.pick(&["true", "false"]).to_string())),
            5 => attrs.push(value_attr(rng, 2)),
            _ => attrs.push(value_attr(rng, 3)),
        }
    } else {
        // attribute soup: value-type present or not, matching or not; 0..2 value attributes of distinct kinds
        if rng.chance(2, 3) {
            attrs.push(CAttr::VType(rng.pick(&KINDS).to_string()));
        }
        let mut kinds: Vec<u64> = vec![0, 1, 2, 3, 4];
        rng.shuffle(&mut kinds);
        for k in kinds.iter().take(rng.below(3) as usize) {
            attrs.push(value_attr(rng, *k));
        }
    }
    if rng.chance(1, 3) {
        attrs.push(CAttr::Formula(rng.pick(&["of:=[.A1]+1", "of:=1<2", "", "=A1&\"x\""]).to_string()));
    }
    let mut others: Vec<usize> = (0..OTHER_ATTRS.len()).collect();
    rng.shuffle(&mut others);
    for o in others.iter().take(rng.below(4) as usize) {
        attrs.push(CAttr::Other(*o));
    }
    rng.shuffle(&mut attrs);
    let self_closing = rng.chance(1, 2);
    let astyle = if rng.chance(1, 2) { rng.below(32) as u32 } else { 0 };
    let text_s = if text.is_some() && rng.chance(1, 3) {
        Some(
            rng.pick(&["~", "0", "1", "2", "31", "32", "33", "64", "100", "1000", "+5", "-1", "-0", "abc", "", " 3", "3 ", "2147483648", "4294967296", "1e2"])
                .to_string(),
        )
    } else {
        None
    };
    CellCase { attrs, text, self_closing, astyle, text_s }
}

fn cell_corpus() -> Vec<&'static str> {
    vec![
        // a LibreOffice-style float cell; the same with the value before the type; currency; percentage
        "o0;y666c6f6174;v312e35;o3|312e35",
        "v312e35;y666c6f6174|!",
        "o1;v33;y63757272656e6379|33",
        // string through text content, through string-value; boolean; date; time
        "y737472696e67|61",
        "s71;y737472696e67|61",
        "y626f6f6c65616e;b74727565|!",
        "y64617465;d323032312d30332d3034|!",
        "y74696d65;t50543148324d3353|!",
        // formula only; nothing at all
        "f6f663a3d5b2e41315d2b31|!",
        "-|!",
        // childless cells in self-closing form: string type without content (seeded C04-m8), float, blank
        "y737472696e67|/",
        "y666c6f6174;v312e35|/",
        "-|/",
        // seeded C04-m9 / m12 at the cell level: single quotes and blanks around `=`; text:s counts 32 / 33 / 1000,
        // absent, 0, negative, signed, unreadable
        "y737472696e67|61|7|x3333",
        "y737472696e67|61|0|x31303030",
        "y737472696e67|61|1|x7e",
        "y737472696e67|61|0|x30",
        "y737472696e67|61|0|x2d31",
        "y737472696e67|61|0|x2b35",
        "y737472696e67|61|0|x616263",
        "v312e35;y666c6f6174;f6f663a3d313c32|!|15|!",
    ]
}

fn run_cell(c: &CellCase, drv: &mut Driver) -> Option<(String, String, String, String, String)> {
    let mut cell = OdsCell::empty();
    cell.raw = Some(c.xml());
    // a sentinel neighbour: the cell under test must not swallow or displace what follows it
    let book = OdsBook::new(vec![OdsSheet::new("Sheet1", vec![RowRun::new(vec![cell, OdsCell::float(77.0)])])]);
    let bytes = book.to_bytes();
    let imp = match guarded(|| {
        let mut ods: Ods<_> = match Ods::new(Cursor::new(bytes)) {
            Ok(o) => o,
            Err(calamine::OdsError::ParseFloat(_)) => return Err("err".to_string()),
            Err(calamine::OdsError::ParseInt(_)) => return Err("err:ParseInt".to_string()),
            Err(e) => return Err(format!("err:{e:?}")),
        };
        let v = ods.worksheet_range("Sheet1").map_err(|e| format!("err:{e:?}"))?;
        let f = ods.worksheet_formula("Sheet1").map_err(|e| format!("err:{e:?}"))?;
        Ok((v, f))
    }) {
        Err(p) => format!("panic:{p}"),
        Ok(Err(e)) => e,
        Ok(Ok((v, f))) => {
            let d = v.get_value((0, 0)).cloned().unwrap_or(Data::Empty);
            let fm = f.get_value((0, 0)).cloned().unwrap_or_default();
            if v.get_value((0, 1)) != Some(&Data::Float(77.0)) || v.end() != Some((0, 1)) {
                format!("neighbour-lost:{:?} end={:?}", v.get_value((0, 1)), v.end())
            } else {
                format!("{} f={}", show_data(&d), hex(fm.as_bytes()))
            }
        }
    };
    // model: the attribute loop; when it says "use the text content" the value is the text:p content
    let reply = drv.ask(&format!("cell {}", c.wire()));
    let model = if let Some(rest) = reply.strip_suffix(" text=1") {
        let (_, f) = rest.split_once(' ').unwrap_or(("", ""));
        match c.content() {
            Ok(t) => format!("S{} {}", hex(t.as_bytes()), f),
            Err(()) => "err:ParseInt".to_string(),
        }
    } else {
        reply.strip_suffix(" text=0").unwrap_or(&reply).to_string()
    };
    let mut expect = c.expected().map(|d| show_data(&d));
    if expect.is_none() && c.content().is_err() && reply.ends_with(" text=1") {
        expect = Some("err:ParseInt".to_string()); // pinned: an unreadable text:c is an error, not a guess
    }
    if let Some(e) = &expect {
        let got = imp.split(' ').next().unwrap_or("");
        if got != e {
            return Some(("impl_vs_spec".into(), "cell.typing".into(), imp, model, e.clone()));
        }
        if model.split(' ').next().unwrap_or("") != e {
            return Some(("model_vs_spec".into(), "cell.typing".into(), imp, model, e.clone()));
        }
    }
    if imp != model {
        return Some(("impl_vs_model".into(), "cell.typing".into(), imp, model, expect.unwrap_or_default()));
    }
    None
}

// ------------------------------------------------------------------------------------------------
// count level: lexing of number-rows-repeated / number-columns-repeated
// ------------------------------------------------------------------------------------------------

const COUNT_PRE: [&str; 9] = ["", "", "", " ", "  ", "\t", "\n", "\u{a0}", "\u{3000}"];
const COUNT_NUM: [&str; 14] = ["1", "2", "3", "7", "12", "100", "0", "16384", "1048576", "2147483647", "2147483648", "18446744073709551615", "18446744073709551616", ""];

/// a spelling of a count (the attribute value after unescaping), mostly inside the lexical space of a positive integer
fn gen_count_text(rng: &mut Rng) -> String {
    let mut t = String::new();
    t.push_str(*rng.pick(&COUNT_PRE));
    t.push_str(*rng.pick(&["", "", "", "+", "+", "-", "++"]));
    t.push_str(*rng.pick(&["", "", "0", "00"]));
    t.push_str(*rng.pick(&COUNT_NUM));
    if rng.chance(1, 8) {
        t.push_str(*rng.pick(&[" 2", "e2", ".0", "x", "\u{ff11}", "\u{200b}", ","]));
    }
    t.push_str(*rng.pick(&COUNT_PRE));
    t
}

/// the count lexed three ways: the Lean model, the std calls the reader makes (`trim().parse::<usize>()`), and the reader
/// itself on a file whose positions depend on the count (axis 0: a blank column run, axis 1: a blank row run)
fn run_count(text: &str, axis: u8, drv: &mut Driver) -> Option<(String, String, String, String, String)> {
    let model = drv.ask(&format!("count {axis} {}", hex(text.as_bytes())));
    // the column count is an i32 in the code (a minus sign is taken and repeats nothing), the row count a usize
    let parsed: Option<i128> = if axis == 0 { text.trim().parse::<i32>().ok().map(|k| k as i128) } else { text.trim().parse::<usize>().ok().map(|k| k as i128) };
    let lexed = parsed.map(|k| k.to_string()).unwrap_or("err".to_string());
    if model != lexed {
        return Some(("model_vs_spec".into(), "count.lexing".into(), String::new(), model, lexed));
    }
    let std_ = parsed.map(|k| k.max(0).to_string()).unwrap_or("err".to_string());
    let model = std_.clone();
    let mut imp = std_.clone();
    // (a row repeat of 0 is outside ODF's positiveInteger and outside the property: the reader then returns one row too
    // many, see claims/C04.json; only its lexing is compared)
    // an unreadable count is only put into a file when it has few digits: a reader that takes it as a number must yield
    // a wrong position, not exhaust memory
    let few_digits = text.chars().filter(|c| c.is_ascii_digit()).count() <= 4;
    let small = std_.parse::<usize>().map(|k| k <= 2000 && !(axis == 1 && k == 0)).unwrap_or(few_digits);
    if small {
        use verif_harness::odsw::escape_attr;
        let mut blank = OdsCell::empty();
        let rows = if axis == 0 {
            blank.raw = Some(format!("<table:table-cell table:number-columns-repeated=\"{}\"/>", escape_attr(text)));
            vec![RowRun::new(vec![OdsCell::float(1.0), blank, OdsCell::float(2.0)])]
        } else {
            vec![RowRun::new(vec![OdsCell::float(1.0)]), RowRun::new(vec![OdsCell::empty()]), RowRun::new(vec![OdsCell::float(2.0)])]
        };
        let mut book = OdsBook::new(vec![OdsSheet::new("Sheet1", rows)]);
        let mut content = book.content_xml();
        if axis == 1 {
            // the middle row gets the count under test
            content = content.replacen(
                "</table:table-row><table:table-row>",
                &format!("</table:table-row><table:table-row table:number-rows-repeated=\"{}\">", escape_attr(text)),
                1,
            );
        }
        book.stored = true;
        let bytes = verif_harness::odsw::zip_parts(&book.manifest_xml(), &content, true);
        imp = match guarded(|| {
            let mut ods: Ods<_> = match Ods::new(Cursor::new(bytes)) {
                Ok(o) => o,
                Err(calamine::OdsError::ParseInt(_)) => return Err("err".to_string()),
                Err(e) => return Err(format!("err:{e:?}")),
            };
            ods.worksheet_range("Sheet1").map_err(|e| format!("err:{e:?}"))
        }) {
            Err(p) => format!("panic:{p}"),
            Ok(Err(e)) => e,
            Ok(Ok(r)) => {
                // where did the second value land?
                match r.end() {
                    Some(e) if axis == 0 && r.get_value(e) == Some(&Data::Float(2.0)) && e.0 == 0 && e.1 >= 1 => (e.1 - 1).to_string(),
                    Some(e) if axis == 1 && r.get_value(e) == Some(&Data::Float(2.0)) && e.1 == 0 && e.0 >= 1 => (e.0 - 1).to_string(),
                    other => format!("?{other:?}"),
                }
            }
        };
    }
    if imp != std_ {
        return Some(("impl_vs_spec".into(), "count.lexing".into(), imp, model, std_));
    }
    if model != std_ {
        return Some(("model_vs_spec".into(), "count.lexing".into(), imp, model, std_));
    }
    None
}

// ------------------------------------------------------------------------------------------------
// work streams (deterministic in the seed, independent of the number of threads)
// ------------------------------------------------------------------------------------------------

enum Work {
    Unit(Flat),
    File(Vec<RowRun>, Deco, Option<TGrid>, bool),
    Cell(CellCase),
    Count(String, u8),
}

struct Done {
    text: String,
    nontrivial: bool,
    counters: Vec<(&'static str, u64)>,
    fail: Option<(String, String, String, String, String, String)>,
}

fn file_counters(rows: &[RowRun], grid: &verif_harness::odsw::Grid, c: &mut Vec<(&'static str, u64)>) {
    c.push(("file.row_elements", rows.len() as u64));
    if rows.iter().any(|r| r.count() > 1 && r.cells.iter().any(|c| !c.is_blank())) {
        c.push(("file.repeated_nonblank_row", 1));
    }
    if rows.iter().any(|r| r.cells.iter().any(|c| c.count() > 1 && !c.is_blank())) {
        c.push(("file.repeated_nonblank_cell", 1));
    }
    if rows.iter().any(|r| r.count() >= 1000) {
        c.push(("file.huge_row_repeat", 1));
    }
    if rows.iter().any(|r| r.cells.iter().any(|c| c.count() >= 1000)) {
        c.push(("file.huge_col_repeat", 1));
    }
    if rows.iter().any(|r| r.cells.iter().any(|c| c.covered)) {
        c.push(("file.covered_cell", 1));
    }
    if rows.iter().any(|r| r.cells.iter().any(|c| c.formula.is_some())) {
        c.push(("file.formula", 1));
    }
    if rows.iter().any(|r| r.cells.iter().any(|c| c.formula.is_some() && c.val.is_empty())) {
        c.push(("file.formula_without_value", 1));
    }
    if rows.iter().any(|r| r.open.contains(&RowWrap::Group)) {
        c.push(("file.row_group", 1));
    }
    if rows.iter().any(|r| r.open.iter().filter(|w| **w == RowWrap::Group).count() > 1)
        || rows.iter().scan(0i64, |d, r| { *d += r.open.len() as i64; let cur = *d; *d -= r.close as i64; Some(cur) }).any(|d| d >= 3)
    {
        c.push(("file.nested_row_containers", 1));
    }
    if rows.iter().any(|r| r.open.contains(&RowWrap::HeaderRows)) {
        c.push(("file.header_rows", 1));
    }
    if rows.iter().any(|r| r.open.contains(&RowWrap::Rows)) {
        c.push(("file.table_rows", 1));
    }
    if rows.iter().any(|r| r.cells.iter().any(|c| c.is_blank() && c.count() > 16384)) {
        c.push(("file.blank_run_gt_16384_cols", 1));
    }
    if rows.iter().any(|r| r.count() > 1_048_576 && r.cells.iter().all(|c| c.is_blank())) {
        c.push(("file.blank_rows_gt_1048576", 1));
    }
    if rows.iter().any(|r| r.cells.iter().any(|c| matches!(&c.val, OdsVal::Str(t) if t.is_empty()) && !c.empty_paragraph)) {
        c.push(("file.childless_string_cell", 1));
    }
    if rows.iter().any(|r| r.cells.is_empty() && r.self_closing) {
        c.push(("file.self_closing_row", 1));
    }
    if rows.iter().any(|r| r.attr_style.quote == 1 || r.cells.iter().any(|c| c.attr_style.quote == 1)) {
        c.push(("file.single_quoted_attributes", 1));
    }
    if rows.iter().any(|r| r.cells.iter().any(|c| c.attr_style.eq != 0 && c.repeat.is_some())) {
        c.push(("file.space_around_eq_on_repeat", 1));
    }
    if rows.iter().any(|r| r.cells.iter().any(|c| c.text_s != 0 && matches!(&c.val, OdsVal::Str(t) if t.contains(&" ".repeat(33))))) {
        c.push(("file.text_s_run_gt_32", 1));
    }
    if rows.iter().any(|r| r.twins != 0 || r.cells.iter().any(|c| c.twins != 0)) {
        c.push(("file.foreign_namespace_twins", 1));
    }
    if rows.iter().any(|r| r.cells.iter().any(|c| c.nested != 0)) {
        c.push(("file.nested_table_in_cell", 1));
    }
    if rows.iter().any(|r| r.repeat_spelling != 0 || r.cells.iter().any(|c| c.repeat_spelling != 0)) {
        c.push(("file.count_spelling", 1));
    }
    if rows.iter().any(|r| r.attr_style.sep >= 2 || r.cells.iter().any(|c| c.attr_style.sep >= 2)) {
        c.push(("file.space_in_end_tag", 1));
    }
    if rows.iter().any(|r| r.visibility.is_some()) {
        c.push(("file.row_visibility", 1));
    }
    if rows.iter().any(|r| r.cells.iter().any(|c| c.span.is_some())) {
        c.push(("file.spanned_cell", 1));
    }
    if rows.iter().any(|r| r.cells.iter().any(|c| c.annotation.is_some())) {
        c.push(("file.annotation", 1));
    }
    let used_rows: Vec<u64> = grid.iter().filter(|(_, v)| v.0 != Data::Empty).map(|(k, _)| k.0).collect();
    if let (Some(a), Some(b)) = (used_rows.first(), used_rows.last()) {
        let interior = (b - a) < 5000 && (*a..*b).any(|r| !used_rows.contains(&r));
        let cmin = grid.iter().filter(|(_, v)| v.0 != Data::Empty).map(|(k, _)| k.1).min().unwrap();
        if interior && cmin > 0 {
            c.push(("file.interior_blank_row_and_first_col_gt_A", 1));
        }
        if *a > 0 {
            c.push(("file.first_row_gt_1", 1));
        }
        if cmin > 0 {
            c.push(("file.first_col_gt_A", 1));
        }
    } else {
        c.push(("file.empty_sheet", 1));
    }
}

fn process(w: &Work, drv: &mut Driver, shrink_budget: &mut u32) -> Done {
    match w {
        Work::Unit(f) => {
            let text = format!("U {}", f.wire());
            let mut tmp = Report::new("C04", "");
            let res = check_unit(f, drv, Some(&mut tmp));
            let counters: Vec<(&'static str, u64)> = UNIT_KEYS.iter().filter_map(|k| tmp.counters.get(*k).map(|v| (*k, *v))).collect();
            let mut fail = None;
            if let Some((kind, sig, i, m, e)) = res {
                fail = Some((kind.clone(), sig, text.clone(), i, m, e));
                if *shrink_budget > 0 && kind != "impl_vs_model" {
                    *shrink_budget -= 1;
                    let small = shrink_unit(f, &kind, drv);
                    if let Some((k2, s2, i2, m2, e2)) = check_unit(&small, drv, None) {
                        fail = Some((k2, s2, format!("U {}", small.wire()), i2, m2, e2));
                    }
                }
            }
            Done { text, nontrivial: f.rows().is_some(), counters, fail }
        }
        Work::Count(t, axis) => {
            let text = format!("K {} {}", axis, hex(t.as_bytes()));
            let ok = if *axis == 0 { t.trim().parse::<i32>().is_ok() } else { t.trim().parse::<usize>().is_ok() };
            let counters = vec![(if ok { "count.valid" } else { "count.invalid" }, 1)];
            let fail = run_count(t, *axis, drv).map(|(k, sig, i, m, e)| (k, sig, text.clone(), i, m, e));
            Done { text, nontrivial: ok, counters, fail }
        }
        Work::Cell(c) => {
            let text = format!("C {}", c.text_form());
            let wf = c.expected().is_some();
            let counters = vec![(if wf { "cell.wellformed" } else { "cell.other" }, 1)];
            let fail = run_cell(c, drv).map(|(k, sig, i, m, e)| (k, sig, text.clone(), i, m, e));
            Done { text, nontrivial: wf, counters, fail }
        }
        Work::File(rows, deco, src, stored) => {
            let deco = *deco;
            let text = format!("F {}", sheet_text(rows, deco));
            if std::env::var("C04_TRACE").is_ok() {
                eprintln!("TRACE {}", &text[..text.len().min(3000)]);
            }
            let sheet = OdsSheet::new("Sheet1", rows.clone());
            let grid = sheet.grid();
            let nontrivial = grid.values().any(|v| v.0 != Data::Empty);
            // encoder sanity: the expansion of the encoding is the grid it was made from
            if let Some(g) = src {
                let same = g.len() == grid.len()
                    && g.iter().all(|(k, v)| {
                        grid.get(k).map(|x| x.0 == v.0.expected() && x.1 == v.1.clone().unwrap_or_default()).unwrap_or(false)
                    });
                if !same {
                    let fail = Some((
                        "model_vs_spec".to_string(),
                        "file.encoder".to_string(),
                        text.clone(),
                        String::new(),
                        String::new(),
                        "expansion of the encoding differs from the source grid".to_string(),
                    ));
                    return Done { text, nontrivial, counters: vec![], fail };
                }
            }
            let mut counters = vec![];
            file_counters(rows, &grid, &mut counters);
            let o = run_file(rows, deco, drv, *stored);
            let mut fail = None;
            if let Some((kind, sig)) = judge_file(&o) {
                fail = Some((kind.clone(), sig, text.clone(), format!("{} {}", show_out(&o.imp), o.typed.clone().unwrap_or_default()), show_out(&o.model), show_out(&o.expect)));
                if *shrink_budget > 0 {
                    *shrink_budget -= 1;
                    let (small, sdeco) = shrink_file(rows, deco, &kind, drv);
                    let o2 = run_file(&small, sdeco, drv, false);
                    if let Some((k2, s2)) = judge_file(&o2) {
                        fail = Some((k2, s2, format!("F {}", sheet_text(&small, sdeco)), format!("{} {}", show_out(&o2.imp), o2.typed.clone().unwrap_or_default()), show_out(&o2.model), show_out(&o2.expect)));
                    }
                }
            } else if o.imp != o.model {
                fail = Some(("impl_vs_model".into(), "file.range".into(), text.clone(), show_out(&o.imp), show_out(&o.model), show_out(&o.expect)));
            }
            Done { text, nontrivial, counters, fail }
        }
    }
}

const UNIT_KEYS: [&str; 10] = [
    "unit.wellformed",
    "unit.illformed",
    "unit.impl_panic",
    "unit.all_empty",
    "unit.interior_empty_row",
    "unit.first_col_gt_A",
    "unit.interior_empty_row_and_first_col_gt_A",
    "unit.repeated_nonempty_row",
    "unit.leading_empty_rows",
    "unit.unused",
];

const STREAMS: u64 = 32;

fn main() {
    let args = Args::parse();
    let mut rep = Report::new(
        "C04",
        "unit: random flat (cells, cols, rows_repeats) — 0..6 rows of 0..5 cells (+ leading blank runs up to 300), values 0..3, \
         row repeats {0,1,2,3,5} and huge leading repeats up to 2^33, 8 % single structural faults — through the get_range hook vs \
         the Lean model vs (well-formed inputs with repeats >= 1 and u32 coordinates only) the expansion oracle. file: random sparse typed \
         grids (first used row in {0..1048000}, first used column in {0..16300}, <= 9x8 dense block + optional far cell, or 2-3 cells \
         spanning a box <= 2^21 cells; float/percentage/currency/string/string-value/boolean/date/time cells, 25 % of them with a \
         formula, some formulas without a value) each written as 4 ods files under independent random run-length groupings (explicit \
         copies vs repeated cells/rows in any split, blank runs as cells, covered cells or cell-less rows, trailing blank runs up to \
         column 16384 / row 1048576; two thirds of the encodings additionally decorated with legal ODF that holds no cells: rows inside \
         nested table:table-row-group / table:table-header-rows / table:table-rows, row visibility / style / soft page breaks, cell \
         spans, office:annotation children, foreign attributes, column declarations in every wrapper shape, table:table-source, \
         office:forms, table:shapes with a text box, sheet-local named expressions and calcext:conditional-formats after the rows, \
         decoy sheets before and after; childless cells / rows / tables in both the self-closing and the open-close form, incl. \
         empty string cells without paragraph; 8 % of the grids sit right behind column 16384 / row 1048576 / 65536 / 2^21 / 2^24 so \
         that single blank runs longer than those limits precede a value; on a quarter of the small files the same reader is \
         also sent through Row(a) / FirstNonEmptyRow / Row(b) and must agree with fresh reads; attributes of cells, rows and \
         tables spelled with single or double quotes, white space around `=` and between attributes, in permuted order; blanks of \
         string cells written as text:s elements with counts up to 1000; sheets without any stored cell in front of the sheet \
         under test, every sheet of the file checked; foreign-namespace twins (x:value-type, x:number-columns-repeated, x:value, \
         x:formula … with other values) before and/or after the real attributes of cells, rows and tables; tables nested in value \
         and blank cells (sub-table, table in a draw:frame); repeat counts of cells and rows spelled +k, 00k, with a decimal or hexadecimal character reference, or with a blank \
         before / after the digits; end tags of tables, rows, cells and paragraphs with white space before `>`; the extra sheets \
         named so that document order differs from name order, every sheet read by index (worksheet_range_at), by name and \
         through worksheets()), read with Ods::worksheet_range and worksheet_formula and compared with the bounding-box oracle \
         of the grid, the Lean model getRange(collectV/collectF runs) and the Lean spec bbox/expand. cell: one table-cell element whose \
         attributes (value-type, 0..2 value attributes, formula, foreign attributes incl. calcext:value-type) stand in random order, \
         70 % well-formed (one value-type with its matching value attribute or text content), attributes spelled with either quote and any white space around `=`, string content with a `text:s` whose \
         text:c is around 32/33/64/100/1000, absent, 0, signed, negative or unreadable, read through the public API vs the \
         Lean model of get_datatype's attribute loop vs the typing the property states. count: attribute values around the lexical space of a positive integer (Unicode \
         white space, signs, leading zeros, 0, 2^64-1, 2^64, garbage) lexed by the Lean model parseCount, by the std calls the reader \
         makes, and by the reader itself on a file whose positions depend on the count (both axes). non-trivial = a well-formed \
         unit input / a grid with at least one non-empty value / a well-formed cell / a valid count; distinct by input text",
    );
    if let Some(inp) = &args.replay {
        let mut drv = Driver::spawn(&args.driver);
        let (kind, body) = inp.split_once(' ').expect("replay input");
        let w = if kind == "U" {
            let p: Vec<&str> = body.split(' ').collect();
            Work::Unit(Flat { cells: parse_list(p[0]), cols: parse_list(p[1]), reps: parse_list(p[2]) })
        } else if kind == "C" {
            Work::Cell(CellCase::parse(body))
        } else if kind == "K" {
            let (axis, h) = body.split_once(' ').expect("count case");
            Work::Count(String::from_utf8(unhex(h)).unwrap(), axis.parse().unwrap())
        } else {
            let (rows, deco) = parse_sheet(body);
            Work::File(rows, deco, None, false)
        };
        let mut budget = 0;
        let d = process(&w, &mut drv, &mut budget);
        rep.case(&d.text, true);
        if let Some((k, sig, input, i, m, e)) = d.fail {
            rep.fail(&k, &sig, &input, &i, &m, &e);
        }
        rep.write(&args.out);
        return;
    }

    let n_unit = args.count(50_000, 5_000_000);
    let n_grid = if args.n.is_some() { n_unit / 25 } else { args.count(2_000, 200_000) };
    let n_cell = n_grid * 2;
    let threads = std::env::var("VERIF_THREADS").ok().and_then(|s| s.parse().ok()).unwrap_or(if args.thorough() { 12 } else { 4usize });
    let mut root = Rng::new(args.seed);
    // stream 0 = the corpus; streams 1..=STREAMS = generated work, each with its own generator state
    let seeds: Vec<(Rng, Rng)> = (0..STREAMS).map(|_| (root.fork(), root.fork())).collect();
    let next = std::sync::atomic::AtomicU64::new(0);
    let (tx, rx) = std::sync::mpsc::sync_channel::<Done>(4096);
    let mut requests = 0u64;
    std::thread::scope(|sc| {
        let mut handles = vec![];
        for _ in 0..threads {
            let tx = tx.clone();
            let seeds = &seeds;
            let next = &next;
            let driver = args.driver.clone();
            handles.push(sc.spawn(move || {
                let mut drv = Driver::spawn(&driver);
                loop {
                    let s = next.fetch_add(1, std::sync::atomic::Ordering::SeqCst);
                    if s > STREAMS {
                        break;
                    }
                    let mut budget = 2u32;
                    // Files whose DECLARED extent (blank runs included) is huge are run last in their stream, and only if
                    // the stream has not already shown the implementation faulty on the small files: a reader that
                    // materialises blank runs is then reported with a small replay instead of exhausting memory.
                    let mut deferred: Vec<Work> = vec![];
                    let mut stream_failed = false;
                    let mut run = |w: Work, drv: &mut Driver, budget: &mut u32, deferred: &mut Vec<Work>, stream_failed: &mut bool| {
                        if let Work::File(rows, ..) = &w {
                            if declared_extent(rows) > (1 << 22) {
                                deferred.push(w);
                                return;
                            }
                        }
                        let d = process(&w, drv, budget);
                        if let Some(f) = &d.fail {
                            if f.0 == "impl_vs_spec" {
                                *stream_failed = true;
                            }
                        }
                        tx.send(d).unwrap();
                    };
                    if s == 0 {
                        for c in unit_corpus() {
                            let p: Vec<&str> = c.split(' ').collect();
                            let w = Work::Unit(Flat { cells: parse_list(p[0]), cols: parse_list(p[1]), reps: parse_list(p[2]) });
                            run(w, &mut drv, &mut budget, &mut deferred, &mut stream_failed);
                        }
                        for c in file_corpus() {
                            let (rows, deco) = parse_sheet(c);
                            let w = Work::File(rows, deco, None, false);
                            run(w, &mut drv, &mut budget, &mut deferred, &mut stream_failed);
                        }
                        for (t, axis) in [("3", 0u8), (" 3", 0), ("3 ", 1), ("+3", 0), ("003", 1), ("\t+007\n", 0), ("0", 1), ("", 0), ("+", 1), ("-1", 0), ("1 2", 1), ("1e2", 0), ("\u{a0}5\u{3000}", 1), ("18446744073709551616", 0)] {
                            let w = Work::Count(t.to_string(), axis);
                            run(w, &mut drv, &mut budget, &mut deferred, &mut stream_failed);
                        }
                        for c in cell_corpus() {
                            let w = Work::Cell(CellCase::parse(c));
                            run(w, &mut drv, &mut budget, &mut deferred, &mut stream_failed);
                        }
                        drop(run);
                        for w in deferred {
                            if !stream_failed {
                                tx.send(process(&w, &mut drv, &mut budget)).unwrap();
                            }
                        }
                        continue;
                    }
                    let (mut urng, mut frng) = seeds[(s - 1) as usize].clone();
                    let share = |n: u64| n / STREAMS + if s - 1 < n % STREAMS { 1 } else { 0 };
                    for _ in 0..share(n_unit) {
                        let w = Work::Unit(gen_flat(&mut urng));
                        run(w, &mut drv, &mut budget, &mut deferred, &mut stream_failed);
                    }
                    for _ in 0..share(n_cell / 2) {
                        let w = Work::Count(gen_count_text(&mut frng), frng.below(2) as u8);
                        run(w, &mut drv, &mut budget, &mut deferred, &mut stream_failed);
                    }
                    for _ in 0..share(n_cell) {
                        let w = Work::Cell(gen_cell(&mut frng));
                        run(w, &mut drv, &mut budget, &mut deferred, &mut stream_failed);
                    }
                    for _ in 0..share(n_grid) {
                        let g = gen_grid(&mut frng);
                        for _ in 0..4 {
                            let mut rows = encode(&g, &mut frng);
                            let deco = wrap_rows(&mut rows, &mut frng);
                            let stored = frng.chance(1, 4);
                            let w = Work::File(rows, deco, Some(g.clone()), stored);
                            run(w, &mut drv, &mut budget, &mut deferred, &mut stream_failed);
                        }
                    }
                    drop(run);
                    if stream_failed {
                        tx.send(Done { text: format!("skipped {} huge-extent files of stream {s} after a failure", deferred.len()), nontrivial: false, counters: vec![("file.skipped_huge_after_failure", deferred.len() as u64)], fail: None }).unwrap();
                    } else {
                        for w in deferred {
                            tx.send(process(&w, &mut drv, &mut budget)).unwrap();
                        }
                    }
                }
                drv.requests
            }));
        }
        drop(tx);
        for d in rx {
            rep.case(&d.text, d.nontrivial);
            for (k, v) in d.counters {
                rep.add(k, v);
            }
            if let Some((k, sig, input, i, m, e)) = d.fail {
                rep.fail(&k, &sig, &input, &i, &m, &e);
            }
        }
        for h in handles {
            requests += h.join().unwrap();
        }
    });
    rep.add("driver_requests", requests);
    rep.add("threads", threads as u64);
    rep.notes.push("C04: quick-xml (XML tokenisation), zip and f64::from_str are exercised, not modelled; cell typing (get_datatype) is validated by the file-level oracle only, the Lean model covers read_row's run logic and get_range".into());
    rep.write(&args.out);
}
