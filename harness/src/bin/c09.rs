//! C09 — serde deserialization maps rows to records faithfully.
//! Every case (a range, a header configuration, a record shape, a number of `next` calls, a schedule of
//! cell targets) is run three ways:
//!   impl   : the real `RangeDeserializer` through the public API, observed by a hand-written recording
//!            `Deserialize` impl (a `Visitor` whose `visit_seq`/`visit_map` record what they are given,
//!            cells through a recording cell visitor), `size_hint` before and after each `next`;
//!   model  : the Lean model (`drv_c09`, the definitions the theorems of Props/C09 are about);
//!   oracle : the property as stated, computed here from the case description alone.
//! Additionally every range is round-tripped through serde's own visitors (`Vec<Data>`,
//! `HashMap<String, Data>`, tuples, a derived struct with `Option` fields) against an independent
//! expectation (family `derive`), and the cell conversion table is swept (family `convert`).
use calamine::{CellErrorType, Data, DataType, DeError, RangeDeserializer, ExcelDateTime, ExcelDateTimeType, Range, RangeDeserializerBuilder, ToCellDeserializer};
use serde::de::{DeserializeSeed, Deserializer, EnumAccess, MapAccess, SeqAccess, Visitor};
use serde::Deserialize;
use std::cell::RefCell;
use std::collections::{BTreeMap, HashMap};
use std::fmt;
use verif_harness::{driver::Driver, guarded, hex, report::Report, rng::Rng, unhex, Args};

// ------------------------------------------------------------------------------------------------
// case description
// ------------------------------------------------------------------------------------------------

#[derive(Clone, Debug, PartialEq)]
enum Cfg {
    None,
    All,
    Custom(Vec<String>),
    /// `with_deserialize_headers::<RecRow>()`: `Some(i)` = the record type asks for a struct with the fields
    /// `FIELD_SETS[i]`, `None` = it asks for something else (no field list)
    Wdh(Option<usize>),
}

/// the field lists the recording record type can present to `deserialize_struct`
const FIELD_SETS: [&[&str]; 4] = [&["a", "b"], &["id", "name", "flag", "score", "note"], &["b", "a", "id"], &[]];

impl Cfg {
    /// the configuration a `with_deserialize_headers` builder must be equivalent to (the property as stated)
    fn normalized(&self) -> Cfg {
        match self {
            Cfg::Wdh(Some(i)) => Cfg::Custom(FIELD_SETS[*i].iter().map(|s| s.to_string()).collect()),
            Cfg::Wdh(None) => Cfg::Custom(vec![]),
            c => c.clone(),
        }
    }
}

/// one consumption step, performed on `&mut it` (adaptors through `by_ref()`)
#[derive(Clone, Debug, PartialEq)]
enum Op {
    Next,
    Nth(usize),
    /// `it.by_ref().skip(k).next()`
    Skip(usize),
    /// `it.by_ref().step_by(k).take(m)`, every item
    StepBy(usize, usize),
    /// `it.by_ref().take(m)`, every item
    Take(usize),
    Last,
    Count,
    /// nothing: `size_hint` once more
    Hint,
}

impl Op {
    fn wire(&self) -> String {
        match self {
            Op::Next => "x".into(),
            Op::Nth(n) => format!("n{n}"),
            Op::Skip(k) => format!("s{k}"),
            Op::StepBy(k, m) => format!("t{k}:{m}"),
            Op::Take(m) => format!("k{m}"),
            Op::Last => "l".into(),
            Op::Count => "c".into(),
            Op::Hint => "h".into(),
        }
    }
    fn parse(w: &str) -> Op {
        let num = |s: &str| s.parse::<usize>().expect("op argument");
        match &w[..1] {
            "x" => Op::Next,
            "l" => Op::Last,
            "c" => Op::Count,
            "h" => Op::Hint,
            "n" => Op::Nth(num(&w[1..])),
            "s" => Op::Skip(num(&w[1..])),
            "k" => Op::Take(num(&w[1..])),
            "t" => {
                let (a, b) = w[1..].split_once(':').expect("step_by op");
                Op::StepBy(num(a), num(b))
            }
            x => panic!("bad op {x}"),
        }
    }
}

fn ops_wire(ops: &[Op]) -> String {
    if ops.iter().all(|o| *o == Op::Next) {
        ops.len().to_string() // `n` calls to next (the form older replays use)
    } else {
        ops.iter().map(|o| o.wire()).collect::<Vec<_>>().join(",")
    }
}

fn ops_parse(w: &str) -> Vec<Op> {
    match w.parse::<usize>() {
        Ok(n) => vec![Op::Next; n],
        Err(_) => w.split(',').map(Op::parse).collect(),
    }
}

#[derive(Clone, Debug)]
struct Case {
    /// `None` = `Range::empty()`; else (start row, start col, height ≥ 1, width ≥ 1)
    dims: Option<(u32, u32, usize, usize)>,
    cells: Vec<Data>,
    cfg: Cfg,
    map: bool,
    ops: Vec<Op>,
    /// `has_headers(b)` calls made on the builder after its constructor (the last one decides)
    calls: Vec<bool>,
    sched: Vec<String>,
}

const KINDS: [CellErrorType; 8] = [
    CellErrorType::Div0,
    CellErrorType::NA,
    CellErrorType::Name,
    CellErrorType::Null,
    CellErrorType::Num,
    CellErrorType::Ref,
    CellErrorType::Value,
    CellErrorType::GettingData,
];

fn kind_index(e: &CellErrorType) -> usize {
    match e {
        CellErrorType::Div0 => 0,
        CellErrorType::NA => 1,
        CellErrorType::Name => 2,
        CellErrorType::Null => 3,
        CellErrorType::Num => 4,
        CellErrorType::Ref => 5,
        CellErrorType::Value => 6,
        CellErrorType::GettingData => 7,
    }
}

fn cell_wire(d: &Data) -> String {
    match d {
        Data::Int(v) => format!("I:{v}"),
        Data::Float(v) => format!("F:{:016x}", v.to_bits()),
        Data::String(s) => format!("S:{}", hex(s.as_bytes())),
        Data::Bool(b) => format!("B:{}", *b as u8),
        Data::DateTime(v) => format!("D:{:016x}", v.as_f64().to_bits()),
        Data::DateTimeIso(s) => format!("DI:{}", hex(s.as_bytes())),
        Data::DurationIso(s) => format!("DU:{}", hex(s.as_bytes())),
        Data::Error(e) => format!("E:{}", kind_index(e)),
        Data::Empty => "_".into(),
    }
}

fn ustr(h: &str) -> String {
    String::from_utf8(unhex(h)).expect("utf8")
}

fn cell_parse(w: &str) -> Data {
    if w == "_" {
        return Data::Empty;
    }
    let (k, v) = w.split_once(':').expect("cell");
    match k {
        "I" => Data::Int(v.parse().unwrap()),
        "F" => Data::Float(f64::from_bits(u64::from_str_radix(v, 16).unwrap())),
        "S" => Data::String(ustr(v)),
        "B" => Data::Bool(v == "1"),
        "D" => Data::DateTime(ExcelDateTime::new(f64::from_bits(u64::from_str_radix(v, 16).unwrap()), ExcelDateTimeType::DateTime, false)),
        "DI" => Data::DateTimeIso(ustr(v)),
        "DU" => Data::DurationIso(ustr(v)),
        "E" => Data::Error(KINDS[v.parse::<usize>().unwrap()].clone()),
        x => panic!("bad cell kind {x}"),
    }
}

impl Case {
    /// the configuration the builder must end up with (the property as stated: the last header-mode call wins)
    fn eff_cfg(&self) -> Cfg {
        match self.calls.last() {
            Some(true) => Cfg::All,
            Some(false) => Cfg::None,
            None => self.cfg.normalized(),
        }
    }
    /// the driver request without the `std` table (this is also the replay text)
    fn wire(&self) -> String {
        let rg = match self.dims {
            None => "E".to_string(),
            Some((sr, sc, h, w)) => format!("{sr},{sc},{h},{w}/{}", self.cells.iter().map(cell_wire).collect::<Vec<_>>().join(",")),
        };
        let cfg = match &self.cfg {
            Cfg::None => "N".to_string(),
            Cfg::All => "A".to_string(),
            Cfg::Custom(names) => {
                let mut s = String::from("C");
                for n in names {
                    s.push('/');
                    s.push_str(&hex(n.as_bytes()));
                }
                s
            }
            Cfg::Wdh(None) => "W-".to_string(),
            Cfg::Wdh(Some(i)) => {
                let mut s = String::from("W");
                for n in FIELD_SETS[*i] {
                    s.push('/');
                    s.push_str(&hex(n.as_bytes()));
                }
                s
            }
        };
        let cfg = format!("{cfg}{}", self.calls.iter().map(|c| if *c { "+h1" } else { "+h0" }).collect::<String>());
        format!("de {rg} {cfg} {} {} {}", if self.map { "map" } else { "seq" }, ops_wire(&self.ops), self.sched.join(","))
    }
    fn parse(s: &str) -> Case {
        let p: Vec<&str> = s.split_whitespace().collect();
        assert!(p.len() >= 6 && p[0] == "de", "bad case text");
        let (dims, cells) = if p[1] == "E" {
            (None, vec![])
        } else {
            let (hd, cs) = p[1].split_once('/').unwrap();
            let d: Vec<u64> = hd.split(',').map(|x| x.parse().unwrap()).collect();
            (Some((d[0] as u32, d[1] as u32, d[2] as usize, d[3] as usize)), cs.split(',').map(cell_parse).collect())
        };
        let mut cfg_parts = p[2].split('+');
        let cfg_base = cfg_parts.next().unwrap();
        let calls: Vec<bool> = cfg_parts.map(|c| c == "h1").collect();
        let cfg = match cfg_base {
            "N" => Cfg::None,
            "A" => Cfg::All,
            "W-" => Cfg::Wdh(None),
            c if c.starts_with('W') => {
                let names: Vec<String> = c.split('/').skip(1).map(ustr).collect();
                Cfg::Wdh(Some(FIELD_SETS.iter().position(|f| f.iter().map(|x| x.to_string()).collect::<Vec<_>>() == names).expect("field set")))
            }
            c => Cfg::Custom(c.split('/').skip(1).map(ustr).collect()),
        };
        Case { dims, cells, cfg, calls, map: p[3] == "map", ops: ops_parse(p[4]), sched: p[5].split(',').map(|x| x.to_string()).collect() }
    }
    fn h(&self) -> usize {
        self.dims.map_or(0, |d| d.2)
    }
    fn w(&self) -> usize {
        self.dims.map_or(0, |d| d.3)
    }
    fn row(&self, j: usize) -> &[Data] {
        let w = self.w();
        &self.cells[j * w..(j + 1) * w]
    }
    fn range(&self) -> Range<Data> {
        match self.dims {
            None => Range::empty(),
            Some((sr, sc, h, w)) => {
                let mut r = Range::new((sr, sc), (sr + (h as u32 - 1), sc + (w as u32 - 1)));
                for i in 0..h {
                    for j in 0..w {
                        let d = &self.cells[i * w + j];
                        if *d != Data::Empty {
                            r.set_value((sr + i as u32, sc + j as u32), d.clone());
                        }
                    }
                }
                r
            }
        }
    }
    /// the trusted-`std` table the model needs: `f64::to_string`, `parse::<f64>`, `parse::<f32>`
    fn std_table(&self) -> String {
        std_table(&self.cells)
    }
}

fn std_table(cells: &[Data]) -> String {
    let mut ents: Vec<String> = vec![];
    for d in cells {
        match d {
            Data::Float(v) => ents.push(format!("f{:016x}={}", v.to_bits(), hex(v.to_string().as_bytes()))),
            Data::DateTime(v) => ents.push(format!("f{:016x}={}", v.as_f64().to_bits(), hex(v.as_f64().to_string().as_bytes()))),
            Data::String(s) => {
                let p = s.parse::<f64>().map(|v| format!("{:016x}", v.to_bits())).unwrap_or("x".into());
                let q = s.parse::<f32>().map(|v| format!("{:08x}", v.to_bits())).unwrap_or("x".into());
                ents.push(format!("p{}={p}", hex(s.as_bytes())));
                ents.push(format!("q{}={q}", hex(s.as_bytes())));
            }
            _ => {}
        }
    }
    ents.sort();
    ents.dedup();
    if ents.is_empty() {
        "-".into()
    } else {
        ents.join(";")
    }
}

// ------------------------------------------------------------------------------------------------
// recording visitors (implementation side)
// ------------------------------------------------------------------------------------------------

thread_local! {
    static SCHED: RefCell<Vec<String>> = const { RefCell::new(vec![]) };
    static ROW_METHOD: RefCell<u8> = const { RefCell::new(0) };
    static LOG: RefCell<Vec<String>> = const { RefCell::new(vec![]) };
    static HEAD: RefCell<String> = const { RefCell::new(String::new()) };
    static FIELDS_IDX: RefCell<usize> = const { RefCell::new(0) };
}

const TARGETS: [&str; 29] = [
    "any", "bool", "i8", "i16", "i32", "i64", "u8", "u16", "u32", "u64", "f32", "f64", "char", "str", "string", "bytes",
    "byte_buf", "option", "unit", "unit_struct", "newtype_struct", "seq", "tuple", "tuple_struct", "map", "struct", "enum",
    "identifier", "ignored_any",
];

struct CellVisitor;

fn f32_canon(v: f32) -> String {
    if v.is_nan() {
        "f32:nan".into()
    } else {
        format!("f32:{:08x}", v.to_bits())
    }
}

impl<'de> Visitor<'de> for CellVisitor {
    type Value = String;
    fn expecting(&self, f: &mut fmt::Formatter<'_>) -> fmt::Result {
        f.write_str("anything (recording visitor)")
    }
    fn visit_bool<E>(self, v: bool) -> Result<String, E> {
        Ok(format!("b:{}", v as u8))
    }
    fn visit_i8<E>(self, v: i8) -> Result<String, E> {
        Ok(format!("i8:{v}"))
    }
    fn visit_i16<E>(self, v: i16) -> Result<String, E> {
        Ok(format!("i16:{v}"))
    }
    fn visit_i32<E>(self, v: i32) -> Result<String, E> {
        Ok(format!("i32:{v}"))
    }
    fn visit_i64<E>(self, v: i64) -> Result<String, E> {
        Ok(format!("i64:{v}"))
    }
    fn visit_u8<E>(self, v: u8) -> Result<String, E> {
        Ok(format!("u8:{v}"))
    }
    fn visit_u16<E>(self, v: u16) -> Result<String, E> {
        Ok(format!("u16:{v}"))
    }
    fn visit_u32<E>(self, v: u32) -> Result<String, E> {
        Ok(format!("u32:{v}"))
    }
    fn visit_u64<E>(self, v: u64) -> Result<String, E> {
        Ok(format!("u64:{v}"))
    }
    fn visit_f32<E>(self, v: f32) -> Result<String, E> {
        Ok(f32_canon(v))
    }
    fn visit_f64<E>(self, v: f64) -> Result<String, E> {
        Ok(format!("f64:{:016x}", v.to_bits()))
    }
    fn visit_char<E>(self, v: char) -> Result<String, E> {
        Ok(format!("c:{}", v as u32))
    }
    fn visit_str<E>(self, v: &str) -> Result<String, E> {
        Ok(format!("s:{}", hex(v.as_bytes())))
    }
    fn visit_bytes<E>(self, v: &[u8]) -> Result<String, E> {
        Ok(format!("y:{}", hex(v)))
    }
    fn visit_none<E>(self) -> Result<String, E> {
        Ok("none".into())
    }
    fn visit_some<D: Deserializer<'de>>(self, d: D) -> Result<String, D::Error> {
        Ok(format!("some+{}", d.deserialize_any(CellVisitor)?))
    }
    fn visit_unit<E>(self) -> Result<String, E> {
        Ok("unit".into())
    }
    fn visit_newtype_struct<D: Deserializer<'de>>(self, d: D) -> Result<String, D::Error> {
        Ok(format!("nt+{}", d.deserialize_any(CellVisitor)?))
    }
    fn visit_seq<A: SeqAccess<'de>>(self, _a: A) -> Result<String, A::Error> {
        Ok("SEQ?".into())
    }
    fn visit_map<A: MapAccess<'de>>(self, _a: A) -> Result<String, A::Error> {
        Ok("MAP?".into())
    }
    fn visit_enum<A: EnumAccess<'de>>(self, a: A) -> Result<String, A::Error> {
        let (name, _variant): (String, _) = a.variant()?;
        Ok(format!("en:{}", hex(name.as_bytes())))
    }
}

fn call_target<'de, D: Deserializer<'de>>(d: D, t: &str) -> Result<String, D::Error> {
    let v = CellVisitor;
    match t {
        "any" => d.deserialize_any(v),
        "bool" => d.deserialize_bool(v),
        "i8" => d.deserialize_i8(v),
        "i16" => d.deserialize_i16(v),
        "i32" => d.deserialize_i32(v),
        "i64" => d.deserialize_i64(v),
        "u8" => d.deserialize_u8(v),
        "u16" => d.deserialize_u16(v),
        "u32" => d.deserialize_u32(v),
        "u64" => d.deserialize_u64(v),
        "f32" => d.deserialize_f32(v),
        "f64" => d.deserialize_f64(v),
        "char" => d.deserialize_char(v),
        "str" => d.deserialize_str(v),
        "string" => d.deserialize_string(v),
        "bytes" => d.deserialize_bytes(v),
        "byte_buf" => d.deserialize_byte_buf(v),
        "option" => d.deserialize_option(v),
        "unit" => d.deserialize_unit(v),
        "unit_struct" => d.deserialize_unit_struct("U", v),
        "newtype_struct" => d.deserialize_newtype_struct("N", v),
        "seq" => d.deserialize_seq(v),
        "tuple" => d.deserialize_tuple(2, v),
        "tuple_struct" => d.deserialize_tuple_struct("T", 2, v),
        "map" => d.deserialize_map(v),
        "struct" => d.deserialize_struct("S", &["a"], v),
        "enum" => d.deserialize_enum("E", &["A"], v),
        "identifier" => d.deserialize_identifier(v),
        "ignored_any" => d.deserialize_ignored_any(v),
        x => panic!("unknown target {x}"),
    }
}

/// seed for the `i`-th cell of a row: asks for the scheduled target, records the visit
struct CellSeed(usize);

impl<'de> DeserializeSeed<'de> for CellSeed {
    type Value = String;
    fn deserialize<D: Deserializer<'de>>(self, d: D) -> Result<String, D::Error> {
        let t = SCHED.with(|s| {
            let s = s.borrow();
            if s.is_empty() {
                "any".to_string()
            } else {
                s[self.0 % s.len()].clone()
            }
        });
        call_target(d, &t)
    }
}

/// the record type: records the access object it is given
struct RecRow;

struct RowVisitor;

impl<'de> Visitor<'de> for RowVisitor {
    type Value = RecRow;
    fn expecting(&self, f: &mut fmt::Formatter<'_>) -> fmt::Result {
        f.write_str("a row (recording visitor)")
    }
    fn visit_seq<A: SeqAccess<'de>>(self, mut a: A) -> Result<RecRow, A::Error> {
        let hint = a.size_hint().map(|n| n.to_string()).unwrap_or("-".into());
        HEAD.with(|h| *h.borrow_mut() = format!("seq[{hint}]:"));
        let mut i = 0;
        while let Some(v) = a.next_element_seed(CellSeed(i))? {
            LOG.with(|l| l.borrow_mut().push(v));
            i += 1;
        }
        Ok(RecRow)
    }
    fn visit_map<A: MapAccess<'de>>(self, mut a: A) -> Result<RecRow, A::Error> {
        HEAD.with(|h| *h.borrow_mut() = "map:".to_string());
        let mut i = 0;
        while let Some(k) = a.next_key::<String>()? {
            LOG.with(|l| l.borrow_mut().push(format!("{}=", hex(k.as_bytes()))));
            let v = a.next_value_seed(CellSeed(i))?;
            LOG.with(|l| l.borrow_mut().last_mut().unwrap().push_str(&v));
            i += 1;
        }
        Ok(RecRow)
    }
}

impl<'de> Deserialize<'de> for RecRow {
    fn deserialize<D: Deserializer<'de>>(d: D) -> Result<RecRow, D::Error> {
        // the log describes the row being deserialized now (rows dropped by nth/skip/… leave no trace)
        LOG.with(|l| l.borrow_mut().clear());
        HEAD.with(|h| h.borrow_mut().clear());
        let m = ROW_METHOD.with(|m| *m.borrow());
        match m {
            0 => d.deserialize_any(RowVisitor),
            1 => d.deserialize_seq(RowVisitor),
            2 => d.deserialize_tuple(3, RowVisitor),
            3 => d.deserialize_tuple_struct("T", 2, RowVisitor),
            4 => d.deserialize_newtype_struct("N", RowVisitor),
            5 => d.deserialize_option(RowVisitor),
            6 => d.deserialize_ignored_any(RowVisitor),
            10 => d.deserialize_map(RowVisitor),
            _ => d.deserialize_struct("S", FIELD_SETS[FIELDS_IDX.with(|f| *f.borrow())], RowVisitor),
        }
    }
}

fn err_canon(e: &DeError) -> String {
    match e {
        DeError::CellError { err, pos } => format!("!CE:{}:{}:{}", kind_index(err), pos.0, pos.1),
        DeError::UnexpectedEndOfRow { pos } => format!("!EOR:{}:{}", pos.0, pos.1),
        DeError::HeaderNotFound(s) => format!("!HNF:{}", hex(s.as_bytes())),
        DeError::Custom(_) => "!custom".into(),
        DeError::CellOutOfRange { .. } => "!COR".into(),
    }
}

fn hint_canon(h: (usize, Option<usize>)) -> String {
    match h {
        (lo, Some(hi)) => format!("{lo},{hi}"),
        (lo, None) => format!("{lo},-"),
    }
}

/// run the real deserializer; `variant` selects equivalent public entry points
fn run_impl(case: &Case, variant: u64) -> String {
    let range = match guarded(|| case.range()) {
        Ok(r) => r,
        Err(_) => return "range-panic".into(),
    };
    setup_case(case, variant);
    if !case.calls.is_empty() {
        // a builder value configured by several calls: constructor, then has_headers(..) calls
        let built = guarded(|| {
            let mut b: RangeDeserializerBuilder<'static, &'static str> = match &case.cfg {
                Cfg::None => {
                    let mut b = RangeDeserializerBuilder::new();
                    b.has_headers(false);
                    b
                }
                Cfg::All => RangeDeserializerBuilder::new(),
                Cfg::Wdh(_) => RangeDeserializerBuilder::with_deserialize_headers::<RecRow>(),
                Cfg::Custom(names) => {
                    let v: Vec<&'static str> = names.iter().map(|s| &*Box::leak(s.clone().into_boxed_str())).collect();
                    RangeDeserializerBuilder::with_headers(Box::leak(v.into_boxed_slice()))
                }
            };
            for c in &case.calls {
                b.has_headers(*c);
            }
            if variant % 2 == 0 {
                b.from_range::<Data, RecRow>(&range)
            } else {
                b.clone().from_range::<Data, RecRow>(&range)
            }
        });
        return drive(built, &case.ops);
    }
    let built = guarded(|| match &case.cfg {
        Cfg::None => RangeDeserializerBuilder::new().has_headers(false).from_range::<Data, RecRow>(&range),
        Cfg::All => match variant / 7 % 3 {
            0 => range.deserialize::<RecRow>(),
            1 => RangeDeserializerBuilder::new().from_range::<Data, RecRow>(&range),
            _ => RangeDeserializerBuilder::new().has_headers(true).from_range::<Data, RecRow>(&range),
        },
        Cfg::Wdh(_) => RangeDeserializerBuilder::with_deserialize_headers::<RecRow>().from_range::<Data, RecRow>(&range),
        Cfg::Custom(names) => {
            if variant / 7 % 2 == 0 {
                RangeDeserializerBuilder::with_headers(names).from_range::<Data, RecRow>(&range)
            } else {
                let refs: Vec<&str> = names.iter().map(|s| s.as_str()).collect();
                RangeDeserializerBuilder::with_headers(&refs).from_range::<Data, RecRow>(&range)
            }
        }
    });
    drive(built, &case.ops)
}

/// per-case settings of the recording visitors
fn setup_case(case: &Case, variant: u64) {
    SCHED.with(|s| *s.borrow_mut() = case.sched.clone());
    let method: u8 = match &case.cfg {
        Cfg::Wdh(Some(i)) => {
            FIELDS_IDX.with(|f| *f.borrow_mut() = *i);
            11 // the record type is a struct: the same `deserialize_struct` call probes the fields and reads the rows
        }
        Cfg::Wdh(None) => {
            if case.map {
                10
            } else {
                (variant % 7) as u8
            }
        }
        _ => {
            FIELDS_IDX.with(|f| *f.borrow_mut() = 0);
            if case.map {
                10 + (variant % 2) as u8
            } else {
                (variant % 7) as u8
            }
        }
    };
    ROW_METHOD.with(|m| *m.borrow_mut() = method);
}

/// consume a freshly built deserializer by the case's steps; the canonical observation text
fn drive<'a>(built: Result<Result<RangeDeserializer<'a, Data, RecRow>, DeError>, String>, ops: &[Op]) -> String {
    let mut it = match built {
        Err(_) => return "panic".into(),
        Ok(Err(e)) => return err_canon(&e),
        Ok(Ok(it)) => it,
    };
    let mut out = vec!["ok".to_string()];
    out.push(guarded(|| it.size_hint()).map(hint_canon).unwrap_or("panic".into()));
    // the canonical text of what a call returned (the log holds the row deserialized last = the returned one)
    fn item_text(res: Option<Result<RecRow, DeError>>) -> String {
        match res {
            None => "none".to_string(),
            Some(res) => {
                let mut parts: Vec<String> = LOG.with(|l| l.borrow().clone());
                if let Err(e) = res {
                    parts.push(err_canon(&e));
                }
                format!("{}{}", HEAD.with(|h| h.borrow().clone()), parts.join(";"))
            }
        }
    }
    fn many(v: Vec<String>) -> String {
        if v.is_empty() {
            "-".into()
        } else {
            v.join(" & ")
        }
    }
    for op in ops {
        let r: Result<String, String> = match op {
            Op::Next => guarded(|| item_text(it.next())),
            Op::Nth(n) => guarded(|| item_text(it.nth(*n))),
            Op::Skip(k) => guarded(|| item_text(it.by_ref().skip(*k).next())),
            Op::StepBy(k, m) => guarded(|| {
                let mut v = vec![];
                let mut ad = it.by_ref().step_by(*k).take(*m);
                while let Some(r) = ad.next() {
                    v.push(item_text(Some(r)));
                }
                many(v)
            }),
            Op::Take(m) => guarded(|| {
                let mut v = vec![];
                let mut ad = it.by_ref().take(*m);
                while let Some(r) = ad.next() {
                    v.push(item_text(Some(r)));
                }
                many(v)
            }),
            Op::Last => guarded(|| item_text(it.by_ref().last())),
            Op::Count => guarded(|| format!("count={}", it.by_ref().count())),
            Op::Hint => Ok("h".to_string()),
        };
        out.push(r.unwrap_or("panic".to_string()));
        out.push(guarded(|| it.size_hint()).map(hint_canon).unwrap_or("panic".into()));
    }
    out.join(" | ")
}

// ------------------------------------------------------------------------------------------------
// the oracle: the property as stated
// ------------------------------------------------------------------------------------------------

fn o_any(d: &Data) -> String {
    match d {
        Data::String(s) | Data::DateTimeIso(s) | Data::DurationIso(s) => format!("s:{}", hex(s.as_bytes())),
        Data::Float(v) => format!("f64:{:016x}", v.to_bits()),
        Data::DateTime(v) => format!("f64:{:016x}", v.as_f64().to_bits()),
        Data::Bool(b) => format!("b:{}", *b as u8),
        Data::Int(v) => format!("i64:{v}"),
        Data::Empty => "unit".into(),
        Data::Error(_) => unreachable!(),
    }
}

/// text of a cell (documented: numbers/bools by `to_string`, Empty as "")
fn o_text(d: &Data) -> String {
    match d {
        Data::String(s) | Data::DateTimeIso(s) | Data::DurationIso(s) => s.clone(),
        Data::Float(v) => v.to_string(),
        Data::DateTime(v) => v.as_f64().to_string(),
        Data::Bool(b) => b.to_string(),
        Data::Int(v) => v.to_string(),
        Data::Empty => String::new(),
        Data::Error(_) => unreachable!(),
    }
}

macro_rules! o_num {
    ($d:expr, $t:ty, $name:expr, $fmt:expr) => {
        match $d {
            Data::Float(v) => $fmt(*v as $t),
            Data::Int(v) => $fmt(*v as $t),
            Data::String(s) => match s.parse::<$t>() {
                Ok(v) => $fmt(v),
                Err(_) => "!custom".to_string(),
            },
            _ => "!custom".to_string(),
        }
    };
}

/// what a visitor asking for `t` must be given for cell `d` at `pos` (documented conversion rules)
fn o_convert(d: &Data, t: &str, pos: (u32, u32)) -> String {
    if let Data::Error(e) = d {
        return format!("!CE:{}:{}:{}", kind_index(e), pos.0, pos.1);
    }
    match t {
        "any" | "unit_struct" | "seq" | "tuple" | "tuple_struct" | "map" | "struct" | "identifier" | "ignored_any" => o_any(d),
        "option" => {
            if *d == Data::Empty {
                "none".into()
            } else {
                format!("some+{}", o_any(d))
            }
        }
        "newtype_struct" => format!("nt+{}", o_any(d)),
        "str" | "string" => format!("s:{}", hex(o_text(d).as_bytes())),
        "bytes" | "byte_buf" => match d {
            Data::String(s) => format!("y:{}", hex(s.as_bytes())),
            Data::Empty => "y:-".into(),
            _ => "!custom".into(),
        },
        "bool" => match d {
            Data::Bool(b) => format!("b:{}", *b as u8),
            Data::String(s) => match s.as_str() {
                "TRUE" | "true" | "True" => "b:1".into(),
                "FALSE" | "false" | "False" => "b:0".into(),
                _ => "!custom".into(),
            },
            Data::Empty => "b:0".into(),
            Data::Float(v) => format!("b:{}", (*v != 0.0) as u8),
            Data::DateTime(v) => format!("b:{}", (v.as_f64() != 0.0) as u8),
            Data::Int(v) => format!("b:{}", (*v != 0) as u8),
            _ => "b:1".into(),
        },
        "char" => match d {
            Data::String(s) if s.len() == 1 => format!("c:{}", s.chars().next().unwrap() as u32),
            _ => "!custom".into(),
        },
        "unit" => match d {
            Data::Empty => "unit".into(),
            _ => "!custom".into(),
        },
        "enum" => match d {
            Data::String(s) => format!("en:{}", hex(s.as_bytes())),
            _ => "!custom".into(),
        },
        "i8" => o_num!(d, i8, "i8", |v: i8| format!("i8:{v}")),
        "i16" => o_num!(d, i16, "i16", |v: i16| format!("i16:{v}")),
        "i32" => o_num!(d, i32, "i32", |v: i32| format!("i32:{v}")),
        "i64" => o_num!(d, i64, "i64", |v: i64| format!("i64:{v}")),
        "u8" => o_num!(d, u8, "u8", |v: u8| format!("u8:{v}")),
        "u16" => o_num!(d, u16, "u16", |v: u16| format!("u16:{v}")),
        "u32" => o_num!(d, u32, "u32", |v: u32| format!("u32:{v}")),
        "u64" => o_num!(d, u64, "u64", |v: u64| format!("u64:{v}")),
        "f32" => o_num!(d, f32, "f32", f32_canon),
        "f64" => o_num!(d, f64, "f64", |v: f64| format!("f64:{:016x}", v.to_bits())),
        x => panic!("unknown target {x}"),
    }
}

/// header configuration resolved against the first row: Err(new fails) or (selected columns, header strings)
fn o_resolve(case0: &Case) -> Result<(Vec<usize>, Option<Vec<String>>, usize), String> {
    let case = &Case { cfg: case0.eff_cfg(), calls: vec![], ..case0.clone() };
    let (h, w) = (case.h(), case.w());
    if case.cfg == Cfg::None {
        return Ok(((0..w).collect(), None, 0));
    }
    if h == 0 {
        return Ok((vec![], None, 0));
    }
    let (sr, sc, _, _) = case.dims.unwrap();
    let mut hs = vec![];
    for (i, d) in case.row(0).iter().enumerate() {
        if let Data::Error(e) = d {
            return Err(format!("!CE:{}:{}:{}", kind_index(e), sr, sc + i as u32));
        }
        hs.push(o_text(d));
    }
    let cols = match &case.cfg {
        Cfg::Custom(names) => {
            let mut cols = vec![];
            for n in names {
                match hs.iter().position(|x| x.trim() == n.trim()) {
                    Some(i) => cols.push(i),
                    None => return Err(format!("!HNF:{}", hex(n.trim().as_bytes()))),
                }
            }
            cols
        }
        _ => (0..w).collect(),
    };
    Ok((cols, Some(hs), 1))
}

fn o_item(case: &Case, cols: &[usize], hs: &Option<Vec<String>>, j: usize) -> String {
    let (sr, sc, _, _) = case.dims.unwrap();
    let row = case.row(j);
    let rho = sr + j as u32;
    let use_map = case.map && hs.is_some();
    let mut parts = vec![];
    let mut k = 0;
    for &c in cols {
        let d = &row[c];
        if use_map && *d == Data::Empty {
            continue;
        }
        let t = if case.sched.is_empty() { "any" } else { case.sched[k % case.sched.len()].as_str() };
        let v = o_convert(d, t, (rho, sc + c as u32));
        let failed = v.starts_with('!');
        if use_map {
            let key = hex(hs.as_ref().unwrap()[c].as_bytes());
            if failed {
                parts.push(format!("{key}="));
                parts.push(v);
            } else {
                parts.push(format!("{key}={v}"));
            }
        } else {
            parts.push(v);
        }
        if failed {
            break;
        }
        k += 1;
    }
    if use_map {
        format!("map:{}", parts.join(";"))
    } else {
        format!("seq[{}]:{}", cols.len(), parts.join(";"))
    }
}

fn run_oracle(case: &Case) -> String {
    let (cols, hs, hdr) = match o_resolve(case) {
        Ok(x) => x,
        Err(e) => return e,
    };
    let total = case.h() - hdr;
    let mut out = vec!["ok".to_string(), format!("{total},{total}")];
    // `cur` rows are consumed; the item of the row at offset `j` is wanted (or None past the end)
    let mut cur = 0usize;
    let item = |j: usize| -> Option<String> { if j < total { Some(o_item(case, &cols, &hs, hdr + j)) } else { None } };
    let many = |v: Vec<String>| if v.is_empty() { "-".to_string() } else { v.join(" & ") };
    for op in &case.ops {
        let res = match op {
            Op::Next | Op::Nth(_) | Op::Skip(_) => {
                let skip = match op {
                    Op::Nth(n) | Op::Skip(n) => *n,
                    _ => 0,
                };
                let r = item(cur.saturating_add(skip));
                cur = cur.saturating_add(skip).saturating_add(1).min(total);
                r.unwrap_or("none".into())
            }
            Op::StepBy(k, m) => {
                let mut v = vec![];
                for i in 0..*m {
                    let j = cur + if i == 0 { 0 } else { k - 1 };
                    match item(j) {
                        Some(x) => {
                            v.push(x);
                            cur = j + 1;
                        }
                        None => {
                            cur = total;
                            break;
                        }
                    }
                }
                many(v)
            }
            Op::Take(m) => {
                let mut v = vec![];
                for _ in 0..*m {
                    match item(cur) {
                        Some(x) => {
                            v.push(x);
                            cur += 1;
                        }
                        None => break,
                    }
                }
                many(v)
            }
            Op::Last => {
                let r = if cur < total { item(total - 1).unwrap() } else { "none".into() };
                cur = total;
                r
            }
            Op::Count => {
                let r = format!("count={}", total - cur);
                cur = total;
                r
            }
            Op::Hint => "h".into(),
        };
        out.push(res);
        let rem = total - cur;
        out.push(format!("{rem},{rem}"));
    }
    out.join(" | ")
}

// ------------------------------------------------------------------------------------------------
// comparison and failure classes
// ------------------------------------------------------------------------------------------------

fn class_of(seg: &str) -> &str {
    if seg.starts_with("!CE") {
        "CellError"
    } else if seg.starts_with("!HNF") {
        "HeaderNotFound"
    } else if seg.starts_with("!custom") {
        "Custom"
    } else if seg == "panic" {
        "panic"
    } else if seg == "ok" {
        "ok"
    } else {
        "other"
    }
}

/// short stable names for the classes of difference between an observed and an expected run
fn diff_sigs(got: &str, want: &str) -> Vec<String> {
    let g: Vec<&str> = got.split(" | ").collect();
    let w: Vec<&str> = want.split(" | ").collect();
    let mut out: Vec<String> = vec![];
    for i in 0..g.len().max(w.len()) {
        let a = g.get(i).copied().unwrap_or("<missing>");
        let b = w.get(i).copied().unwrap_or("<missing>");
        if a == b {
            continue;
        }
        let sig: String = if i == 0 {
            if a.starts_with("!CE") && b.starts_with("!CE") {
                "header_cell_error_pos".into()
            } else {
                format!("new:{}-for-{}", class_of(a), class_of(b))
            }
        } else if i % 2 == 1 {
            if a == "panic" {
                "size_hint:panic".into()
            } else {
                "size_hint".into()
            }
        } else if a == "panic" {
            "next:panic".into()
        } else if a == "none" || b == "none" {
            "item_count".into()
        } else {
            let ce = |s: &str| s.find("!CE").map(|i| s[i..].to_string());
            match (ce(a), ce(b)) {
                (Some(x), Some(y)) if x != y => "cell_error_pos".into(),
                _ => {
                    if b.starts_with("map") || a.starts_with("map") {
                        "map_events".into()
                    } else {
                        "seq_events".into()
                    }
                }
            }
        };
        if !out.contains(&sig) {
            out.push(sig);
        }
        if i == 0 {
            break;
        }
    }
    out
}

struct Fail {
    kind: &'static str,
    sig: String,
    imp: String,
    model: String,
    expect: String,
}

fn eval_case(case: &Case, variant: u64, drv: &mut Driver) -> Vec<Fail> {
    compare(case, run_impl(case, variant), drv)
}

/// three-way comparison of an observed run of `case`
fn compare(case: &Case, imp: String, drv: &mut Driver) -> Vec<Fail> {
    let model = drv.ask(&format!("{} {}", case.wire(), case.std_table()));
    let expect = run_oracle(case);
    let mut fails = vec![];
    let mk = |kind, sig: String| Fail { kind, sig, imp: imp.clone(), model: model.clone(), expect: expect.clone() };
    for sig in diff_sigs(&imp, &expect) {
        fails.push(mk("impl_vs_spec", sig));
    }
    for sig in diff_sigs(&imp, &model) {
        fails.push(mk("impl_vs_model", sig));
    }
    if imp == expect {
        for sig in diff_sigs(&model, &expect) {
            fails.push(mk("model_vs_spec", sig));
        }
    }
    fails
}

fn shrink(case: &Case, variant: u64, kind: &str, sig: &str, drv: &mut Driver) -> Case {
    let still = |c: &Case, drv: &mut Driver| eval_case(c, variant, drv).iter().any(|f| f.kind == kind && f.sig == sig);
    let mut cur = case.clone();
    let mut budget = 300;
    loop {
        let mut cands: Vec<Case> = vec![];
        if let Some((sr, sc, h, w)) = cur.dims {
            // drop a row / a column
            for j in (0..h).rev() {
                if h > 1 {
                    let mut c = cur.clone();
                    c.cells.drain(j * w..(j + 1) * w);
                    c.dims = Some((sr, sc, h - 1, w));
                    cands.push(c);
                }
            }
            for i in (0..w).rev() {
                if w > 1 {
                    let mut c = cur.clone();
                    c.cells = cur.cells.iter().enumerate().filter(|(k, _)| k % w != i).map(|(_, d)| d.clone()).collect();
                    c.dims = Some((sr, sc, h, w - 1));
                    cands.push(c);
                }
            }
            if sr != 0 || sc != 0 {
                let mut c = cur.clone();
                c.dims = Some((0, 0, h, w));
                cands.push(c);
            }
            for k in 0..cur.cells.len() {
                if cur.cells[k] != Data::Empty && cur.cells[k] != Data::Int(1) {
                    let mut c = cur.clone();
                    c.cells[k] = if matches!(cur.cells[k], Data::Int(_)) { Data::Empty } else { Data::Int(1) };
                    cands.push(c);
                }
            }
        }
        for k in (0..cur.ops.len()).rev() {
            let mut c = cur.clone();
            c.ops.remove(k);
            cands.push(c);
        }
        for k in 0..cur.calls.len() {
            let mut c = cur.clone();
            c.calls.remove(k);
            cands.push(c);
        }
        for k in 0..cur.ops.len() {
            let simpler = match &cur.ops[k] {
                Op::Skip(n) => Some(Op::Nth(*n)),
                Op::Nth(n) if *n > 1 => Some(Op::Nth(n - 1)),
                Op::StepBy(a, b) if *b > 2 => Some(Op::StepBy(*a, b - 1)),
                Op::Take(m) if *m > 1 => Some(Op::Take(m - 1)),
                _ => None,
            };
            if let Some(o) = simpler {
                let mut c = cur.clone();
                c.ops[k] = o;
                cands.push(c);
            }
        }
        if cur.sched != vec!["any".to_string()] {
            let mut c = cur.clone();
            c.sched = vec!["any".into()];
            cands.push(c);
        }
        if let Cfg::Custom(names) = &cur.cfg {
            for k in 0..names.len() {
                let mut c = cur.clone();
                let mut n2 = names.clone();
                n2.remove(k);
                c.cfg = Cfg::Custom(n2);
                cands.push(c);
            }
        }
        let mut improved = false;
        for c in cands {
            if budget == 0 {
                return cur;
            }
            budget -= 1;
            if still(&c, drv) {
                cur = c;
                improved = true;
                break;
            }
        }
        if !improved {
            return cur;
        }
    }
}

// ------------------------------------------------------------------------------------------------
// family `derive`: serde's own visitors as an implementation-level oracle
// ------------------------------------------------------------------------------------------------

#[derive(Debug, serde_derive::Deserialize, PartialEq)]
struct Rec {
    id: i64,
    name: String,
    flag: bool,
    score: Option<f64>,
    note: Option<String>,
}

const REC_FIELDS: [(&str, &str, bool); 5] =
    [("id", "i64", false), ("name", "string", false), ("flag", "bool", false), ("score", "f64", true), ("note", "string", true)];

fn rec_canon(r: &Rec) -> String {
    format!(
        "id=i64:{};name=s:{};flag=b:{};score={};note={}",
        r.id,
        hex(r.name.as_bytes()),
        r.flag as u8,
        r.score.map(|v| format!("some+f64:{:016x}", v.to_bits())).unwrap_or("none".into()),
        r.note.as_ref().map(|v| format!("some+s:{}", hex(v.as_bytes()))).unwrap_or("none".into())
    )
}

/// `Data` as `Data::deserialize` must rebuild it from a cell (documented: dates as floats, ISO as strings)
fn o_data(d: &Data) -> Data {
    match d {
        Data::DateTime(v) => Data::Float(v.as_f64()),
        Data::DateTimeIso(s) | Data::DurationIso(s) => Data::String(s.clone()),
        x => x.clone(),
    }
}

fn data_canon(d: &Data) -> String {
    cell_wire(d)
}

fn res_canon<T>(r: Result<Option<Result<T, DeError>>, String>, f: impl Fn(&T) -> String) -> String {
    match r {
        Err(_) => "panic".into(),
        Ok(None) => "none".into(),
        Ok(Some(Ok(v))) => f(&v),
        Ok(Some(Err(e))) => err_canon(&e),
    }
}

/// first error cell among the selected columns of a row (skipping empties in map mode)
fn first_cell_error(case: &Case, cols: &[usize], j: usize) -> Option<String> {
    let (sr, sc, _, _) = case.dims.unwrap();
    for &c in cols {
        if let Data::Error(e) = &case.row(j)[c] {
            return Some(format!("!CE:{}:{}:{}", kind_index(e), sr + j as u32, sc + c as u32));
        }
    }
    None
}

/// expectations for serde's own visitors, computed from the case description
fn derive_family(case0: &Case, rep: &mut Report, text: &str) {
    let case = &Case { cfg: case0.eff_cfg(), calls: vec![], ..case0.clone() };
    let range = case.range();
    let resolved = o_resolve(case);
    let builder_err = resolved.as_ref().err().cloned();
    macro_rules! build {
        ($t:ty) => {
            guarded(|| match &case.cfg {
                Cfg::None => RangeDeserializerBuilder::new().has_headers(false).from_range::<Data, $t>(&range),
                Cfg::All => range.deserialize::<$t>(),
                Cfg::Custom(names) => RangeDeserializerBuilder::with_headers(names).from_range::<Data, $t>(&range),
                Cfg::Wdh(_) => unreachable!(),
            })
        };
    }
    macro_rules! check {
        ($sig:expr, $got:expr, $want:expr) => {
            rep.count(concat!("derive.", $sig));
            let (g, w): (String, String) = ($got, $want);
            if g != w {
                rep.fail("impl_vs_spec", &format!("derive:{}:{}", $sig, diff_short(&g, &w)), text, &g, "", &w);
            }
        };
    }
    // ---- Vec<Data>
    match build!(Vec<Data>) {
        Err(_) => {
            check!("vec", "panic".to_string(), builder_err.clone().unwrap_or("ok".into()));
        }
        Ok(Err(e)) => {
            check!("vec", err_canon(&e), builder_err.clone().unwrap_or("ok".into()));
        }
        Ok(Ok(mut it)) => {
            if let Ok((cols, _hs, hdr)) = &resolved {
                let total = case.h() - hdr;
                for k in 0..=total {
                    let got = res_canon(guarded(|| it.next()), |v: &Vec<Data>| v.iter().map(data_canon).collect::<Vec<_>>().join(","));
                    let want = if k == total {
                        "none".to_string()
                    } else if let Some(e) = first_cell_error(case, cols, hdr + k) {
                        e
                    } else {
                        cols.iter().map(|&c| data_canon(&o_data(&case.row(hdr + k)[c]))).collect::<Vec<_>>().join(",")
                    };
                    check!("vec", got, want);
                }
            } else {
                check!("vec", "ok".to_string(), builder_err.clone().unwrap());
            }
        }
    }
    // ---- HashMap<String, Data>: bound by header name; empty cells absent; later duplicate header wins
    if let Ok(Ok(mut it)) = build!(HashMap<String, Data>) {
        if let Ok((cols, hs, hdr)) = &resolved {
            let total = case.h() - hdr;
            for k in 0..total {
                let got = res_canon(guarded(|| it.next()), |m: &HashMap<String, Data>| {
                    let b: BTreeMap<_, _> = m.iter().collect();
                    b.iter().map(|(k, v)| format!("{}={}", hex(k.as_bytes()), data_canon(v))).collect::<Vec<_>>().join(",")
                });
                let want = match hs {
                    None => "!custom".to_string(), // a sequence cannot be read as a map: serde's `invalid type`
                    Some(hs) => {
                        let row = case.row(hdr + k);
                        let nonempty: Vec<usize> = cols.iter().copied().filter(|&c| row[c] != Data::Empty).collect();
                        if let Some(e) = first_cell_error(case, &nonempty, hdr + k) {
                            e
                        } else {
                            let mut b = BTreeMap::new();
                            for &c in &nonempty {
                                b.insert(hs[c].clone(), o_data(&row[c]));
                            }
                            b.iter().map(|(k, v)| format!("{}={}", hex(k.as_bytes()), data_canon(v))).collect::<Vec<_>>().join(",")
                        }
                    }
                };
                check!("hashmap", got, want);
            }
        }
    }
    // ---- a typed tuple: (String, Option<f64>, bool) by position over the selected columns
    if let Ok(Ok(mut it)) = build!((String, Option<f64>, bool)) {
        if let Ok((cols, _hs, hdr)) = &resolved {
            let total = case.h() - hdr;
            let (sr, sc, _, _) = case.dims.unwrap_or((0, 0, 0, 0));
            for k in 0..total {
                let got = res_canon(guarded(|| it.next()), |t: &(String, Option<f64>, bool)| {
                    format!(
                        "s:{};{};b:{}",
                        hex(t.0.as_bytes()),
                        t.1.map(|v| format!("some+f64:{:016x}", v.to_bits())).unwrap_or("none".into()),
                        t.2 as u8
                    )
                });
                let row = case.row(hdr + k);
                let mut parts = vec![];
                let mut want = None;
                for (p, t) in ["string", "optf64", "bool"].iter().enumerate() {
                    if p >= cols.len() {
                        want = Some("!custom".to_string()); // invalid length
                        break;
                    }
                    let d = &row[cols[p]];
                    let pos = (sr + (hdr + k) as u32, sc + cols[p] as u32);
                    let v = if *t == "optf64" {
                        if *d == Data::Empty {
                            "none".to_string()
                        } else {
                            let x = o_convert(d, "f64", pos);
                            if x.starts_with('!') {
                                x
                            } else {
                                format!("some+{x}")
                            }
                        }
                    } else {
                        o_convert(d, t, pos)
                    };
                    if v.starts_with('!') {
                        want = Some(v);
                        break;
                    }
                    parts.push(v);
                }
                check!("tuple", got, want.unwrap_or(parts.join(";")));
            }
        }
    }
    // ---- a derived struct with Option fields, bound by header name (with headers) or position (without)
    let rec_built = guarded(|| match &case.cfg {
        Cfg::None => RangeDeserializerBuilder::new().has_headers(false).from_range::<Data, Rec>(&range),
        Cfg::All => range.deserialize::<Rec>(),
        Cfg::Custom(_) | Cfg::Wdh(_) => RangeDeserializerBuilder::with_deserialize_headers::<Rec>().from_range::<Data, Rec>(&range),
    });
    // with `with_deserialize_headers` the requested names are the struct's field names
    let rec_case = match &case.cfg {
        Cfg::Custom(_) => Case { cfg: Cfg::Custom(REC_FIELDS.iter().map(|f| f.0.to_string()).collect()), ..case.clone() },
        _ => case.clone(),
    };
    let rec_resolved = o_resolve(&rec_case);
    match rec_built {
        Err(_) => {
            check!("struct_new", "panic".to_string(), rec_resolved.as_ref().err().cloned().unwrap_or("ok".into()));
        }
        Ok(Err(e)) => {
            check!("struct_new", err_canon(&e), rec_resolved.as_ref().err().cloned().unwrap_or("ok".into()));
        }
        Ok(Ok(mut it)) => {
            check!("struct_new", "ok".to_string(), rec_resolved.as_ref().err().cloned().unwrap_or("ok".into()));
            if let Ok((cols, hs, hdr)) = &rec_resolved {
                let total = case.h() - hdr;
                let (sr, sc, _, _) = case.dims.unwrap_or((0, 0, 0, 0));
                for k in 0..total {
                    let got = res_canon(guarded(|| it.next()), rec_canon);
                    let row = case.row(hdr + k);
                    let rho = sr + (hdr + k) as u32;
                    // column bound to each field
                    let mut want: Option<String> = None;
                    let mut vals: BTreeMap<&str, String> = BTreeMap::new();
                    if let Some(hs) = hs {
                        // by name: events in selected-column order; unknown names ignored; duplicate field = error
                        for &c in cols {
                            let d = &row[c];
                            if *d == Data::Empty {
                                continue;
                            }
                            let Some(f) = REC_FIELDS.iter().find(|f| f.0 == hs[c]) else {
                                // unknown key: the value is skipped through `IgnoredAny`, an error cell still fails
                                if let Data::Error(e) = d {
                                    want = Some(format!("!CE:{}:{}:{}", kind_index(e), rho, sc + c as u32));
                                    break;
                                }
                                continue;
                            };
                            if vals.contains_key(f.0) {
                                want = Some("!custom".into()); // duplicate field
                                break;
                            }
                            let v = o_convert(d, f.1, (rho, sc + c as u32));
                            if v.starts_with('!') {
                                want = Some(v);
                                break;
                            }
                            vals.insert(f.0, if f.2 { format!("some+{v}") } else { v });
                        }
                    } else {
                        // by position
                        for (p, f) in REC_FIELDS.iter().enumerate() {
                            if p >= cols.len() {
                                want = Some("!custom".into()); // invalid length
                                break;
                            }
                            let d = &row[cols[p]];
                            if f.2 && *d == Data::Empty {
                                vals.insert(f.0, "none".into());
                                continue;
                            }
                            let v = o_convert(d, f.1, (rho, sc + cols[p] as u32));
                            if v.starts_with('!') {
                                want = Some(v);
                                break;
                            }
                            vals.insert(f.0, if f.2 { format!("some+{v}") } else { v });
                        }
                    }
                    let want = want.unwrap_or_else(|| {
                        let mut parts = vec![];
                        for f in REC_FIELDS.iter() {
                            match vals.get(f.0) {
                                Some(v) => parts.push(format!("{}={v}", f.0)),
                                None if f.2 => parts.push(format!("{}=none", f.0)),
                                None => return "!custom".to_string(), // missing field
                            }
                        }
                        parts.join(";")
                    });
                    check!("struct", got, want);
                }
            }
        }
    }
}

fn diff_short(got: &str, want: &str) -> String {
    let cls = |s: &str| -> String {
        if s.starts_with("!CE") {
            "CellError".into()
        } else if s.starts_with('!') {
            s.split(':').next().unwrap().trim_start_matches('!').to_string()
        } else if s == "panic" || s == "none" {
            s.to_string()
        } else {
            "value".into()
        }
    };
    if got.starts_with("!CE") && want.starts_with("!CE") {
        return "cell_error_pos".into();
    }
    format!("{}-for-{}", cls(got), cls(want))
}

// ------------------------------------------------------------------------------------------------
// family `convert`: the conversion table
// ------------------------------------------------------------------------------------------------

fn convert_case(d: &Data, t: &str, pos: (u32, u32), drv: &mut Driver, rep: &mut Report) {
    let text = format!("convert {} {} {},{}", cell_wire(d), t, pos.0, pos.1);
    let imp = match guarded(|| {
        let de = d.to_cell_deserializer(pos);
        call_target(de, t)
    }) {
        Err(_) => "panic".to_string(),
        Ok(Ok(v)) => v,
        Ok(Err(e)) => err_canon(&e),
    };
    let model = drv.ask(&format!("{text} {}", std_table(std::slice::from_ref(d))));
    let expect = o_convert(d, t, pos);
    let kind_name = match d {
        Data::Int(_) => "int",
        Data::Float(_) => "float",
        Data::String(_) => "string",
        Data::Bool(_) => "bool",
        Data::DateTime(_) => "datetime",
        Data::DateTimeIso(_) => "dtiso",
        Data::DurationIso(_) => "duriso",
        Data::Error(_) => "error",
        Data::Empty => "empty",
    };
    rep.case(&text, !matches!(d, Data::Empty));
    rep.count(&format!("convert.{kind_name}"));
    let sig = format!("convert:{kind_name}->{t}");
    if imp != expect {
        rep.fail("impl_vs_spec", &sig, &text, &imp, &model, &expect);
    }
    if imp != model {
        rep.fail("impl_vs_model", &sig, &text, &imp, &model, &expect);
    }
    if model != expect && imp == expect {
        rep.fail("model_vs_spec", &sig, &text, &imp, &model, &expect);
    }
}

/// family `data`: `Data` (and `Option<Data>`) as the deserialization target of a cell — impl vs model
/// (`dataOfCell`, `optDataOfCell`) vs the documented table (dates come back as floats, ISO texts as strings,
/// error cells fail)
fn data_case(d: &Data, pos: (u32, u32), drv: &mut Driver, rep: &mut Report) {
    let text = format!("data {} {},{}", cell_wire(d), pos.0, pos.1);
    let one = match guarded(|| Data::deserialize(d.to_cell_deserializer(pos))) {
        Err(_) => "panic".to_string(),
        Ok(Ok(x)) => cell_wire(&x),
        Ok(Err(e)) => err_canon(&e),
    };
    let two = match guarded(|| Option::<Data>::deserialize(d.to_cell_deserializer(pos))) {
        Err(_) => "panic".to_string(),
        Ok(Ok(Some(x))) => format!("some+{}", cell_wire(&x)),
        Ok(Ok(None)) => "none".to_string(),
        Ok(Err(e)) => err_canon(&e),
    };
    let imp = format!("{one} {two}");
    let model = drv.ask(&text);
    let expect = match d {
        Data::Error(e) => {
            let c = format!("!CE:{}:{}:{}", kind_index(e), pos.0, pos.1);
            format!("{c} {c}")
        }
        Data::Empty => "_ none".to_string(),
        x => format!("{} some+{}", cell_wire(&o_data(x)), cell_wire(&o_data(x))),
    };
    rep.case(&text, !matches!(d, Data::Empty));
    rep.count("data.cells");
    if imp != expect {
        rep.fail("impl_vs_spec", "data:roundtrip", &text, &imp, &model, &expect);
    }
    if imp != model {
        rep.fail("impl_vs_model", "data:roundtrip", &text, &imp, &model, &expect);
    }
    if model != expect && imp == expect {
        rep.fail("model_vs_spec", "data:roundtrip", &text, &imp, &model, &expect);
    }
}

/// a deserializer that answers every request with one fixed `visit_*` call (canonical value text)
struct ValDe(String);

impl<'de> Deserializer<'de> for ValDe {
    type Error = DeError;
    fn deserialize_any<V: Visitor<'de>>(self, v: V) -> Result<V::Value, DeError> {
        let w = self.0.as_str();
        if w == "unit" {
            return v.visit_unit();
        }
        if w == "none" {
            return v.visit_none();
        }
        if w == "nt" {
            return v.visit_newtype_struct(ValDe("unit".into()));
        }
        let (k, x) = w.split_once(':').expect("value text");
        match k {
            "b" => v.visit_bool(x == "1"),
            "i8" => v.visit_i8(x.parse().unwrap()),
            "i16" => v.visit_i16(x.parse().unwrap()),
            "i32" => v.visit_i32(x.parse().unwrap()),
            "i64" => v.visit_i64(x.parse().unwrap()),
            "u8" => v.visit_u8(x.parse().unwrap()),
            "u16" => v.visit_u16(x.parse().unwrap()),
            "u32" => v.visit_u32(x.parse().unwrap()),
            "u64" => v.visit_u64(x.parse().unwrap()),
            "f32" => v.visit_f32(f32::from_bits(u32::from_str_radix(x, 16).unwrap())),
            "f64" => v.visit_f64(f64::from_bits(u64::from_str_radix(x, 16).unwrap())),
            "s" => v.visit_str(&ustr(x)),
            "S" => v.visit_string(ustr(x)),
            "sb" => v.visit_borrowed_str(Box::leak(ustr(x).into_boxed_str())),
            "c" => v.visit_char(char::from_u32(x.parse().unwrap()).unwrap()),
            "y" => v.visit_bytes(&unhex(x)),
            other => panic!("bad value kind {other}"),
        }
    }
    serde::forward_to_deserialize_any! {
        bool i8 i16 i32 i64 u8 u16 u32 u64 f32 f64 char str string bytes byte_buf option unit unit_struct
        newtype_struct seq tuple tuple_struct map struct enum identifier ignored_any
    }
}

/// family `visit`: `DataVisitor` called directly with one `visit_*` — impl vs model (`dataVisitor`) vs the table
fn visit_case(val: &str, drv: &mut Driver, rep: &mut Report) {
    let text = format!("visit {val}");
    let imp = match guarded(|| Data::deserialize(ValDe(val.to_string()))) {
        Err(_) => "panic".to_string(),
        Ok(Ok(x)) => cell_wire(&x),
        Ok(Err(_)) => "invalid".to_string(),
    };
    // the model's `Val` has one string form: `S:`/`sb:` (owned / borrowed string) are `s:` on the wire
    let mval = if let Some(x) = val.strip_prefix("S:").or(val.strip_prefix("sb:")) { format!("s:{x}") } else { val.to_string() };
    let model = drv.ask(&format!("visit {mval}"));
    let expect = if val == "unit" || val == "none" {
        "_".to_string()
    } else if val == "nt" {
        "invalid".to_string()
    } else {
        let (k, x) = val.split_once(':').unwrap();
        match k {
            "b" => format!("B:{x}"),
            "i8" | "i16" | "i32" | "i64" => format!("I:{x}"),
            "u8" | "u16" | "u32" | "u64" => format!("I:{}", x.parse::<u64>().unwrap() as i64),
            "f32" => format!("F:{:016x}", (f32::from_bits(u32::from_str_radix(x, 16).unwrap()) as f64).to_bits()),
            "f64" => format!("F:{x}"),
            "s" | "S" | "sb" => format!("S:{x}"),
            "c" => format!("S:{}", hex(char::from_u32(x.parse().unwrap()).unwrap().to_string().as_bytes())),
            _ => "invalid".to_string(),
        }
    };
    rep.case(&text, true);
    rep.count("visit.calls");
    let sig = format!("visit:{}", val.split(':').next().unwrap());
    if imp != expect {
        rep.fail("impl_vs_spec", &sig, &text, &imp, &model, &expect);
    }
    if imp != model {
        rep.fail("impl_vs_model", &sig, &text, &imp, &model, &expect);
    }
    if model != expect && imp == expect {
        rep.fail("model_vs_spec", &sig, &text, &imp, &model, &expect);
    }
}

fn gen_visit(rng: &mut Rng) -> String {
    match rng.below(14) {
        0 => format!("b:{}", rng.below(2)),
        1 => format!("i8:{}", rng.next() as i8),
        2 => format!("i16:{}", rng.next() as i16),
        3 => format!("i32:{}", rng.next() as i32),
        4 => format!("i64:{}", gen_int(rng)),
        5 => format!("u8:{}", rng.next() as u8),
        6 => format!("u16:{}", rng.next() as u16),
        7 => format!("u32:{}", rng.next() as u32),
        8 => format!("u64:{}", *rng.pick(&[0u64, 1, i64::MAX as u64, i64::MAX as u64 + 1, u64::MAX, u64::MAX - 1]).max(&(rng.next() >> rng.below(64)))),
        9 => {
            let b = rng.next() as u32;
            // NaN payloads of the widening are not modelled: the canonical quiet NaN only
            let b = if f32::from_bits(b).is_nan() { 0x7FC00000 } else { b };
            format!("f32:{b:08x}")
        }
        10 => format!("f64:{:016x}", gen_float(rng).to_bits()),
        11 => format!("{}:{}", rng.pick(&["s", "S", "sb"]), hex(rng.pick(&STRING_POOL).as_bytes())),
        12 => format!("c:{}", *rng.pick(&['a', 'é', ' ', '\u{1F600}', '0']) as u32),
        _ => rng.pick(&["unit", "none", "nt", "y:6162", "y:-"]).to_string(),
    }
}

/// the four i64/f64 helpers in the canonical text of the driver's `helper` reply
fn helper_model_case(d: &Data, pos: (u32, u32), drv: &mut Driver, rep: &mut Report) {
    let f64c = |v: f64| if v.is_nan() { "nan".to_string() } else { format!("{:016x}", v.to_bits()) };
    let dz = |r: Result<Result<String, DeError>, String>| match r {
        Err(_) => "panic".to_string(),
        Ok(Ok(s)) => s,
        Ok(Err(e)) => err_canon(&e),
    };
    let a = dz(guarded(|| calamine::deserialize_as_i64_or_none(d.to_cell_deserializer(pos)).map(|o| o.map_or("none".into(), |v| format!("some:{v}")))));
    let b = dz(guarded(|| {
        calamine::deserialize_as_i64_or_string(d.to_cell_deserializer(pos)).map(|o| match o {
            Ok(v) => format!("ok:{v}"),
            Err(t) => format!("err:{}", hex(t.as_bytes())),
        })
    }));
    let c = dz(guarded(|| calamine::deserialize_as_f64_or_none(d.to_cell_deserializer(pos)).map(|o| o.map_or("none".into(), |v| format!("some:{}", f64c(v))))));
    let e = dz(guarded(|| {
        calamine::deserialize_as_f64_or_string(d.to_cell_deserializer(pos)).map(|o| match o {
            Ok(v) => format!("ok:{}", f64c(v)),
            Err(t) => format!("err:{}", hex(t.as_bytes())),
        })
    }));
    let imp = format!("{a} {b} {c} {e}");
    // what the model takes as parameters (its DataConv.Std): float text, atoi_simd, fast_float2 — measured on the real accessors
    let mut ents: Vec<String> = vec![];
    match d {
        Data::Float(v) => ents.push(format!("f{:016x}={}", v.to_bits(), hex(v.to_string().as_bytes()))),
        Data::DateTime(v) => ents.push(format!("f{:016x}={}", v.as_f64().to_bits(), hex(v.as_f64().to_string().as_bytes()))),
        Data::String(s) | Data::DateTimeIso(s) | Data::DurationIso(s) => {
            let probe = Data::String(s.clone());
            ents.push(format!("a{}={}", hex(s.as_bytes()), probe.as_i64().map_or("x".to_string(), |v| v.to_string())));
            ents.push(format!("g{}={}", hex(s.as_bytes()), probe.as_f64().map_or("x".to_string(), |v| format!("{:016x}", v.to_bits()))));
        }
        _ => {}
    }
    let text = format!("helper {} {},{}", cell_wire(d), pos.0, pos.1);
    let model = drv.ask(&format!("{text} {}", if ents.is_empty() { "-".to_string() } else { ents.join(";") }));
    rep.count("helpers.model");
    if imp != model {
        rep.fail("impl_vs_model", "helpers:i64_f64", &text, &imp, &model, "");
    }
}

/// family `helpers`: the `deserialize_as_*_or_none` / `_or_string` functions of lib.rs, called on the cell
/// deserializer. Documented contract: the cell is rebuilt as `Data` (through `deserialize_any`), the named
/// `as_*` accessor is applied, the call never fails — except that an error cell is a `CellError` at its position.
/// (implementation-level oracle only: the accessors themselves belong to datatype.rs and are not modelled here)
fn helpers_case(d: &Data, pos: (u32, u32), rep: &mut Report) {
    let text = format!("helpers {} {},{}", cell_wire(d), pos.0, pos.1);
    let rebuilt = if matches!(d, Data::Error(_)) { Data::Empty } else { o_data(d) };
    macro_rules! one {
        ($name:literal, $f:path, $acc:ident, $or_string:expr) => {{
            let got = match guarded(|| $f(d.to_cell_deserializer(pos))) {
                Err(_) => "panic".to_string(),
                Ok(Err(e)) => err_canon(&e),
                Ok(Ok(v)) => format!("{:?}", v),
            };
            let want = if let Data::Error(e) = d {
                format!("!CE:{}:{}:{}", kind_index(e), pos.0, pos.1)
            } else {
                match guarded(|| rebuilt.$acc()) {
                    Err(_) => "panic".to_string(),
                    Ok(v) => {
                        if $or_string {
                            format!("{:?}", v.ok_or_else(|| rebuilt.to_string()))
                        } else {
                            format!("{:?}", v)
                        }
                    }
                }
            };
            rep.count(concat!("helpers.", $name));
            if got != want {
                rep.fail("impl_vs_spec", concat!("helpers:", $name), &text, &got, "", &want);
            }
        }};
    }
    one!("i64_or_none", calamine::deserialize_as_i64_or_none, as_i64, false);
    one!("i64_or_string", calamine::deserialize_as_i64_or_string, as_i64, true);
    one!("f64_or_none", calamine::deserialize_as_f64_or_none, as_f64, false);
    one!("f64_or_string", calamine::deserialize_as_f64_or_string, as_f64, true);
    one!("date_or_none", calamine::deserialize_as_date_or_none, as_date, false);
    one!("date_or_string", calamine::deserialize_as_date_or_string, as_date, true);
    one!("time_or_none", calamine::deserialize_as_time_or_none, as_time, false);
    one!("time_or_string", calamine::deserialize_as_time_or_string, as_time, true);
    one!("duration_or_none", calamine::deserialize_as_duration_or_none, as_duration, false);
    one!("duration_or_string", calamine::deserialize_as_duration_or_string, as_duration, true);
    one!("datetime_or_none", calamine::deserialize_as_datetime_or_none, as_datetime, false);
    one!("datetime_or_string", calamine::deserialize_as_datetime_or_string, as_datetime, true);
    rep.case(&text, !matches!(d, Data::Empty));
}

// ------------------------------------------------------------------------------------------------
// generators
// ------------------------------------------------------------------------------------------------

const HEADER_POOL: [&str; 22] = [
    "id", "name", "flag", "score", "note", " id", "name ", "  flag\t", "", " ", "a", "b", "a", "A", "x y", "\u{a0}b", "b\u{2003}", "é", "12",
    "1.5", "true", "\u{feff}id",
];

const STRING_POOL: [&str; 40] = [
    "", "a", " a ", "abc", "TRUE", "true", "True", "FALSE", "false", "False", "tRUE", "0", "12", "-5", "+7", "+", "-", "007", "1.5", "1e3",
    "-0", "255", "256", "-129", "65536", "4294967296", "9223372036854775807", "9223372036854775808", "-9223372036854775809", "99999999999999999999",
    "nan", "inf", "-inf", "0x10", " 1", "1 ", "é", "ß", "\u{1F600}", "3.4028236e38",
];

fn gen_float(rng: &mut Rng) -> f64 {
    let specials: [f64; 30] = [
        0.0,
        -0.0,
        1.0,
        -1.0,
        1.5,
        -125.7,
        127.5,
        128.0,
        -128.9,
        -129.0,
        255.9,
        256.0,
        65535.5,
        2147483647.9,
        2147483648.0,
        -2147483649.0,
        4294967295.5,
        9007199254740993.0,
        9.223372036854775807e18,
        -9.3e18,
        1.8446744073709552e19,
        1e300,
        -1e300,
        f64::NAN,
        f64::INFINITY,
        f64::NEG_INFINITY,
        f64::MIN_POSITIVE,
        5e-324,
        3.4028235677973366e38, // f32::MAX + half ulp
        1.401298464324817e-45, // f32 min subnormal
    ];
    match rng.below(10) {
        0..=5 => *rng.pick(&specials),
        6 => f64::from_bits(rng.next()),
        7 => (rng.below(2000) as f64 - 1000.0) / 8.0,
        8 => {
            // around the f32 rounding boundaries
            let base = f32::from_bits(rng.next() as u32) as f64;
            let ulp = (base.abs() * 2f64.powi(-24)).max(f64::MIN_POSITIVE);
            base + ulp * (*rng.pick(&[-1.0, -0.5, 0.0, 0.5, 1.0, 0.5000001]))
        }
        _ => f64::from_bits((rng.next() & 0x800F_FFFF_FFFF_FFFF) | ((rng.range(1023 - 160, 1023 + 140)) << 52)),
    }
}

fn gen_int(rng: &mut Rng) -> i64 {
    let specials: [i64; 22] = [
        0,
        1,
        -1,
        12,
        127,
        128,
        -128,
        -129,
        255,
        256,
        65535,
        65536,
        i32::MAX as i64,
        i32::MAX as i64 + 1,
        u32::MAX as i64,
        u32::MAX as i64 + 1,
        16777217,
        9007199254740993,
        -9007199254740993,
        i64::MAX,
        i64::MIN,
        i64::MAX - 512,
    ];
    match rng.below(4) {
        0 | 1 => *rng.pick(&specials),
        2 => rng.next() as i64,
        _ => rng.below(200) as i64 - 100,
    }
}

fn gen_cell(rng: &mut Rng) -> Data {
    if rng.chance(1, 40) {
        return gen_midpoint_cell(rng).0;
    }
    match rng.below(20) {
        0..=2 => Data::Int(gen_int(rng)),
        3..=5 => Data::Float(gen_float(rng)),
        6..=9 => Data::String(rng.pick(&STRING_POOL).to_string()),
        10 => Data::Bool(rng.chance(1, 2)),
        11 => Data::DateTime(ExcelDateTime::new(
            if rng.chance(1, 3) { 0.0 } else { gen_float(rng) },
            if rng.chance(1, 2) { ExcelDateTimeType::DateTime } else { ExcelDateTimeType::TimeDelta },
            rng.chance(1, 2),
        )),
        12 => Data::DateTimeIso("2021-03-04T05:06:07".into()),
        13 => Data::DurationIso("PT1H2M".into()),
        14 | 15 => Data::Error(rng.pick(&KINDS).clone()),
        _ => Data::Empty,
    }
}

fn gen_header_cell(rng: &mut Rng) -> Data {
    match rng.below(24) {
        0..=17 => Data::String(rng.pick(&HEADER_POOL).to_string()),
        18 => Data::Int(12),
        19 => Data::Float(1.5),
        20 => Data::Bool(true),
        21 => Data::Empty,
        22 => Data::Error(rng.pick(&KINDS).clone()),
        _ => gen_cell(rng),
    }
}

fn pad(rng: &mut Rng, s: &str) -> String {
    let ws = [" ", "\t", "\n", "\u{a0}", "\u{3000}", "  "];
    let mut out = String::new();
    if rng.chance(1, 3) {
        out.push_str(*rng.pick(&ws));
    }
    out.push_str(s);
    if rng.chance(1, 3) {
        out.push_str(*rng.pick(&ws));
    }
    out
}

fn gen_case(rng: &mut Rng) -> Case {
    let h = if rng.chance(1, 40) { 0 } else { rng.range(1, 6) as usize };
    let w = if rng.chance(1, 40) { 0 } else { rng.range(1, 5) as usize };
    let origins: [u32; 9] = [0, 0, 1, 2, 7, 1000, (1 << 20) - 1, 65535, u32::MAX - 10];
    let pick_origin = |rng: &mut Rng, span: usize| -> u32 {
        if rng.chance(1, 4) {
            // hug the upper end of u32
            u32::MAX - (span as u32 - 1) - rng.below(3) as u32
        } else {
            *rng.pick(&origins)
        }
    };
    let dims = if h == 0 || w == 0 { None } else { Some((pick_origin(rng, h), pick_origin(rng, w), h, w)) };
    let with_rec_headers = rng.chance(1, 3);
    let mut cells = vec![];
    if let Some((_, _, h, w)) = dims {
        let mut rec: Vec<&str> = REC_FIELDS.iter().map(|f| f.0).collect();
        rng.shuffle(&mut rec);
        for i in 0..h {
            for j in 0..w {
                let hdr_like = i == 0 && rng.chance(5, 6);
                cells.push(if hdr_like {
                    if with_rec_headers && rng.chance(4, 5) {
                        Data::String(pad(rng, rec[j % 5]))
                    } else {
                        gen_header_cell(rng)
                    }
                } else if with_rec_headers && i > 0 && rng.chance(3, 4) {
                    // values that mostly convert to the field types of `Rec`
                    match rng.below(8) {
                        0 => Data::Int(gen_int(rng)),
                        1 => Data::Float(gen_float(rng)),
                        2 => Data::String(rng.pick(&["12", "true", "False", "x", "1.5", ""]).to_string()),
                        3 => Data::Bool(rng.chance(1, 2)),
                        4 => Data::Empty,
                        _ => gen_cell(rng),
                    }
                } else {
                    gen_cell(rng)
                });
            }
        }
    }
    // header strings of the first row, as the documented conversion gives them
    let hdrs: Vec<String> = if dims.is_some() {
        cells[..w].iter().map(|d| if matches!(d, Data::Error(_)) { "#".to_string() } else { o_text(d) }).collect()
    } else {
        vec![]
    };
    let cfg = match rng.below(10) {
        0..=2 => Cfg::None,
        3..=5 => Cfg::All,
        _ => {
            let k = rng.below(5) as usize;
            let mut names = vec![];
            for _ in 0..k {
                let base = if !hdrs.is_empty() && rng.chance(9, 10) {
                    rng.pick(&hdrs).trim().to_string()
                } else {
                    rng.pick(&["zz", "id", "", "name", "a b"]).to_string()
                };
                names.push(pad(rng, &base));
            }
            Cfg::Custom(names)
        }
    };
    let ops: Vec<Op> = match rng.below(10) {
        0..=3 => vec![Op::Next; h + 1],
        4 => vec![Op::Next; rng.below(9) as usize],
        _ => {
            // a random mixture of consumption steps, until the rows are (probably) used up
            let mut ops = vec![];
            for _ in 0..rng.range(1, 6) {
                ops.push(match rng.below(16) {
                    0..=3 => Op::Next,
                    4..=6 => Op::Nth(rng.below(4) as usize),
                    7..=8 => Op::Skip(rng.below(4) as usize),
                    9..=10 => Op::StepBy(rng.range(1, 3) as usize, rng.below(4) as usize),
                    11 => Op::Take(rng.below(4) as usize),
                    12 => Op::Last,
                    13 => Op::Count,
                    14 => Op::Nth(*rng.pick(&[7usize, 4294967295, 4294967296, usize::MAX])),
                    _ => Op::Hint,
                });
            }
            if rng.chance(1, 2) {
                ops.push(Op::Next);
            }
            ops
        }
    };
    let sched: Vec<String> = if rng.chance(1, 3) {
        vec!["any".into()]
    } else {
        (0..rng.range(1, 4)).map(|_| rng.pick(&TARGETS).to_string()).collect()
    };
    let mut map = rng.chance(1, 2);
    let mut cfg = cfg;
    if rng.chance(1, 10) {
        // with_deserialize_headers::<RecRow>(): a struct record type (fields from FIELD_SETS) or not a struct
        if rng.chance(3, 4) {
            let i = rng.below(FIELD_SETS.len() as u64) as usize;
            cfg = Cfg::Wdh(Some(i));
            map = true;
            if let Some((_, _, _, w)) = dims {
                let fs = FIELD_SETS[i];
                for j in 0..w {
                    if !fs.is_empty() && rng.chance(2, 3) {
                        let nm = fs[rng.below(fs.len() as u64) as usize];
                        cells[j] = Data::String(pad(rng, nm));
                    }
                }
            }
        } else {
            cfg = Cfg::Wdh(None);
        }
    }
    let calls: Vec<bool> = if rng.chance(1, 8) { (0..rng.range(1, 3)).map(|_| rng.chance(1, 2)).collect() } else { vec![] };
    Case { dims, cells, cfg, calls, map, ops, sched }
}

/// wide ranges: 65..300 columns (and the boundary widths), header names from a small pool so that many
/// columns carry the same name after trimming; custom selections name the duplicated headers; the data cell of
/// column `c` in data row `i` is `Int(1000*i + c)` (mostly), so a wrong column is visible in the value
fn gen_wide_case(rng: &mut Rng) -> Case {
    let w = match rng.below(8) {
        0 => 63,
        1 => 64,
        2 => 65,
        3 => 66,
        4 => 300,
        _ => rng.range(65, 300) as usize,
    };
    let h = rng.range(2, 3) as usize;
    let names = ["x", "y", "id", "", "a b", "Name", "k", "v"];
    let nn = rng.range(2, names.len() as u64) as usize;
    let mut cells = vec![];
    for j in 0..w {
        cells.push(match rng.below(12) {
            0 => Data::Int(j as i64 % 7),
            1 => Data::Empty,
            2 => Data::String(format!("u{j}")),
            _ => {
                let nm = names[rng.below(nn as u64) as usize];
                Data::String(pad(rng, nm))
            }
        });
    }
    for i in 1..h {
        for j in 0..w {
            cells.push(match rng.below(40) {
                0 => Data::Empty,
                1 => Data::Error(rng.pick(&KINDS).clone()),
                _ => Data::Int(1000 * i as i64 + j as i64),
            });
        }
    }
    let hdrs: Vec<String> = cells[..w].iter().map(o_text).collect();
    let k = rng.range(1, 4) as usize;
    let mut sel = vec![];
    for _ in 0..k {
        let base = if rng.chance(19, 20) { rng.pick(&hdrs).trim().to_string() } else { "zz".to_string() };
        sel.push(pad(rng, &base));
    }
    let origins: [u32; 4] = [0, 3, 65535, u32::MAX - 400];
    Case {
        dims: Some((*rng.pick(&origins), *rng.pick(&origins), h, w)),
        cells,
        cfg: if rng.chance(9, 10) { Cfg::Custom(sel) } else { Cfg::All },
        calls: vec![],
        map: rng.chance(1, 2),
        ops: vec![Op::Next; h],
        sched: vec!["any".into()],
    }
}

/// wide custom selections over sparse rows: 17..64 selected columns forming a contiguous span of the sheet's
/// columns, taken in order / reversed / rotated / randomly permuted / with one column left out or repeated; rows are
/// mostly `Empty` with long empty runs and a few values (`Int(1000*row+column)`), headers are unique (`c<j>`)
fn gen_span_case(rng: &mut Rng) -> Case {
    let w = rng.range(20, 100) as usize;
    let h = rng.range(2, 4) as usize;
    let len = rng.range(17, 64.min(w as u64)) as usize;
    let lo = if rng.chance(1, 2) { 0 } else { rng.below((w - len) as u64 + 1) as usize };
    let mut sel: Vec<usize> = (lo..lo + len).collect();
    match rng.below(8) {
        0 => {}
        1 | 2 => sel.reverse(),
        3 => {
            let k = rng.range(1, len as u64 - 1) as usize;
            sel.rotate_left(k)
        }
        4 | 5 => rng.shuffle(&mut sel),
        6 => {
            sel.reverse();
            let k = rng.below(sel.len() as u64) as usize;
            sel.remove(k); // a gap
        }
        _ => {
            let k = rng.below(len as u64) as usize;
            sel.swap(0, k)
        }
    }
    let mut cells: Vec<Data> = (0..w).map(|j| Data::String(format!("c{j}"))).collect();
    for i in 1..h {
        // sparse row: values with probability p, then one or two long empty runs punched in
        let p = *rng.pick(&[1u64, 2, 4, 10]);
        let mut row: Vec<Data> = (0..w)
            .map(|j| {
                if rng.chance(p, 20) {
                    if rng.chance(1, 12) {
                        Data::Error(rng.pick(&KINDS).clone())
                    } else {
                        Data::Int(1000 * i as i64 + j as i64)
                    }
                } else {
                    Data::Empty
                }
            })
            .collect();
        for _ in 0..rng.below(3) {
            let a = rng.below(w as u64) as usize;
            let b = (a + rng.range(16, 40) as usize).min(w);
            for c in row[a..b].iter_mut() {
                *c = Data::Empty;
            }
        }
        cells.extend(row);
    }
    let names: Vec<String> = sel
        .iter()
        .map(|j| {
            let n = format!("c{j}");
            if rng.chance(1, 6) {
                pad(rng, &n)
            } else {
                n
            }
        })
        .collect();
    Case {
        dims: Some((*rng.pick(&[0u32, 5, 65535]), *rng.pick(&[0u32, 2, u32::MAX - 120]), h, w)),
        cells,
        cfg: Cfg::Custom(names),
        calls: vec![],
        map: rng.chance(5, 6),
        ops: vec![Op::Next; h],
        sched: vec![rng.pick(&["any", "option", "i64"]).to_string()],
    }
}

/// 2-3 ranges to be deserialized with ONE builder value: the later ranges have the first one's header row
/// re-padded (equal after trimming, different bytes), permuted, or regenerated; same configuration
fn gen_reuse_sequence(rng: &mut Rng) -> Vec<Case> {
    let mut first = loop {
        let c = gen_case(rng);
        if c.dims.is_some() && c.h() >= 2 && !matches!(c.cfg, Cfg::Wdh(_)) {
            break c;
        }
    };
    let w = first.w();
    // headers that are texts (so that re-padding is possible)
    for j in 0..w {
        if !matches!(first.cells[j], Data::String(_)) || rng.chance(1, 2) {
            let nm = *rng.pick(&["a", "b", "id", "name", "flag", "score", "note", "x y"]);
            first.cells[j] = Data::String(pad(rng, nm));
        }
    }
    let hdrs: Vec<String> = first.cells[..w].iter().map(o_text).collect();
    if rng.chance(4, 5) {
        let k = rng.range(1, 4) as usize;
        first.cfg = Cfg::Custom(
            (0..k)
                .map(|_| {
                    let b = rng.pick(&hdrs).trim().to_string();
                    pad(rng, &b)
                })
                .collect(),
        );
    }
    first.map = rng.chance(4, 5);
    first.calls = vec![];
    first.ops = vec![Op::Next; first.h()];
    let mut seq = vec![first.clone()];
    for _ in 0..rng.range(1, 2) {
        let mut c = first.clone();
        let h = rng.range(2, 4) as usize;
        let (sr, sc, _, _) = first.dims.unwrap();
        c.dims = Some((sr.min(u32::MAX - 8), sc, h, w));
        let mut hdr: Vec<Data> = match rng.below(8) {
            // equal after trimming, different padding
            0..=4 => hdrs.iter().map(|t| Data::String(pad(rng, t.trim()))).collect(),
            // identical
            5 => first.cells[..w].to_vec(),
            // other names
            _ => (0..w).map(|_| gen_header_cell(rng)).collect(),
        };
        if rng.chance(1, 4) {
            rng.shuffle(&mut hdr);
        }
        c.cells = hdr;
        for _ in 0..(h - 1) * w {
            c.cells.push(if rng.chance(1, 6) { Data::Empty } else { gen_cell(rng) });
        }
        c.ops = vec![Op::Next; h];
        if !matches!(c.cfg, Cfg::Custom(_)) {
            c.cfg = if rng.chance(1, 2) { Cfg::All } else { Cfg::None };
        }
        seq.push(c);
    }
    seq
}

/// an in-place edit of ONE range value between two deserializations
#[derive(Clone, Debug)]
enum Mut {
    /// `range.set_value((abs row, abs col), v)` (inside the rectangle)
    SetValue(usize, usize, Data),
    /// `range[(r, c)] = v` (`IndexMut<(usize, usize)>`)
    Index2(usize, usize, Data),
    /// `range[r][c] = v` (`IndexMut<usize>`: the mutable row slice)
    RowSlice(usize, usize, Data),
    /// `range[r].swap(a, b)`
    RowSwap(usize, usize, usize),
    /// `range = range.clone()`
    CloneIt,
}

impl Mut {
    fn wire(&self) -> String {
        match self {
            Mut::SetValue(r, c, v) => format!("sv,{r},{c},{}", cell_wire(v)),
            Mut::Index2(r, c, v) => format!("ix,{r},{c},{}", cell_wire(v)),
            Mut::RowSlice(r, c, v) => format!("row,{r},{c},{}", cell_wire(v)),
            Mut::RowSwap(r, a, b) => format!("swap,{r},{a},{b}"),
            Mut::CloneIt => "clone".to_string(),
        }
    }
    fn parse(w: &str) -> Mut {
        let p: Vec<&str> = w.split(',').collect();
        let n = |i: usize| p[i].parse::<usize>().unwrap();
        match p[0] {
            "sv" => Mut::SetValue(n(1), n(2), cell_parse(p[3])),
            "ix" => Mut::Index2(n(1), n(2), cell_parse(p[3])),
            "row" => Mut::RowSlice(n(1), n(2), cell_parse(p[3])),
            "swap" => Mut::RowSwap(n(1), n(2), n(3)),
            "clone" => Mut::CloneIt,
            x => panic!("bad mutation {x}"),
        }
    }
    /// the same edit on the description (relative coordinates)
    fn apply_desc(&self, c: &mut Case) {
        let w = c.w();
        match self {
            Mut::SetValue(r, col, v) | Mut::Index2(r, col, v) | Mut::RowSlice(r, col, v) => c.cells[r * w + col] = v.clone(),
            Mut::RowSwap(r, a, b) => c.cells.swap(r * w + a, r * w + b),
            Mut::CloneIt => {}
        }
    }
    fn apply_impl(&self, range: &mut Range<Data>) {
        let (sr, sc) = range.start().unwrap();
        match self {
            Mut::SetValue(r, c, v) => range.set_value((sr + *r as u32, sc + *c as u32), v.clone()),
            Mut::Index2(r, c, v) => range[(*r, *c)] = v.clone(),
            Mut::RowSlice(r, c, v) => range[*r][*c] = v.clone(),
            Mut::RowSwap(r, a, b) => range[*r].swap(*a, *b),
            Mut::CloneIt => *range = range.clone(),
        }
    }
}

fn mutate_wire(case: &Case, muts: &[Mut]) -> String {
    format!("mutate|{}|{}", case.wire(), muts.iter().map(|m| m.wire()).collect::<Vec<_>>().join("|"))
}

fn gen_mutate_history(rng: &mut Rng) -> (Case, Vec<Mut>) {
    let mut case = loop {
        let c = gen_case(rng);
        if c.dims.is_some() && c.h() >= 2 && !matches!(c.cfg, Cfg::Wdh(_)) {
            break c;
        }
    };
    let (h, w) = (case.h(), case.w());
    // a text header row, a header-reading configuration most of the time
    for j in 0..w {
        if !matches!(case.cells[j], Data::String(_)) || rng.chance(1, 2) {
            let nm = *rng.pick(&["a", "b", "id", "name", "flag", "x y"]);
            case.cells[j] = Data::String(pad(rng, nm));
        }
    }
    case.calls = vec![];
    if case.cfg == Cfg::None && rng.chance(3, 4) {
        case.cfg = Cfg::All;
    }
    if let Cfg::Custom(_) = case.cfg {
        let hdrs: Vec<String> = case.cells[..w].iter().map(o_text).collect();
        let k = rng.range(1, 3) as usize;
        case.cfg = Cfg::Custom(
            (0..k)
                .map(|_| {
                    let b = rng.pick(&hdrs).trim().to_string();
                    pad(rng, &b)
                })
                .collect(),
        );
    }
    case.map = rng.chance(3, 4);
    case.ops = vec![Op::Next; h];
    let mut muts = vec![];
    for _ in 0..rng.range(1, 4) {
        let r = if rng.chance(3, 4) { 0 } else { rng.below(h as u64) as usize };
        let c = rng.below(w as u64) as usize;
        let v = if r == 0 && rng.chance(5, 6) {
            let nm = *rng.pick(&["a", "b", "id", "name", "zz", "flag", ""]);
            Data::String(pad(rng, nm))
        } else {
            gen_cell(rng)
        };
        muts.push(match rng.below(9) {
            0 | 1 => Mut::SetValue(r, c, v),
            2 | 3 => Mut::Index2(r, c, v),
            4 | 5 => Mut::RowSlice(r, c, v),
            6 | 7 => Mut::RowSwap(r, c, rng.below(w as u64) as usize),
            _ => Mut::CloneIt,
        });
    }
    (case, muts)
}

/// family `mutate`: ONE range value is deserialized, edited in place through one of the mutation APIs, and
/// deserialized again. Deserialization is a function of the range's current cells: every stage is compared with
/// the model and the oracle evaluated on the cells as they are then (neither has any state to go stale).
fn mutate_family(case0: &Case, muts: &[Mut], variant: u64, drv: &mut Driver, rep: &mut Report) {
    let text = mutate_wire(case0, muts);
    rep.case(&text, true);
    rep.count("mutate.histories");
    let run = |case0: &Case, muts: &[Mut]| -> Result<Vec<(Case, String)>, String> {
        guarded(|| {
            let mut case = case0.clone();
            let mut range = case.range();
            let mut out = vec![];
            for k in 0..=muts.len() {
                if k > 0 {
                    muts[k - 1].apply_impl(&mut range);
                    muts[k - 1].apply_desc(&mut case);
                }
                setup_case(&case, variant);
                let obs = match &case.cfg {
                    Cfg::Custom(names) => drive(guarded(|| RangeDeserializerBuilder::with_headers(names).from_range::<Data, RecRow>(&range)), &case.ops),
                    Cfg::None => drive(guarded(|| RangeDeserializerBuilder::new().has_headers(false).from_range::<Data, RecRow>(&range)), &case.ops),
                    _ => drive(guarded(|| range.deserialize::<RecRow>()), &case.ops),
                };
                out.push((case.clone(), obs));
            }
            out
        })
    };
    let stages = match run(case0, muts) {
        Ok(s) => s,
        Err(m) => {
            rep.fail("impl_vs_spec", "mutate:panic", &text, &m, "", "no panic");
            return;
        }
    };
    for (k, (case, obs)) in stages.iter().enumerate() {
        rep.count("mutate.deserializations");
        for f in compare(case, obs.clone(), drv) {
            // shortest history: drop earlier edits while the same failure persists at the last stage
            let mut keep: Vec<Mut> = muts[..k].to_vec();
            let mut i = 0;
            while i < keep.len() {
                let mut cand = keep.clone();
                cand.remove(i);
                let still = run(case0, &cand).ok().and_then(|st| st.last().cloned()).map_or(false, |(c, o)| {
                    compare(&c, o, drv).iter().any(|g| g.kind == f.kind && g.sig == f.sig)
                });
                if still {
                    keep = cand;
                } else {
                    i += 1;
                }
            }
            let sig = if k == 0 { f.sig.clone() } else { format!("mutate:{}", f.sig) };
            rep.fail(f.kind, &sig, &mutate_wire(case0, &keep), &f.imp, &f.model, &f.expect);
        }
    }
}

/// family `huge`: ranges wider than 65536 columns (2 rows; a handful of named header cells and values at
/// columns 2, 3, w-1 and — where they exist — 65536 and 65539, an error cell at 65539 / w-2). Rebuilt from `(w, k)`.
/// Compared impl vs oracle only: the Lean model has no width limit but its list-based rows make 70 000-column
/// rows too slow to run.
fn huge_case(w: usize, k: usize) -> Case {
    let mut cells = vec![Data::Empty; 2 * w];
    let mut names: Vec<(usize, &str)> = vec![(2, "a"), (3, "k"), (w - 1, "last"), (w - 2, "err")];
    if w > 65539 {
        names.push((65536, "z"));
        names.push((65539, "q"));
        names.push((65536 + 2, "a2"));
    }
    for (c, n) in &names {
        cells[*c] = Data::String(n.to_string());
        cells[w + *c] = Data::Int(*c as i64);
    }
    cells[w] = Data::Int(0);
    cells[w + 2] = Data::String("two".into());
    cells[w + w - 2] = Data::Error(CellErrorType::Num);
    if w > 65539 {
        cells[w + 65539] = Data::Error(CellErrorType::Ref);
    }
    let present = |n: &str| names.iter().any(|(_, x)| *x == n);
    let sel = |want: &[&str]| -> Cfg { Cfg::Custom(want.iter().filter(|n| present(n)).map(|n| n.to_string()).collect()) };
    let (cfg, map) = match k {
        0 => (sel(&["last", "z", "k", "a2"]), true),
        1 => (sel(&["k", "q", "last"]), false),
        2 => (sel(&["a", "last", "err"]), false),
        3 => (Cfg::None, false),
        4 => (Cfg::All, true),
        _ => (Cfg::All, false),
    };
    Case { dims: Some((7, 3, 2, w)), cells, cfg, calls: vec![], map, ops: vec![Op::Next; 2], sched: vec!["any".into()] }
}

fn huge_family(w: usize, k: usize, rep: &mut Report) {
    let text = format!("huge {w} {k}");
    let case = huge_case(w, k);
    rep.case(&text, true);
    rep.count("huge.cases");
    let imp = run_impl(&case, k as u64);
    let expect = run_oracle(&case);
    for sig in diff_sigs(&imp, &expect) {
        let clip = |s: &str| if s.len() > 4000 { format!("{}…{}", &s[..2000], &s[s.len() - 2000..]) } else { s.to_string() };
        rep.fail("impl_vs_spec", &format!("huge:{sig}"), &text, &clip(&imp), "(not run: impl vs oracle only)", &clip(&expect));
    }
}

fn seq_wire(seq: &[Case]) -> String {
    format!("reuse|{}", seq.iter().map(|c| c.wire()).collect::<Vec<_>>().join("|"))
}

/// observations of a sequence of ranges deserialized with one builder value (recording record type)
fn run_reuse_impl(seq: &[Case], variant: u64) -> Vec<String> {
    let ranges: Vec<Range<Data>> = seq.iter().map(|c| c.range()).collect();
    let mut out = vec![];
    match &seq[0].cfg {
        Cfg::Custom(names) => {
            let b = RangeDeserializerBuilder::with_headers(names);
            let b2 = b.clone();
            for (i, c) in seq.iter().enumerate() {
                setup_case(c, variant);
                // the clone taken before any use must behave like the original
                let bb = if variant % 3 == 2 && i == seq.len() - 1 { &b2 } else { &b };
                out.push(drive(guarded(|| bb.from_range::<Data, RecRow>(&ranges[i])), &c.ops));
            }
        }
        cfg => {
            let mut b = RangeDeserializerBuilder::new();
            b.has_headers(*cfg == Cfg::All);
            for (i, c) in seq.iter().enumerate() {
                // the builder is switched between the two header modes from range to range
                b.has_headers(c.cfg == Cfg::All);
                setup_case(c, variant);
                out.push(drive(guarded(|| b.from_range::<Data, RecRow>(&ranges[i])), &c.ops));
            }
        }
    }
    out
}

/// the derived struct through ONE `with_deserialize_headers::<Rec>()` builder vs a fresh builder per range
fn run_reuse_struct(seq: &[Case]) -> Option<(usize, String, String)> {
    let ranges: Vec<Range<Data>> = seq.iter().map(|c| c.range()).collect();
    let all = |b: &RangeDeserializerBuilder<'_, &str>, r: &Range<Data>| -> String {
        match guarded(|| b.from_range::<Data, Rec>(r)) {
            Err(_) => "panic".into(),
            Ok(Err(e)) => err_canon(&e),
            Ok(Ok(it)) => {
                let mut v = vec![];
                let mut it = it;
                loop {
                    match guarded(|| it.next()) {
                        Err(_) => {
                            v.push("panic".to_string());
                            break;
                        }
                        Ok(None) => break,
                        Ok(Some(Ok(r))) => v.push(rec_canon(&r)),
                        Ok(Some(Err(e))) => v.push(err_canon(&e)),
                    }
                }
                v.join(" | ")
            }
        }
    };
    let shared = RangeDeserializerBuilder::with_deserialize_headers::<Rec>();
    for (i, r) in ranges.iter().enumerate() {
        let got = all(&shared, r);
        let fresh = RangeDeserializerBuilder::with_deserialize_headers::<Rec>();
        let want = all(&fresh, r);
        if got != want {
            return Some((i, got, want));
        }
    }
    None
}

/// family `reuse`: one builder value, several ranges; every range must behave as with a fresh builder
/// (the builder is pure configuration: oracle and model are evaluated per range)
fn reuse_family(seq: &[Case], variant: u64, drv: &mut Driver, rep: &mut Report) {
    let text = seq_wire(seq);
    rep.case(&text, true);
    rep.count("reuse.sequences");
    rep.add("reuse.ranges", seq.len() as u64);
    let obs = match guarded(|| run_reuse_impl(seq, variant)) {
        Ok(o) => o,
        Err(m) => {
            rep.fail("impl_vs_spec", "reuse:panic", &text, &m, "", "no panic");
            return;
        }
    };
    for (i, c) in seq.iter().enumerate() {
        for f in compare(c, obs[i].clone(), drv) {
            // report the shortest prefix-free sequence that still shows it: drop earlier ranges while it persists
            let mut keep: Vec<Case> = seq[..=i].to_vec();
            let mut k = 0;
            while keep.len() > 1 && k < keep.len() - 1 {
                let mut cand = keep.clone();
                cand.remove(k);
                let o2 = guarded(|| run_reuse_impl(&cand, variant)).unwrap_or_default();
                let still = o2.last().map_or(false, |o| {
                    compare(cand.last().unwrap(), o.clone(), drv).iter().any(|g| g.kind == f.kind && g.sig == f.sig)
                });
                if still {
                    keep = cand;
                } else {
                    k += 1;
                }
            }
            let sig = if i == 0 { f.sig.clone() } else { format!("reuse:{}", f.sig) };
            rep.fail(f.kind, &sig, &seq_wire(&keep), &f.imp, &f.model, &f.expect);
        }
    }
    // struct field binding through a shared with_deserialize_headers builder
    let rec_seq: Vec<Case> = seq.to_vec();
    match guarded(|| run_reuse_struct(&rec_seq)) {
        Ok(None) => {}
        Ok(Some((i, got, want))) => {
            rep.fail("impl_vs_spec", "reuse:struct", &seq_wire(&seq[..=i]), &got, "", &format!("(fresh builder) {want}"));
        }
        Err(m) => rep.fail("impl_vs_spec", "reuse:panic", &text, &m, "", "no panic"),
    }
}

/// exact decimal text of `m * 2^e` (`e <= 0`, small enough for u128), optionally nudged by one unit in a
/// place three digits further right (`nudge` = -1, 0, +1)
fn decimal_of(m: u64, e: i32, nudge: i32) -> String {
    let k = (-e) as u32; // value = m * 5^k / 10^k
    let mut n: u128 = m as u128 * 5u128.pow(k);
    let mut digits = k;
    if nudge != 0 {
        n = n * 1000;
        digits += 3;
        n = if nudge > 0 { n + 1 } else { n - 1 };
    }
    let s = n.to_string();
    let s = if s.len() <= digits as usize { format!("{}{}", "0".repeat(digits as usize + 1 - s.len()), s) } else { s };
    let (a, b) = s.split_at(s.len() - digits as usize);
    if b.is_empty() {
        a.to_string()
    } else {
        format!("{a}.{b}")
    }
}

/// directed stream for single rounding: cells sitting on / next to the midpoint of two adjacent f32 (or f64)
/// values, as `Int` cells beyond 2^53 and as decimal strings. Converting through a wider intermediate
/// (`as f64 as f32`, parse as f64 then narrow) rounds twice and lands on the wrong neighbour.
fn gen_midpoint_cell(rng: &mut Rng) -> (Data, &'static str) {
    match rng.below(4) {
        0 | 1 => {
            // integer midpoint of adjacent f32 values in [2^54, 2^63): 24-bit significand, then the half bit
            let exp = rng.range(54, 62) as u32; // value in [2^exp, 2^(exp+1))
            let sig = (1u64 << 23) | (rng.next() & ((1 << 23) - 1));
            let mid = (sig << (exp - 23)) | (1u64 << (exp - 24));
            let f64_half_ulp = 1i64 << (exp - 53); // |d| <= this keeps the f64 reading on the midpoint
            let d = match rng.below(6) {
                0 => 0,
                1 => 1,
                2 => -1,
                3 => rng.range(1, f64_half_ulp as u64) as i64,
                4 => -(rng.range(1, f64_half_ulp as u64) as i64),
                _ => (rng.below(5) as i64 - 2) * f64_half_ulp,
            };
            let v = mid as i64 + d;
            let v = if rng.chance(1, 2) { v } else { -v };
            if rng.chance(1, 5) {
                (Data::String(v.to_string()), "f32")
            } else {
                (Data::Int(v), "f32")
            }
        }
        2 => {
            // integer midpoint of adjacent f64 values (i64 beyond 2^53)
            let exp = rng.range(54, 62) as u32;
            let sig = (1u64 << 52) | (rng.next() & ((1 << 52) - 1));
            let mid = (sig << (exp - 52)) | (1u64 << (exp - 53));
            let v = mid as i64 + (rng.below(3) as i64 - 1);
            let v = if rng.chance(1, 2) { v } else { -v };
            let t = *rng.pick(&["f64", "f64", "f32"]);
            if rng.chance(1, 4) {
                (Data::String(v.to_string()), t)
            } else {
                (Data::Int(v), t)
            }
        }
        _ => {
            // decimal string next to the midpoint of adjacent f32 values in [2^-8, 2^20)
            let exp = rng.range(0, 27) as i32 - 8;
            let sig = (1u64 << 23) | (rng.next() & ((1 << 23) - 1));
            let m = (sig << 1) | 1; // 25 bits: the midpoint
            let e = exp - 24;
            let text = if e <= 0 {
                decimal_of(m, e, rng.below(3) as i32 - 1)
            } else {
                ((m as u128) << e).to_string()
            };
            let text = if rng.chance(1, 4) { format!("-{text}") } else { text };
            (Data::String(text), "f32")
        }
    }
}

fn corpus() -> Vec<&'static str> {
    vec![
        // the minimal inputs of the findings (findings/C09.json): D04, D04 (underflow), D05, D05 (header row), D39, D39
        "de 0,0,1,1/I:1 N seq 0 any",
        "de 1,7,1,1/_ A map 2 any",
        "de 0,0,1,1/E:0 N seq 1 any",
        "de 0,0,1,2/I:1,E:1 A seq 0 any",
        "de 4294967295,0,1,1/S:61 A seq 1 any",
        "de 4294967294,0,2,1/_,B:1 A map 3 i64",
        // seeded C09-m4 (an `nth` override advancing the row position by n-1): positions after nth / skip / step_by
        "de 0,0,3,1/I:1,I:1,E:0 N seq n2 any",
        "de 0,0,3,1/I:1,I:1,E:0 N seq s2 any",
        "de 0,0,3,1/I:1,I:1,E:0 N seq t2:2 any",
        "de 20,3,7,2/S:6b,S:76,I:21,I:1,I:22,I:1,I:23,E:4,I:24,E:2,I:25,I:1,I:26,E:6 A seq s2,x,x,x,x i64,f64",
        "de 20,3,7,2/S:6b,S:76,I:21,I:1,I:22,I:1,I:23,E:4,I:24,E:2,I:25,I:1,I:26,E:6 C/76/6b map h,n0,n1,h,n2,x f64,i64",
        "de 20,3,7,2/S:6b,S:76,I:21,I:1,I:22,I:1,I:23,E:4,I:24,E:2,I:25,I:1,I:26,E:6 A seq t3:2,k1,c,l i64,f64",
        "de 4294967293,0,3,1/I:1,I:1,E:0 N seq n18446744073709551615,x any",
        // D04: three data rows, no headers: size_hint was (2,Some(2)) before, during and after
        "de 0,0,3,1/I:1,I:2,I:3 N seq 4 any",
        // D04: header-only range: size_hint underflowed (panic under overflow checks)
        "de 0,0,1,1/S:61 A seq 1 any",
        // D04: one data row under a header
        "de 0,0,2,1/S:61,I:1 A seq 2 any",
        // D05: error cell in the second column of the third row: reported with a stale row and the row's first column
        "de 5,2,3,2/I:1,I:1,I:1,I:1,I:1,E:0 N seq 3 any",
        "de 0,0,3,2/S:61,S:62,I:1,I:1,I:1,E:3 A map 2 any",
        // error cell in the header row
        "de 3,4,2,2/S:61,E:1,I:1,I:1 A seq 1 any",
        // header row is row u32::MAX
        "de 4294967295,0,1,1/S:61 A seq 1 any",
        "de 4294967294,4294967294,2,2/S:61,S:62,I:1,E:2 A seq 2 any",
        "de 4294967295,4294967295,1,1/E:6 N seq 2 any",
        // custom headers: trimmed match, first of duplicates, any order, not found
        "de 0,0,2,3/S:2061,S:61,S:62,I:1,I:2,I:3 C/6220/61 seq 1 any",
        "de 0,0,2,3/S:61,S:62,S:63,I:1,I:2,I:3 C/63/7a7a/7979 seq 1 any",
        "de 0,0,2,2/I:12,F:3ff8000000000000,I:1,I:2 C/312e35/3132 map 1 any",
        // map mode skips empty cells; without headers a map request falls back to a sequence
        "de 1,1,2,3/S:61,S:62,S:63,_,I:2,_ A map 1 any",
        "de 1,1,2,3/S:61,S:62,S:63,_,I:2,_ N map 2 any",
        // empty range
        "de E A seq 1 any",
        "de E N map 1 any",
        "de E C/61 seq 1 any",
        // conversions through the schedule
        "de 0,0,1,4/F:c05f400000000000,S:54525545,_,I:-1 N seq 1 i8,bool,option,u8",
    ]
}

fn main() {
    let args = Args::parse();
    let mut drv = Driver::spawn(&args.driver);
    let mut rep = Report::new(
        "C09",
        "random Range<Data> (origin from {0,1,2,7,1000,65535,2^20-1,2^32-11} or hugging u32::MAX; 0-6 rows x 0-5 cols; all Data \
         variants incl. error cells; header rows with duplicate / padded / empty / non-string names) x header config (none / all / \
         custom: subsets of the trimmed header texts in any order with whitespace padding, repeated, or absent names) x record shape \
         (seq family: any/seq/tuple/…; map family: map/struct) x cyclic schedule of 1-4 cell targets out of all 29 deserialize_* \
         methods x consumption history (either height+1 / 0-8 calls to next, or a random mixture of 1-7 steps out of next, nth(n), by_ref().skip(k).next(), by_ref().step_by(k).take(m), by_ref().take(m), by_ref().last(), by_ref().count(), size_hint only; n up to usize::MAX; on the model side nth is the model's nth (= n+1 next steps, theorem nth_eq_iterate_next) and the adaptors are mapped to the next/nth sequences std performs: skip(k).next() = nth(k), step_by(k) = nth(0) then nth(k-1), take/last/count = repeated next); a recording Deserialize impl observes the exact visit_seq/visit_map event stream (values seen before the first \
         failure + the error) and size_hint before/after every step; compared impl vs Lean model vs independent \
         oracle. Family derive: the same ranges through Vec<Data>, HashMap<String,Data>, (String,Option<f64>,bool) and a derived \
         struct with Option fields (with_deserialize_headers) against an expectation computed from the description. Every 64th random case is a wide range (63..300 columns, header names from a pool of 2-8 names with random padding => many duplicates after trimming, custom selections naming them, data cell = 1000*row+column). Three random cases in 64 select 17-64 columns forming a contiguous span of a 20-100 column sheet in sheet order / reversed / rotated / shuffled / with a gap, over sparse rows (values with probability 5-50 %, plus 0-2 empty runs of 16-40 cells), mostly through the map path. One case in 8 builds its builder by a call sequence: constructor (new / has_headers / with_headers / with_deserialize_headers) followed by 1-3 has_headers(b) calls (also on a clone); expected and model: the last header-mode call wins (builderCalls, theorem builder_last_call_wins). Family mutate: ONE range value is deserialized, edited in place (set_value, range[(r,c)] = v, range[r][c] = v, range[r].swap(a,b), clone; 3 in 4 edits hit the header row) and deserialized again, 1-4 edits; every stage is compared with model and oracle evaluated on the cells as they are then (deserialization is a function of the range's current cells: neither has state). Family huge: 30 ranges 65535 / 65536 / 65537 / 65540 / 70000 columns wide (2 rows, named headers and values at columns 2, 3, w-2, w-1, 65536, 65538, 65539, error cells at w-2 and 65539; custom selections of the last columns, Headers::None, Headers::All; seq and map) compared impl vs oracle ONLY (the Lean model has no width limit but its list-based rows are too slow at this width). Family reuse: ONE builder value (switched between has_headers(true/false) from range to range) (with_headers / new().has_headers / with_deserialize_headers::<Rec>, also a clone taken before first use) deserializes 2-3 ranges in sequence whose header rows are re-padded (equal after trimming), identical, permuted or different; every range is compared with model and oracle evaluated per range (the builder is pure configuration: the model has no builder state) and, for the derived struct, with a fresh builder. Family convert: \
         every pool cell x every target, plus a directed stream of f32/f64 rounding midpoints (Int cells beyond 2^53 and decimal strings on / one unit next to the midpoint of adjacent f32 or f64 values; single correctly-rounded conversion expected: Rust `as f32`/`as f64` and str::parse::<f32|f64> in the oracle, intToF32/intToF64 round-to-nearest-even in the Lean model, string parsing through the model's Std parameter). Family data / visit: Data and Option<Data> as the target of every pool / random cell (model dataOfCell, optDataOfCell), and DataVisitor called directly with single visit_* calls incl. u64 above i64::MAX, f32, char, bytes, newtype (model dataVisitor). with_deserialize_headers::<R>() for the recording record type R presenting one of 4 field lists to deserialize_struct, or not a struct (1 random case in 10; model withDeserializeHeaders = Headers.custom of the fields). Family helpers: the four i64/f64 helpers also against the model (asI64OrNone … with DataConv.viewData; float text, atoi_simd and fast_float2 results passed as its Std parameter); the 12 deserialize_as_*_or_none/_or_string functions on pool and random cells (error cell => CellError at its position, else the accessor applied to the rebuilt Data). Non-trivial = a non-empty range with at least one data row; distinct by case text",
    );
    rep.notes.push("Rust std f64::to_string / str::parse::<f64|f32> are measured on the real std for the cells of each case and passed to the model as its `Std` parameter (theorems hold for every Std)".into());
    rep.notes.push("serde and serde_derive visitors are not modelled: the model describes the event stream handed to any visitor; derived types are exercised as an implementation-level oracle".into());
    let mut cases: Vec<Case> = vec![];
    let replaying = args.replay.is_some();
    if let Some(inp) = &args.replay {
        if inp.starts_with("convert ") {
            let p: Vec<&str> = inp.split_whitespace().collect();
            let pos: Vec<u32> = p[3].split(',').map(|x| x.parse().unwrap()).collect();
            convert_case(&cell_parse(p[1]), p[2], (pos[0], pos[1]), &mut drv, &mut rep);
        } else if inp.starts_with("data ") || inp.starts_with("helper ") || inp.starts_with("helpers ") {
            let p: Vec<&str> = inp.split_whitespace().collect();
            let pos: Vec<u32> = p[2].split(',').map(|x| x.parse().unwrap()).collect();
            let d = cell_parse(p[1]);
            data_case(&d, (pos[0], pos[1]), &mut drv, &mut rep);
            helpers_case(&d, (pos[0], pos[1]), &mut rep);
            helper_model_case(&d, (pos[0], pos[1]), &mut drv, &mut rep);
        } else if let Some(v) = inp.strip_prefix("visit ") {
            visit_case(v.trim(), &mut drv, &mut rep);
        } else if let Some(rest) = inp.strip_prefix("mutate|") {
            let p: Vec<&str> = rest.split('|').collect();
            let muts: Vec<Mut> = p[1..].iter().filter(|m| !m.is_empty()).map(|m| Mut::parse(m)).collect();
            mutate_family(&Case::parse(p[0]), &muts, 0, &mut drv, &mut rep);
        } else if inp.starts_with("huge ") {
            let p: Vec<&str> = inp.split_whitespace().collect();
            huge_family(p[1].parse().unwrap(), p[2].parse().unwrap(), &mut rep);
        } else if let Some(rest) = inp.strip_prefix("reuse|") {
            let seq: Vec<Case> = rest.split('|').map(Case::parse).collect();
            reuse_family(&seq, 0, &mut drv, &mut rep);
        } else {
            cases.push(Case::parse(inp));
        }
    } else {
        for c in corpus() {
            cases.push(Case::parse(c));
        }
        // seeded C09-m9: 17 selected columns = the span 0..=16 REVERSED, 32-column sheet, the only value of the row in
        // column 5 (columns 16..32 empty): the record must still carry c5
        {
            let w = 32usize;
            let mut cells: Vec<Data> = (0..w).map(|j| Data::String(format!("c{j}"))).collect();
            cells.extend((0..w).map(|j| if j == 5 { Data::Int(1005) } else { Data::Empty }));
            for (map, rev) in [(true, true), (false, true), (true, false)] {
                let mut sel: Vec<String> = (0..17).map(|j| format!("c{j}")).collect();
                if rev {
                    sel.reverse();
                }
                cases.push(Case { dims: Some((0, 0, 2, w)), cells: cells.clone(), cfg: Cfg::Custom(sel), calls: vec![], map, ops: vec![Op::Next; 2], sched: vec!["any".into()] });
            }
        }
        // seeded C09-m12: builder call sequences (the last header-mode call wins)
        for c in [
            "de 0,0,2,1/I:1,I:1 N+h1 map 1 any",
            "de 0,0,2,1/S:61,I:1 A+h0+h1 map 2 any",
            "de 0,0,2,1/S:61,I:1 A+h1+h0 seq 3 any",
            "de 0,0,2,2/S:61,S:62,I:1,I:2 C/62+h1 map 2 any",
            "de 0,0,2,2/S:61,S:62,I:1,I:2 C/62+h0 map 3 any",
            "de 0,0,2,2/S:61,S:62,I:1,I:2 W/61/62+h0+h1 map 2 any",
        ] {
            cases.push(Case::parse(c));
        }
        // seeded C09-m7: 65 columns, "x" in column 3 and " x " in column 63; selecting "x" means column 3 (first match)
        for w in [64usize, 65] {
            let mut cells: Vec<Data> = (0..w).map(|j| Data::String(format!("u{j}"))).collect();
            cells[3] = Data::String("x".into());
            cells[w - 2] = Data::String(" x ".into());
            cells.extend((0..w).map(|j| Data::Int(1000 + j as i64)));
            for map in [false, true] {
                cases.push(Case {
                    dims: Some((0, 0, 2, w)),
                    cells: cells.clone(),
                    cfg: Cfg::Custom(vec!["x".into(), " u5".into()]),
                    calls: vec![],
                    map,
                    ops: vec![Op::Next; 2],
                    sched: vec!["any".into()],
                });
            }
        }
    }
    let fixed = cases.len();
    let n_random = if replaying { 0 } else { args.count(20_000, 2_000_000) as usize };
    let mut gen_rng = Rng::new(args.seed);
    let mut shrunk = 0;
    for idx in 0..fixed + n_random {
        // random cases are generated on the fly (a thorough run does not hold 2 M cases in memory)
        let generated;
        let case: &Case = if idx < fixed {
            &cases[idx]
        } else {
            // every 64th random case is a wide one (65..300 columns, duplicated header names)
            generated = match (idx - fixed) % 64 {
                63 => gen_wide_case(&mut gen_rng),
                // wide selections that are permutations of a contiguous span, over sparse rows
                15 | 31 | 47 => gen_span_case(&mut gen_rng),
                _ => gen_case(&mut gen_rng),
            };
            &generated
        };
        let text = case.wire();
        let total_rows = case.h();
        rep.case(&text, total_rows >= 2 || (total_rows == 1 && case.cfg == Cfg::None));
        rep.count(match &case.cfg {
            Cfg::None => "cfg.none",
            Cfg::All => "cfg.all",
            Cfg::Custom(_) => "cfg.custom",
            Cfg::Wdh(Some(_)) => "cfg.with_deserialize_headers.struct",
            Cfg::Wdh(None) => "cfg.with_deserialize_headers.not_a_struct",
        });
        rep.count(if case.map { "shape.map" } else { "shape.seq" });
        rep.count(&format!("rows.{}", case.h()));
        rep.count(&match case.w() {
            w if w <= 5 => format!("cols.{w}"),
            w if w <= 64 => "cols.6-64".to_string(),
            _ => "cols.65-300".to_string(),
        });
        if let Some((sr, sc, h, w)) = case.dims {
            if sr as u64 + h as u64 == 1 << 32 {
                rep.count("origin.last_row_is_u32max");
            }
            if sc as u64 + w as u64 == 1 << 32 {
                rep.count("origin.last_col_is_u32max");
            }
            if case.cells.iter().any(|d| matches!(d, Data::Error(_))) {
                rep.count("has_error_cell");
            }
        }
        let fails = eval_case(case, idx as u64, &mut drv);
        // outcome classes of the expected run
        let exp = run_oracle(case);
        rep.count(&format!("new.{}", class_of(exp.split(" | ").next().unwrap())));
        if exp.contains("!CE") && exp.starts_with("ok") {
            rep.count("item.cell_error");
        }
        if exp.contains("!custom") {
            rep.count("item.custom_error");
        }
        for f in &fails {
            let (c2, f2) = if shrunk < 16 && !replaying {
                shrunk += 1;
                let c2 = shrink(case, idx as u64, f.kind, &f.sig, &mut drv);
                let f2 = eval_case(&c2, idx as u64, &mut drv).into_iter().find(|x| x.kind == f.kind && x.sig == f.sig);
                (c2, f2)
            } else {
                (case.clone(), None)
            };
            match f2 {
                Some(f2) => rep.fail(f.kind, &f.sig, &c2.wire(), &f2.imp, &f2.model, &f2.expect),
                None => rep.fail(f.kind, &f.sig, &text, &f.imp, &f.model, &f.expect),
            }
        }
        // serde's own visitors (implementation-level oracle); every 2nd random case, all corpus cases
        if idx < 32 || idx % 2 == 0 || replaying {
            let before = rep.failures.len();
            let r = guarded(|| {
                let mut local = Report::new("C09", "");
                derive_family(case, &mut local, &text);
                local
            });
            match r {
                Ok(local) => {
                    for (k, v) in local.counters {
                        rep.add(&k, v);
                    }
                    for f in local.failures {
                        rep.fail(&f.kind, &f.sig, &f.input, &f.impl_out, &f.model_out, &f.expect);
                    }
                }
                Err(msg) => rep.fail("impl_vs_spec", "derive:panic", &text, &msg, "", "no panic"),
            }
            let _ = before;
        }
    }
    if !replaying {
        // conversion table: every pool cell x every target, plus random cells
        let mut rng = Rng::new(args.seed ^ 0xC09);
        let mut pool: Vec<Data> = vec![Data::Empty, Data::Bool(true), Data::Bool(false), Data::DateTimeIso("2021-03-04".into()), Data::DurationIso("PT1S".into())];
        for s in STRING_POOL {
            pool.push(Data::String(s.to_string()));
        }
        for k in KINDS.iter() {
            pool.push(Data::Error(k.clone()));
        }
        for _ in 0..60 {
            pool.push(Data::Int(gen_int(&mut rng)));
            pool.push(Data::Float(gen_float(&mut rng)));
        }
        for _ in 0..10 {
            pool.push(Data::DateTime(ExcelDateTime::new(gen_float(&mut rng), ExcelDateTimeType::DateTime, false)));
        }
        for d in &pool {
            for t in TARGETS {
                convert_case(d, t, (7, 9), &mut drv, &mut rep);
            }
        }
        for d in &pool {
            helpers_case(d, (7, 9), &mut rep);
            helper_model_case(d, (7, 9), &mut drv, &mut rep);
            data_case(d, (7, 9), &mut drv, &mut rep);
        }
        pool.push(Data::DateTimeIso("2021-03-04T05:06:07".into()));
        pool.push(Data::DurationIso("PT1H2M".into()));
        for _ in 0..args.count(2_000, 100_000) {
            let d = gen_cell(&mut rng);
            let pos = (rng.next() as u32, rng.next() as u32);
            helpers_case(&d, pos, &mut rep);
            helper_model_case(&d, pos, &mut drv, &mut rep);
            data_case(&d, pos, &mut drv, &mut rep);
        }
        // `DataVisitor` call by call
        for v in [
            "b:0", "b:1", "i8:-128", "i64:-9223372036854775808", "u8:255", "u32:4294967295", "u64:9223372036854775807",
            "u64:9223372036854775808", "u64:18446744073709551615", "f32:3fc00000", "f32:00000001", "f32:ff800000", "f32:7fc00000",
            "f32:80000000", "f32:7f7fffff", "f64:7ff8000000000000", "s:-", "S:61", "sb:c3a9", "c:233", "c:128512", "y:6162", "unit", "none", "nt",
        ] {
            visit_case(v, &mut drv, &mut rep);
        }
        for _ in 0..args.count(2_000, 200_000) {
            let v = gen_visit(&mut rng);
            visit_case(&v, &mut drv, &mut rep);
        }
        // directed: midpoints of adjacent f32 / f64 values (single correctly-rounded conversion expected)
        for _ in 0..args.count(3_000, 300_000) {
            let (d, t) = gen_midpoint_cell(&mut rng);
            rep.count("convert.midpoint");
            convert_case(&d, t, (rng.next() as u32, rng.next() as u32), &mut drv, &mut rep);
        }
        for c in [
            "I:1152921573326323713",  // 2^60 + 2^36 + 1 (seeded C09-m5)
            "I:1152921573326323712",  // the midpoint itself: ties to even
            "S:312e3030303030303137383831333933343332363137313837343939", // "1.00000017881393432617187499"
            "S:312e303030303030313738383133393334333236313731383735",     // the midpoint "1.000000178813934326171875"
            "I:9007199254740993",
            "I:-9223372036854775807",
        ] {
            for t in ["f32", "f64"] {
                convert_case(&cell_parse(c), t, (7, 9), &mut drv, &mut rep);
            }
        }
        // one builder value reused over several ranges
        for c in [
            // seeded C09-m6: second range's headers equal the first's only after trimming; keys must be its own
            "reuse|de 0,0,2,2/S:61,S:62,I:1,I:2 C/61/62 map 2 any|de 0,0,2,2/S:2061,S:6220,I:3,I:4 C/61/62 map 2 any",
            "reuse|de 0,0,2,2/S:2061,S:6220,I:1,I:2 C/62/61 map 2 any|de 5,5,2,2/S:62,S:61,I:3,I:4 C/62/61 map 2 any|de 0,0,2,2/S:61,S:62,I:3,I:4 C/62/61 map 2 any",
            "reuse|de 0,0,2,3/S:6964,S:6e616d65,S:666c6167,I:1,S:78,B:1 A map 2 any|de 0,0,2,3/S:206964,S:6e616d6520,S:666c6167,I:2,S:79,B:0 A map 2 any",
        ] {
            let seq: Vec<Case> = c.strip_prefix("reuse|").unwrap().split('|').map(Case::parse).collect();
            reuse_family(&seq, 0, &mut drv, &mut rep);
        }
        // one range value, edited in place between deserializations
        for c in [
            // seeded C09-m14: the header row edited through the mutable row slice, then deserialized again
            "mutate|de 0,0,2,2/S:61,S:62,I:1,I:2 A map 2 any|row,0,0,S:7a",
            "mutate|de 0,0,2,2/S:61,S:62,I:1,I:2 C/62 map 2 any|swap,0,0,1",
            "mutate|de 0,0,2,2/S:61,S:62,I:1,I:2 A map 2 any|sv,0,1,S:79|ix,0,0,S:78|row,0,1,S:77|clone|swap,0,0,1",
        ] {
            let p: Vec<&str> = c.split('|').collect();
            let muts: Vec<Mut> = p[2..].iter().map(|m| Mut::parse(m)).collect();
            mutate_family(&Case::parse(p[1]), &muts, 0, &mut drv, &mut rep);
        }
        for i in 0..args.count(1_500, 150_000) {
            let (c, muts) = gen_mutate_history(&mut rng);
            mutate_family(&c, &muts, i, &mut drv, &mut rep);
        }
        // ranges wider than 65536 columns (seeded C09-m13)
        for w in [65535usize, 65536, 65537, 65540, 70000] {
            for k in 0..6 {
                huge_family(w, k, &mut rep);
            }
        }
        for i in 0..args.count(1_500, 150_000) {
            let seq = gen_reuse_sequence(&mut rng);
            reuse_family(&seq, i, &mut drv, &mut rep);
        }
        let extra = args.count(6_000, 600_000);
        for _ in 0..extra {
            let d = match rng.below(3) {
                0 => Data::Float(gen_float(&mut rng)),
                1 => Data::Int(gen_int(&mut rng)),
                _ => gen_cell(&mut rng),
            };
            let t = *rng.pick(&TARGETS);
            convert_case(&d, t, (rng.next() as u32, rng.next() as u32), &mut drv, &mut rep);
        }
    }
    rep.add("driver_requests", drv.requests);
    rep.write(&args.out);
}
