//! C03 — XLSB: every cell record reads back at its position with its value.
//!
//! Three parties on every generated workbook:
//!   impl   : the real reader, `Xlsb::new` + `worksheet_range` (and `worksheet_range_ref`) on the zip file,
//!   model  : the Lean model `Xlsb.decodeSheet` (driver `dec`) on the bytes of the same sheet part,
//!   oracle : the logical sheet of the description (bounding box of the value cells + value per position),
//!            computed here without looking at bytes.
//! The sheet parts are produced by the Lean encoder (`enc`), i.e. they are the bytes the theorems of
//! Props/C03.lean speak about; the other parts come from `verif_harness::xlsbw`.
//! Unit level (through the hooks): record framing sweeps (`c03_records` vs `readRecord`/`readLen`),
//! `wide_str`, the shared string table, the style table classes, `parse_dimensions`.
use calamine::{Data, Range, Reader, ReaderRef, Xlsb};
use std::collections::BTreeMap;
use std::io::Cursor;
use verif_harness::xlsbw::{self, Framing, XlsbBook, XlsbSheet};
use verif_harness::{driver::Driver, fnv64, guarded, hex, report::Report, rng::Rng, unhex, Args};

// ------------------------------------------------------------------------------------------------
// description of a case
// ------------------------------------------------------------------------------------------------

#[derive(Clone, Debug, PartialEq)]
enum Kind {
    Blank,
    Rk(u32),
    Err(u8),
    Bool(u8),
    Real(u64),
    Str(Vec<u16>),
    Isst(u32),
}

#[derive(Clone, Debug, PartialEq)]
enum It {
    Row { r: u32, tail: Vec<u8> },
    Cell { col: u32, style: u32, kind: Kind, fmla: Option<Vec<u8>> },
    Raw { id: u16, payload: Vec<u8> },
}

#[derive(Clone, Debug, PartialEq)]
struct Fr {
    it: It,
    wide: bool,
    lenw: u8,
}

#[derive(Clone, Debug, PartialEq)]
struct SheetCase {
    name: String,
    state: u32,
    items: Vec<Fr>,
    /// cut the encoded part to this many bytes (malformed stream)
    cut: Option<usize>,
}

/// the container glue of a case: relationship ids, part names, the relationships part, a sheet without relationship
#[derive(Clone, Debug, PartialEq)]
struct Cont {
    /// variant name (for failure signatures): plain | prefixed | absolute | dup
    tag: String,
    /// relationship id per sheet (any characters that may stand in an XML attribute)
    ids: Vec<String>,
    /// part name below `xl/` per sheet (`<kind folder>/<file>`)
    parts: Vec<String>,
    /// the bytes of `xl/_rels/workbook.bin.rels`
    xml: String,
    /// name of an additional BrtBundleSh with a NULL relationship id, written first (the reader must skip it)
    ghost: Option<String>,
}

#[derive(Clone, Debug, PartialEq)]
struct Case {
    date1904: bool,
    xfs: Option<Vec<u16>>,
    fmts: Vec<(u16, String)>,
    sst: Option<Vec<Vec<u16>>>,
    framing: Framing,
    deflate: bool,
    /// records written in styles.bin between BrtEndFmts and BrtBeginCellXFs (fonts, fills, borders …)
    spre: Vec<(u16, Vec<u8>)>,
    /// complete bytes of whole parts (by zip name), replacing the generated ones (malformed workbook / styles /
    /// shared-string parts)
    raw: Vec<(String, Vec<u8>)>,
    /// shared string items with rich-text runs / phonetic data and foreign records between them (writer seed)
    sstx: Option<u64>,
    /// `None` = the writer's default container (rId<n>, worksheets/sheet<n>.bin, one relationship per sheet)
    cont: Option<Cont>,
    /// `-` = well-formed; otherwise the name of the single fault that was injected
    fault: String,
    sheets: Vec<SheetCase>,
}

fn units_str(u: &[u16]) -> String {
    if u.is_empty() {
        ".".into()
    } else {
        u.iter().map(|x| format!("{:04x}", x)).collect()
    }
}
fn parse_units(s: &str) -> Vec<u16> {
    if s == "." {
        return vec![];
    }
    (0..s.len() / 4).map(|i| u16::from_str_radix(&s[4 * i..4 * i + 4], 16).unwrap()).collect()
}
fn hex_or_dash(b: &[u8]) -> String {
    hex(b)
}

impl Fr {
    fn token(&self) -> String {
        let w = self.wide as u8;
        let l = self.lenw;
        match &self.it {
            It::Row { r, tail } => format!("R,{w},{l},{r},{}", hex_or_dash(tail)),
            It::Raw { id, payload } => format!("N,{w},{l},{id},{}", hex_or_dash(payload)),
            It::Cell { col, style, kind, fmla } => {
                let (k, a) = match kind {
                    Kind::Blank => ("k", "-".to_string()),
                    Kind::Rk(x) => ("r", x.to_string()),
                    Kind::Err(x) => ("e", x.to_string()),
                    Kind::Bool(x) => ("b", x.to_string()),
                    Kind::Real(x) => ("f", x.to_string()),
                    Kind::Str(u) => ("s", units_str(u)),
                    Kind::Isst(i) => ("i", i.to_string()),
                };
                let f = match fmla {
                    Some(b) => {
                        assert!(!b.is_empty(), "formula tails are never empty");
                        hex(b)
                    }
                    None => "-".into(),
                };
                format!("C,{w},{l},{col},{style},{k},{a},{f}")
            }
        }
    }
    fn parse(t: &str) -> Fr {
        let p: Vec<&str> = t.split(',').collect();
        let wide = p[1] == "1";
        let lenw: u8 = p[2].parse().unwrap();
        let it = match p[0] {
            "R" => It::Row { r: p[3].parse().unwrap(), tail: unhex(p[4]) },
            "N" => It::Raw { id: p[3].parse().unwrap(), payload: unhex(p[4]) },
            "C" => {
                let kind = match p[5] {
                    "k" => Kind::Blank,
                    "r" => Kind::Rk(p[6].parse().unwrap()),
                    "e" => Kind::Err(p[6].parse().unwrap()),
                    "b" => Kind::Bool(p[6].parse().unwrap()),
                    "f" => Kind::Real(p[6].parse().unwrap()),
                    "s" => Kind::Str(parse_units(p[6])),
                    "i" => Kind::Isst(p[6].parse().unwrap()),
                    x => panic!("bad kind {x}"),
                };
                It::Cell { col: p[3].parse().unwrap(), style: p[4].parse().unwrap(), kind, fmla: if p[7] == "-" { None } else { Some(unhex(p[7])) } }
            }
            x => panic!("bad item {x}"),
        };
        Fr { it, wide, lenw }
    }
}

impl Case {
    fn to_text(&self) -> String {
        let xfs = match &self.xfs {
            None => "none".to_string(),
            Some(v) if v.is_empty() => "empty".into(),
            Some(v) => v.iter().map(|x| x.to_string()).collect::<Vec<_>>().join(","),
        };
        let fmts = if self.fmts.is_empty() {
            "-".to_string()
        } else {
            self.fmts.iter().map(|(i, s)| format!("{i}:{}", units_str(&s.encode_utf16().collect::<Vec<_>>()))).collect::<Vec<_>>().join(",")
        };
        let sst = match &self.sst {
            None => "none".to_string(),
            Some(v) if v.is_empty() => "empty".into(),
            Some(v) => v.iter().map(|s| units_str(s)).collect::<Vec<_>>().join(","),
        };
        let fr = match &self.framing {
            Framing::Minimal => "m".to_string(),
            Framing::Widest => "w".into(),
            Framing::Random(s) => format!("r{s}"),
        };
        let spre = if self.spre.is_empty() { "-".to_string() } else { self.spre.iter().map(|(i, p)| format!("{i}:{}", hex(p))).collect::<Vec<_>>().join(",") };
        let raw = if self.raw.is_empty() { "-".to_string() } else { self.raw.iter().map(|(n, b)| format!("{n}:{}", hex(b))).collect::<Vec<_>>().join(",") };
        let mut s = format!("xlsb d={} xfs={xfs} fmts={fmts} sst={sst} fr={fr} z={} spre={spre} raw={raw} sstx={} cont={} fault={}", self.date1904 as u8, self.deflate as u8, self.sstx.map_or("-".to_string(), |x| x.to_string()), match &self.cont {
            None => "-".to_string(),
            Some(k) => format!(
                "{};{};{};{};{}",
                k.tag,
                k.ids.iter().map(|x| hex(x.as_bytes())).collect::<Vec<_>>().join(","),
                k.parts.iter().map(|x| hex(x.as_bytes())).collect::<Vec<_>>().join(","),
                hex(k.xml.as_bytes()),
                k.ghost.as_ref().map_or("-".to_string(), |g| hex(g.as_bytes()))
            ),
        }, self.fault);
        for sh in &self.sheets {
            s.push_str(&format!(
                " # {} {} {}",
                units_str(&sh.name.encode_utf16().collect::<Vec<_>>()),
                sh.state,
                match sh.cut {
                    Some(c) => format!("cut{c}"),
                    None => "nocut".into(),
                }
            ));
            for it in &sh.items {
                s.push(' ');
                s.push_str(&it.token());
            }
        }
        s
    }
    fn parse(text: &str) -> Case {
        let mut parts = text.split(" # ");
        let head: Vec<&str> = parts.next().unwrap().split(' ').collect();
        assert_eq!(head[0], "xlsb");
        let val = |k: &str| -> &str { head.iter().find_map(|t| t.strip_prefix(k)).unwrap_or_else(|| panic!("missing {k}")) };
        let xfs = match val("xfs=") {
            "none" => None,
            "empty" => Some(vec![]),
            s => Some(s.split(',').map(|x| x.parse().unwrap()).collect()),
        };
        let fmts = match val("fmts=") {
            "-" => vec![],
            s => s
                .split(',')
                .map(|x| {
                    let (a, b) = x.split_once(':').unwrap();
                    (a.parse().unwrap(), String::from_utf16_lossy(&parse_units(b)))
                })
                .collect(),
        };
        let sst = match val("sst=") {
            "none" => None,
            "empty" => Some(vec![]),
            s => Some(s.split(',').map(parse_units).collect()),
        };
        let framing = match val("fr=") {
            "m" => Framing::Minimal,
            "w" => Framing::Widest,
            s => Framing::Random(s[1..].parse().unwrap()),
        };
        let spre = match head.iter().find_map(|t| t.strip_prefix("spre=")) {
            None | Some("-") => vec![],
            Some(s) => s
                .split(',')
                .map(|x| {
                    let (a, b) = x.split_once(':').unwrap();
                    (a.parse().unwrap(), unhex(b))
                })
                .collect(),
        };
        let raw = match head.iter().find_map(|t| t.strip_prefix("raw=")) {
            None | Some("-") => vec![],
            Some(s) => s
                .split(',')
                .map(|x| {
                    let (a, b) = x.rsplit_once(':').unwrap();
                    (a.to_string(), unhex(b))
                })
                .collect(),
        };
        let mut sheets = vec![];
        for p in parts {
            let t: Vec<&str> = p.split(' ').filter(|x| !x.is_empty()).collect();
            sheets.push(SheetCase {
                name: String::from_utf16_lossy(&parse_units(t[0])),
                state: t[1].parse().unwrap(),
                cut: t[2].strip_prefix("cut").map(|c| c.parse().unwrap()),
                items: t[3..].iter().map(|x| Fr::parse(x)).collect(),
            });
        }
        Case { date1904: val("d=") == "1", xfs, fmts, sst, framing, deflate: val("z=") == "1", spre, raw, cont: match head.iter().find_map(|t| t.strip_prefix("cont=")) {
            None | Some("-") => None,
            Some(t) => {
                let f: Vec<&str> = t.split(';').collect();
                let strs = |x: &str| -> Vec<String> { x.split(',').map(|h| String::from_utf8(unhex(h)).unwrap()).collect() };
                Some(Cont { tag: f[0].to_string(), ids: strs(f[1]), parts: strs(f[2]), xml: String::from_utf8(unhex(f[3])).unwrap(), ghost: if f[4] == "-" { None } else { Some(String::from_utf8(unhex(f[4])).unwrap()) } })
            }
        }, sstx: head.iter().find_map(|t| t.strip_prefix("sstx=")).and_then(|x| x.parse().ok()), fault: val("fault=").to_string(), sheets }
    }
}

// ------------------------------------------------------------------------------------------------
// oracle: the property as stated, on the description
// ------------------------------------------------------------------------------------------------

/// class of a number format by the generator's own knowledge: 0 other, 1 date/time, 2 duration.
/// Built-in ids per ECMA-376 18.8.30 (14–22, 45–47 are date/time formats; 46 `[h]:mm:ss` is a duration);
/// custom formats only come from `CUSTOM_FMTS`, each with its stated class.
const CUSTOM_FMTS: [(&str, u8); 8] = [
    ("yyyy-mm-dd", 1),
    ("dd/mm/yyyy\\ hh:mm", 1),
    ("h:mm AM/PM", 1),
    ("[h]:mm:ss", 2),
    ("[mm]:ss", 2),
    ("0.00", 0),
    ("#,##0", 0),
    ("General", 0),
];

fn fmt_class(ifmt: u16, fmts: &[(u16, String)]) -> u8 {
    match ifmt {
        14..=22 | 45 | 47 => 1,
        46 => 2,
        _ => match fmts.iter().rev().find(|(i, _)| *i == ifmt) {
            Some((_, s)) => CUSTOM_FMTS.iter().find(|(f, _)| f == s).map(|x| x.1).unwrap_or(0),
            None => 0,
        },
    }
}

fn style_classes(c: &Case) -> Vec<u8> {
    match &c.xfs {
        None => vec![],
        Some(x) => x.iter().map(|f| fmt_class(*f, &c.fmts)).collect(),
    }
}

/// canonical text of a string value: its UTF-16 units after lossy decoding (unpaired surrogates → U+FFFD)
fn canon_units(u: &[u16]) -> String {
    let s = String::from_utf16_lossy(u);
    units_str(&s.encode_utf16().collect::<Vec<_>>())
}

fn styled(classes: &[u8], style: u32, bits: u64, y1904: bool) -> String {
    match classes.get((style & 0xFF_FFFF) as usize) {
        Some(1) => format!("D:{bits:016x}:dt:{}", y1904 as u8),
        Some(2) => format!("D:{bits:016x}:td:{}", y1904 as u8),
        _ => format!("F:{bits:016x}"),
    }
}

/// value stored by a cell record ([MS-XLSB] 2.4.x, RkNumber as in [MS-XLS] 2.5.217); None = no value
fn oracle_value(c: &Case, classes: &[u8], style: u32, kind: &Kind) -> Option<String> {
    Some(match kind {
        Kind::Blank => return None,
        Kind::Rk(w) => {
            let x100 = w & 1 != 0;
            let is_int = w & 2 != 0;
            if is_int {
                let v = (*w as i32) >> 2; // 30-bit signed
                if x100 {
                    styled(classes, style, (v as f64 / 100.0).to_bits(), c.date1904)
                } else {
                    let s = styled(classes, style, (v as f64).to_bits(), c.date1904);
                    if s.starts_with("D:") {
                        s
                    } else {
                        format!("I:{v}")
                    }
                }
            } else {
                let f = f64::from_bits(((w & 0xFFFF_FFFC) as u64) << 32);
                styled(classes, style, (if x100 { f / 100.0 } else { f }).to_bits(), c.date1904)
            }
        }
        Kind::Err(e) => format!("E:{e}"),
        Kind::Bool(b) => format!("B:{}", (*b != 0) as u8),
        Kind::Real(bits) => styled(classes, style, *bits, c.date1904),
        Kind::Str(u) => format!("S:{}", canon_units(u)),
        Kind::Isst(i) => format!("S:{}", canon_units(c.sst.as_ref()?.get(*i as usize)?)),
    })
}

fn item_id(it: &It) -> u16 {
    match it {
        It::Row { .. } => 0,
        It::Raw { id, .. } => *id,
        It::Cell { kind, fmla, .. } => {
            let f = fmla.is_some();
            match (kind, f) {
                (Kind::Blank, _) => 1,
                (Kind::Rk(_), _) => 2,
                (Kind::Err(_), false) => 3,
                (Kind::Bool(_), false) => 4,
                (Kind::Real(_), false) => 5,
                (Kind::Str(_), false) => 6,
                (Kind::Isst(_), _) => 7,
                (Kind::Str(_), true) => 8,
                (Kind::Real(_), true) => 9,
                (Kind::Bool(_), true) => 10,
                (Kind::Err(_), true) => 11,
            }
        }
    }
}

/// indices `(first, end)` of the sheet data: behind the BrtBeginSheetData that is not inside a view / AC / column
/// info block ([MS-XLSB] 2.1.7.62: those blocks hold no cell records), up to the next BrtEndSheetData
fn data_span(items: &[Fr]) -> Option<(usize, usize)> {
    let mut block_end: Option<u16> = None;
    let mut start = None;
    for (i, f) in items.iter().enumerate() {
        let id = item_id(&f.it);
        match start {
            None => match block_end {
                Some(e) => {
                    if id == e {
                        block_end = None;
                    }
                }
                None => match id {
                    0x85 => block_end = Some(0x86),
                    0x25 => block_end = Some(0x26),
                    0x186 => block_end = Some(0x187),
                    0x91 => start = Some(i + 1),
                    _ => {}
                },
            },
            Some(s) => {
                if id == 0x92 {
                    return Some((s, i));
                }
            }
        }
    }
    start.map(|s| (s, items.len()))
}

/// expected canonical range of a well-formed sheet: bounding box of the value cells + each value
fn oracle_sheet(c: &Case, sh: &SheetCase) -> (String, BTreeMap<(u32, u32), String>) {
    let classes = style_classes(c);
    let mut cells: BTreeMap<(u32, u32), String> = BTreeMap::new();
    let mut row = 0u32;
    let (a, b) = data_span(&sh.items).unwrap_or((0, 0));
    for it in &sh.items[a..b] {
        match &it.it {
            It::Row { r, .. } => row = *r,
            It::Cell { col, style, kind, .. } => {
                if let Some(v) = oracle_value(c, &classes, *style, kind) {
                    cells.insert((row, *col), v);
                }
            }
            _ => {}
        }
    }
    (canon_cells(&cells), cells)
}

fn canon_cells(cells: &BTreeMap<(u32, u32), String>) -> String {
    if cells.is_empty() {
        return "ok E".into();
    }
    let r0 = cells.keys().map(|k| k.0).min().unwrap();
    let r1 = cells.keys().map(|k| k.0).max().unwrap();
    let c0 = cells.keys().map(|k| k.1).min().unwrap();
    let c1 = cells.keys().map(|k| k.1).max().unwrap();
    let body: Vec<String> = cells.iter().map(|((r, c), v)| format!("{r},{c},{v}")).collect();
    format!("ok {r0} {c0} {r1} {c1} {}", body.join(";"))
}

// ------------------------------------------------------------------------------------------------
// impl side
// ------------------------------------------------------------------------------------------------

fn canon_data(d: &Data) -> String {
    match d {
        Data::Empty => "_".into(),
        Data::Int(i) => format!("I:{i}"),
        Data::Float(f) => format!("F:{:016x}", f.to_bits()),
        Data::String(s) => format!("S:{}", units_str(&s.encode_utf16().collect::<Vec<_>>())),
        Data::Bool(b) => format!("B:{}", *b as u8),
        Data::DateTime(dt) => format!(
            "D:{:016x}:{}:{}",
            dt.as_f64().to_bits(),
            if dt.is_duration() { "td" } else { "dt" },
            format!("{dt:?}").contains("is_1904: true") as u8
        ),
        Data::Error(e) => {
            use calamine::CellErrorType::*;
            let code = match e {
                Null => 0x00,
                Div0 => 0x07,
                Value => 0x0F,
                Ref => 0x17,
                Name => 0x1D,
                Num => 0x24,
                NA => 0x2A,
                GettingData => 0x2B,
            };
            format!("E:{code}")
        }
        other => format!("?:{other:?}"),
    }
}

fn canon_range(r: &Range<Data>) -> String {
    match (r.start(), r.end()) {
        (Some(s), Some(e)) => {
            let body: Vec<String> = r.used_cells().map(|(i, j, v)| format!("{},{},{}", s.0 as usize + i, s.1 as usize + j, canon_data(v))).collect();
            format!("ok {} {} {} {} {}", s.0, s.1, e.0, e.1, if body.is_empty() { "-".into() } else { body.join(";") })
        }
        _ => "ok E".into(),
    }
}

fn err_class(e: &calamine::XlsbError) -> String {
    use calamine::XlsbError::*;
    match e {
        Io(_) => "err:io".into(),
        CellError(_) => "err:CellError".into(),
        WideStr { .. } => "err:WideStr".into(),
        Unrecognized { .. } => "err:Unrecognized".into(),
        other => format!("err:{}", format!("{other:?}").split(|c: char| !c.is_alphanumeric()).next().unwrap_or("?")),
    }
}

/// normalise the `S:` tokens of a canonical range coming from the model (raw units → lossy units)
fn normalise_model(s: &str) -> String {
    if !s.starts_with("ok ") || s == "ok E" {
        return s.to_string();
    }
    let (head, body) = s.rsplit_once(' ').unwrap();
    if body == "-" {
        return s.to_string();
    }
    let cells: Vec<String> = body
        .split(';')
        .map(|c| {
            let mut p = c.splitn(3, ',');
            let (r, col, v) = (p.next().unwrap(), p.next().unwrap(), p.next().unwrap());
            match v.strip_prefix("S:") {
                Some(u) => format!("{r},{col},S:{}", canon_units(&parse_units(u))),
                None => c.to_string(),
            }
        })
        .collect();
    format!("{head} {}", cells.join(";"))
}

// ------------------------------------------------------------------------------------------------
// running one case
// ------------------------------------------------------------------------------------------------

/// local counters of a worker thread, merged into the report by the main thread
#[derive(Default)]
struct Counters(BTreeMap<String, u64>);
impl Counters {
    fn count(&mut self, k: &str) {
        *self.0.entry(k.into()).or_insert(0) += 1;
    }
    fn add(&mut self, k: &str, n: u64) {
        *self.0.entry(k.into()).or_insert(0) += n;
    }
}

struct Outcome {
    /// (kind, sig, impl, model, expect)
    fails: Vec<(String, String, String, String, String)>,
}

fn build_book(c: &Case, parts: &[Vec<u8>]) -> XlsbBook {
    let mut b = XlsbBook::new();
    b.date1904 = c.date1904;
    b.xfs = c.xfs.clone();
    b.fmts = c.fmts.clone();
    b.sst = c.sst.clone();
    b.framing = c.framing.clone();
    b.deflate = c.deflate;
    b.styles_pre = c.spre.clone();
    b.raw_parts = c.raw.clone();
    b.sst_extras = c.sstx;
    for (i, (sh, p)) in c.sheets.iter().zip(parts).enumerate() {
        let mut s = XlsbSheet::new(&sh.name);
        s.state = sh.state;
        s.raw = Some(p.clone());
        if let Some(k) = &c.cont {
            s.part = Some(k.parts[i].clone());
            s.kind = match k.parts[i].split('/').next() {
                Some("chartsheets") => xlsbw::SheetKind::Chart,
                Some("dialogsheets") => xlsbw::SheetKind::Dialog,
                Some("macrosheets") => xlsbw::SheetKind::Macro,
                _ => xlsbw::SheetKind::Work,
            };
        }
        b.sheets.push(s);
    }
    if let Some(k) = &c.cont {
        let mut ids = k.ids.clone();
        if let Some(g) = &k.ghost {
            let mut s = XlsbSheet::new(g);
            s.no_rel = true;
            b.sheets.insert(0, s);
            ids.insert(0, "unused".into());
        }
        b.rel_ids = Some(ids);
        b.raw_parts.push(("xl/_rels/workbook.bin.rels".into(), k.xml.clone().into_bytes()));
    }
    b
}

/// the events quick-xml delivers for a relationships part under the reader's configuration, in the wire form of
/// the driver (`rels` / `book` requests)
fn rels_events(xml: &[u8]) -> String {
    use quick_xml::events::Event;
    let h = |b: &[u8]| hex(b);
    let mut rd = quick_xml::Reader::from_reader(xml);
    let cfg = rd.config_mut();
    cfg.check_end_names = false;
    cfg.trim_text(false);
    cfg.check_comments = false;
    cfg.expand_empty_elements = true;
    let mut out: Vec<String> = vec![];
    let mut buf = vec![];
    loop {
        match rd.read_event_into(&mut buf) {
            Ok(Event::Start(e)) => {
                let mut attrs = vec![];
                for a in e.attributes() {
                    match a {
                        Ok(a) => attrs.push(format!("{}={}", h(a.key.as_ref()), h(&a.value))),
                        Err(_) => {
                            attrs.push("!".into());
                            break;
                        }
                    }
                }
                out.push(format!("S:{}:{}", h(e.name().as_ref()), attrs.join(";")));
            }
            Ok(Event::End(e)) => out.push(format!("E:{}", h(e.name().as_ref()))),
            Ok(Event::Eof) => {
                out.push("F".into());
                break;
            }
            Err(_) => {
                out.push("X".into());
                break;
            }
            Ok(_) => out.push("O".into()),
        }
        buf.clear();
    }
    out.join(" ")
}

fn kind_name(it: &It) -> String {
    match it {
        It::Cell { kind, fmla, style, .. } => {
            let k = match kind {
                Kind::Blank => "blank",
                Kind::Rk(w) => match w & 3 {
                    0 => "rk_float",
                    1 => "rk_float100",
                    2 => "rk_int",
                    _ => "rk_int100",
                },
                Kind::Err(_) => "error",
                Kind::Bool(_) => "bool",
                Kind::Real(_) => "real",
                Kind::Str(_) => "str",
                Kind::Isst(_) => "isst",
            };
            let _ = style;
            if fmla.is_some() && !matches!(kind, Kind::Blank | Kind::Rk(_) | Kind::Isst(_)) {
                format!("fmla_{k}")
            } else {
                k.to_string()
            }
        }
        It::Row { .. } => "rowhdr".into(),
        It::Raw { id, .. } => format!("raw{id}"),
    }
}

/// name the first difference between the implementation's range and the expectation
fn diff_sig(c: &Case, sh: &SheetCase, got: &str, want: &BTreeMap<(u32, u32), String>) -> String {
    if !got.starts_with("ok") {
        return got.split(':').take(2).collect::<Vec<_>>().join("_").replace(' ', "_");
    }
    let mut have: BTreeMap<(u32, u32), String> = BTreeMap::new();
    if got != "ok E" {
        let body = got.rsplit_once(' ').unwrap().1;
        if body != "-" {
            for cell in body.split(';') {
                let mut p = cell.splitn(3, ',');
                let (r, col, v) = (p.next().unwrap(), p.next().unwrap(), p.next().unwrap());
                have.insert((r.parse().unwrap(), col.parse().unwrap()), v.to_string());
            }
        }
    }
    let classes = style_classes(c);
    let pos = want.iter().find(|(k, v)| have.get(k) != Some(v)).map(|(k, _)| *k).or_else(|| have.keys().find(|k| !want.contains_key(k)).copied());
    match pos {
        None => "bbox".into(),
        Some((r, col)) => {
            // the item that wrote this position
            let mut row = 0;
            let mut name = "stray".to_string();
            for it in &sh.items {
                match &it.it {
                    It::Row { r, .. } => row = *r,
                    It::Cell { col: cc, style, kind, .. } if row == r && *cc == col => {
                        name = kind_name(&it.it);
                        let cls = classes.get((*style & 0xFF_FFFF) as usize).copied().unwrap_or(0);
                        if cls != 0 && matches!(kind, Kind::Rk(_) | Kind::Real(_)) {
                            name.push_str("_datestyle");
                        }
                        if let Kind::Str(u) = kind {
                            if matches!(u.first(), Some(0xFEFF) | Some(0xFFFE) | Some(0xBBEF)) {
                                name.push_str("_bom");
                            }
                        }
                        if let Kind::Isst(i) = kind {
                            if let Some(u) = c.sst.as_ref().and_then(|s| s.get(*i as usize)) {
                                if matches!(u.first(), Some(0xFEFF) | Some(0xFFFE) | Some(0xBBEF)) {
                                    name.push_str("_bom");
                                }
                            }
                        }
                    }
                    _ => {}
                }
            }
            let what = if !have.contains_key(&(r, col)) {
                "missing"
            } else if !want.contains_key(&(r, col)) {
                "unexpected"
            } else {
                "value"
            };
            format!("cell_{name}_{what}")
        }
    }
}

/// value cells of the sheet data in stream order: (row, col, canonical value, record id)
fn stream_cells(c: &Case, sh: &SheetCase) -> Vec<(u32, u32, String, u16)> {
    let classes = style_classes(c);
    let (a, b) = data_span(&sh.items).unwrap_or((0, 0));
    let mut row = 0u32;
    let mut v = vec![];
    for it in &sh.items[a..b] {
        match &it.it {
            It::Row { r, .. } => row = *r,
            It::Cell { col, style, kind, .. } => {
                if let Some(val) = oracle_value(c, &classes, *style, kind) {
                    v.push((row, *col, val, item_id(&it.it)));
                }
            }
            _ => {}
        }
    }
    v
}

/// `with_header_row(HeaderRow::Row(n))` for n = the row of a cell that comes late in the stream (and of one in the
/// middle): only cells at or below row n are kept; when the first kept cell (stream order) is not in row n the range
/// still starts at row n, in that cell's column; every kept cell keeps its value — whatever the order of the rows.
fn header_row_stage(c: &Case, sh: &SheetCase, wb: &mut Xlsb<Cursor<Vec<u8>>>, out: &mut Outcome) {
    let cells = stream_cells(c, sh);
    if cells.is_empty() {
        return;
    }
    let mut ns = vec![cells[cells.len() - 1].0, cells[cells.len() / 2].0];
    ns.dedup();
    for n in ns {
        let kept: Vec<&(u32, u32, String, u16)> = cells.iter().filter(|x| x.0 >= n).collect();
        let mut want: BTreeMap<(u32, u32), String> = BTreeMap::new();
        for k in &kept {
            want.insert((k.0, k.1), k.2.clone());
        }
        // bounding box: the kept cells and the placeholder (n, column of the first kept cell)
        let first = kept[0];
        let mut pts: Vec<(u32, u32)> = want.keys().copied().collect();
        if first.0 != n {
            pts.push((n, first.1));
        }
        let expect = format!(
            "ok {} {} {} {} {}",
            pts.iter().map(|p| p.0).min().unwrap(),
            pts.iter().map(|p| p.1).min().unwrap(),
            pts.iter().map(|p| p.0).max().unwrap(),
            pts.iter().map(|p| p.1).max().unwrap(),
            want.iter().map(|((r, col), v)| format!("{r},{col},{v}")).collect::<Vec<_>>().join(";")
        );
        wb.with_header_row(calamine::HeaderRow::Row(n));
        let got = match guarded(|| wb.worksheet_range(&sh.name)) {
            Ok(Ok(r)) => canon_range(&r),
            Ok(Err(e)) => err_class(&e),
            Err(p) => format!("panic:{p}"),
        };
        wb.with_header_row(calamine::HeaderRow::FirstNonEmptyRow);
        if got != expect {
            out.fails.push(("impl_vs_spec".into(), "header_row".into(), got, format!("HeaderRow::Row({n})"), expect));
            return;
        }
    }
}

/// ONE `XlsbCellsReader` (public API: `worksheet_cells_reader`), `next_cell` and `next_formula` called in a random
/// interleaving: each call returns the next value cell / the next formula cell of the record stream, with the row
/// of the last row header — run on sheets whose formulas are all decodable.
fn interleave_stage(c: &Case, sh: &SheetCase, wb: &mut Xlsb<Cursor<Vec<u8>>>, out: &mut Outcome, rep: Option<&mut Counters>) {
    let (a, b) = data_span(&sh.items).unwrap_or((0, 0));
    let data = &sh.items[a..b];
    let decodable = data.iter().all(|f| match &f.it {
        It::Cell { fmla: Some(t), kind, .. } if !matches!(kind, Kind::Blank | Kind::Rk(_) | Kind::Isst(_)) => t[..] == TRIVIAL_FMLA[..],
        _ => true,
    });
    if !decodable {
        return;
    }
    let classes = style_classes(c);
    let mut rng = Rng::new(fnv64(sh.name.as_bytes()) ^ data.len() as u64);
    let pattern: Vec<bool> = (0..data.len() + 2).map(|_| rng.chance(1, 2)).collect(); // true = next_formula
    // description: walk the items
    let mut want: Vec<String> = vec![];
    let (mut i, mut row) = (0usize, 0u32);
    'calls: for &f in &pattern {
        loop {
            if i >= data.len() {
                want.push("end".into());
                break 'calls;
            }
            let it = &data[i].it;
            i += 1;
            match it {
                It::Row { r, .. } => {
                    row = *r;
                    if row > 0x0010_0000 {
                        want.push("end".into());
                        break 'calls;
                    }
                }
                It::Cell { col, style, kind, .. } => {
                    let id = item_id(it);
                    let hit = if f { (8..=11).contains(&id) } else { oracle_value(c, &classes, *style, kind).is_some() };
                    if hit {
                        want.push(format!("{}{row},{col}", if f { "F" } else { "C" }));
                        break;
                    }
                }
                _ => {}
            }
        }
    }
    let got = guarded(|| -> Vec<String> {
        let mut v = vec![];
        let mut rd = match wb.worksheet_cells_reader(&sh.name) {
            Ok(r) => r,
            Err(e) => return vec![err_class(&e)],
        };
        for &f in &pattern {
            let r = if f { rd.next_formula().map(|o| o.map(|c| c.get_position())) } else { rd.next_cell().map(|o| o.map(|c| c.get_position())) };
            match r {
                Ok(Some((r, col))) => v.push(format!("{}{r},{col}", if f { "F" } else { "C" })),
                Ok(None) => {
                    v.push("end".into());
                    break;
                }
                Err(e) => {
                    v.push(err_class(&e));
                    break;
                }
            }
        }
        v
    });
    let got = got.unwrap_or_else(|p| vec![format!("panic:{p}")]);
    if let Some(rep) = rep {
        rep.count("interleaved_reader_runs");
        rep.add("interleaved_reader_calls", pattern.len() as u64);
    }
    if got != want {
        let pat: String = pattern.iter().map(|f| if *f { 'F' } else { 'C' }).collect();
        out.fails.push(("impl_vs_spec".into(), "interleave".into(), got.join(" "), format!("calls {pat}"), want.join(" ")));
    }
}

fn run_case(c: &Case, drv: &mut Driver, rep: Option<&mut Counters>) -> Outcome {
    let mut out = Outcome { fails: vec![] };
    let classes = style_classes(c);
    let fm: String = if classes.is_empty() { "-".into() } else { classes.iter().map(|x| x.to_string()).collect() };
    let ss = match &c.sst {
        None => "-".to_string(),
        Some(v) if v.is_empty() => "-".into(),
        Some(v) => v.iter().map(|s| units_str(s)).collect::<Vec<_>>().join(","),
    };
    // sheet parts from the Lean encoder
    let mut parts = vec![];
    for sh in &c.sheets {
        let mut req = String::from("enc");
        for it in &sh.items {
            req.push(' ');
            req.push_str(&it.token());
        }
        let h = drv.ask(&req);
        assert!(!h.starts_with("bad"), "driver rejected enc: {h}");
        let mut b = unhex(&h);
        if let Some(cut) = sh.cut {
            b.truncate(cut.min(b.len()));
        }
        parts.push(b);
    }
    let book = build_book(c, &parts);
    let file = book.to_bytes();
    // since fix D40 (from_sparse takes min / max over all cells) the row order does not matter: the oracle applies
    let wellformed = c.fault == "-" || c.fault == "rows_unsorted";
    let mut rep = rep;

    // open
    let opened = guarded(|| Xlsb::new(Cursor::new(file.clone())));
    // a malformed shared-string part: the model of `read_shared_strings` says how opening must end
    let sst_model = c.raw.iter().find(|(n, _)| n == "xl/sharedStrings.bin").map(|(_, b)| drv.ask(&format!("sst {}", hex(b))));
    let mut wb = match opened {
        Ok(Ok(wb)) => {
            if let Some(m) = &sst_model {
                if !m.starts_with("ok") {
                    out.fails.push(("impl_vs_model".into(), format!("corr_{}", c.fault), "opened".into(), m.clone(), "-".into()));
                }
            }
            wb
        }
        Ok(Err(e)) => {
            if let Some(rep) = rep.as_deref_mut() {
                rep.count(&format!("open_{}", err_class(&e).replace(':', "_")));
            }
            if !c.raw.is_empty() {
                // a malformed part: an error is what is asked for
                if let Some(m) = &sst_model {
                    if *m != err_class(&e) {
                        out.fails.push(("impl_vs_model".into(), format!("corr_{}", c.fault), err_class(&e), m.clone(), "-".into()));
                    }
                }
                return out;
            }
            let sig = match &c.cont {
                Some(k) if k.tag != "plain" => format!("open_failed_{}", k.tag),
                _ => "open_failed".to_string(),
            };
            out.fails.push(("impl_vs_spec".into(), sig, err_class(&e), "-".into(), "workbook opens".into()));
            return out;
        }
        Err(p) => {
            let sig = if c.fault == "-" { "panic_open".to_string() } else { format!("panic_open_{}", c.fault) };
            out.fails.push(("impl_vs_spec".into(), sig, format!("panic:{p}"), "-".into(), "workbook opens, or an error".into()));
            return out;
        }
    };
    // style table, shared strings, date system through the hooks
    #[cfg(feature = "hooks")]
    if c.raw.is_empty() {
        use calamine::verif_hooks::xlsb as hk;
        let f = hk::c03_formats(&wb);
        if f != classes {
            out.fails.push(("impl_vs_spec".into(), "style_classes".into(), format!("{f:?}"), "-".into(), format!("{classes:?}")));
        }
        if hk::c03_is_1904(&wb) != c.date1904 {
            out.fails.push(("impl_vs_spec".into(), "date1904".into(), format!("{}", hk::c03_is_1904(&wb)), "-".into(), format!("{}", c.date1904)));
        }
        let strings = hk::c03_strings(&wb);
        let got: Vec<String> = strings.iter().map(|s| units_str(&s.encode_utf16().collect::<Vec<_>>())).collect();
        let want: Vec<String> = c.sst.clone().unwrap_or_default().iter().map(|s| canon_units(s)).collect();
        if let Some(sst) = &c.sst {
            let m = drv.ask(&format!("sst {}", hex(&book.sst_part(sst))));
            let mm = match m.strip_prefix("ok ") {
                Some("-") => vec![],
                Some(l) => l.split(',').map(|u| canon_units(&parse_units(u))).collect::<Vec<_>>(),
                None => vec![m.clone()],
            };
            if mm != got {
                let bom = sst.iter().any(|u| matches!(u.first(), Some(0xFEFF) | Some(0xFFFE) | Some(0xBBEF)));
                out.fails.push(("impl_vs_model".into(), if bom { "sst_bom".into() } else { "sst".into() }, got.join(","), mm.join(","), want.join(",")));
            }
        }
        if got != want {
            let bom = c.sst.as_ref().map_or(false, |s| s.iter().any(|u| matches!(u.first(), Some(0xFEFF) | Some(0xFFFE) | Some(0xBBEF))));
            out.fails.push(("impl_vs_spec".into(), if bom { "sst_bom".into() } else { "sst".into() }, got.join(","), "-".into(), want.join(",")));
        }
    }
    // container glue: the relationships part and the join of `read_workbook`, implementation vs model vs description
    #[cfg(feature = "hooks")]
    if c.raw.is_empty() {
        use calamine::verif_hooks::xlsb as hk;
        let xml = book.parts().into_iter().find(|(n, _)| n == "xl/_rels/workbook.bin.rels").map(|(_, b)| b).unwrap_or_default();
        let evs = rels_events(&xml);
        let tag = c.cont.as_ref().map_or("default".to_string(), |k| k.tag.clone());
        let got = match guarded(|| hk::c03_relationships(&file)) {
            Ok(Ok(m)) => {
                let mut v: Vec<String> = m.iter().map(|(k, t)| format!("{}={}", hex(k), hex(t.as_bytes()))).collect();
                v.sort();
                format!("ok {}", if v.is_empty() { "-".into() } else { v.join(",") })
            }
            Ok(Err(e)) => format!("err:{}", e.split(|c: char| !c.is_alphanumeric()).next().unwrap_or("?")),
            Err(_) => "panic".into(),
        };
        // the model lists latest first: keep the first of each id, then sort like the map
        let model = {
            let r = drv.ask(&format!("rels b {evs}"));
            match r.strip_prefix("ok ") {
                Some("-") => "ok -".to_string(),
                Some(l) => {
                    let mut seen = std::collections::BTreeMap::new();
                    for e in l.split(',') {
                        let (k, t) = e.split_once('=').unwrap();
                        seen.entry(k.to_string()).or_insert(t.to_string());
                    }
                    let mut v: Vec<String> = seen.iter().map(|(k, t)| format!("{k}={t}")).collect();
                    v.sort();
                    format!("ok {}", v.join(","))
                }
                None => r,
            }
        };
        if got != model {
            out.fails.push(("impl_vs_model".into(), format!("rels_{tag}"), got.clone(), model.clone(), "-".into()));
        }
        // description: every sheet's id maps to its target
        for (i, _) in c.sheets.iter().enumerate() {
            let (id, target) = match &c.cont {
                Some(k) => (k.ids[i].clone(), if k.tag == "absolute" { format!("/xl/{}", k.parts[i]) } else { k.parts[i].clone() }),
                None => (format!("rId{}", i + 1), book.sheet_path(i + book.sheets.len() - c.sheets.len())),
            };
            let want = format!("{}={}", hex(id.as_bytes()), hex(target.as_bytes()));
            if !got.split(|ch| ch == ' ' || ch == ',').any(|e| e == want) {
                out.fails.push(("impl_vs_spec".into(), format!("rels_{tag}"), got.clone(), model.clone(), format!("relationship {id} -> {target}")));
                break;
            }
        }
        if let Ok(wb_part) = book.parts().into_iter().find(|(n, _)| n == "xl/workbook.bin").map(|(_, b)| b).ok_or(()) {
            let m = drv.ask(&format!("book {} R {evs}", hex(&wb_part)));
            let impl_book = {
                let md = wb.sheets_metadata().to_vec();
                let paths = hk::c03_sheet_paths(&wb);
                let rows: Vec<String> = md
                    .iter()
                    .zip(&paths)
                    .map(|(s, (_, p))| format!("{}:{:?}:{:?}:{}", hex(s.name.as_bytes()), s.typ, s.visible, hex(p.as_bytes())))
                    .collect();
                format!("ok {} {}", hk::c03_is_1904(&wb) as u8, if rows.is_empty() { "-".into() } else { rows.join(" ") })
            };
            if m != impl_book {
                out.fails.push(("impl_vs_model".into(), format!("book_{tag}"), impl_book.clone(), m.clone(), "-".into()));
            }
            // description: sheet i resolves to the part written for sheet i
            let paths = hk::c03_sheet_paths(&wb);
            for (i, sh) in c.sheets.iter().enumerate() {
                let want = format!("xl/{}", book.sheet_path(i + book.sheets.len() - c.sheets.len()));
                if paths.iter().find(|(n, _)| *n == sh.name).map(|(_, p)| p.clone()) != Some(want.clone()) {
                    out.fails.push(("impl_vs_spec".into(), format!("book_{tag}"), impl_book.clone(), m.clone(), format!("sheet {} -> {want}", sh.name)));
                    break;
                }
            }
        }
    }
    let names = wb.sheet_names();
    let want_names: Vec<String> = c.sheets.iter().map(|s| s.name.clone()).collect();
    if !c.raw.is_empty() {
        // whole parts were replaced: only the absence of panics is asked of the remaining calls
        for n in &names {
            if let Err(p) = guarded(|| wb.worksheet_range(n).map(|_| ())) {
                out.fails.push(("impl_vs_spec".into(), format!("panic_{}", c.fault), format!("panic:{p}"), "-".into(), "an error or a range, never a panic".into()));
            }
        }
        return out;
    }
    if names != want_names {
        out.fails.push(("impl_vs_spec".into(), "sheet_names".into(), format!("{names:?}"), "-".into(), format!("{want_names:?}")));
        return out;
    }
    let mut per_name: Vec<(String, String)> = vec![];
    for (i, sh) in c.sheets.iter().enumerate() {
        // D37 guard: never let the reader (or the model) build a dense range above 2^21 cells — a fault or a
        // shrinking step can move cells far apart
        let area = drv.ask(&format!("area {fm} {} {ss} {}", c.date1904 as u8, hex(&parts[i])));
        // (not for the one case that exists to reach the `u32` overflow of the column span: nothing is allocated there)
        let span_case = c.fault == "col_span_u32";
        if !span_case && area.parse::<u64>().map_or(false, |a| a > 1 << 21) {
            if let Some(rep) = rep.as_deref_mut() {
                rep.count("skipped_sheet_over_area_cap");
            }
            continue;
        }
        // Framing first: the record list the real `RecordIter` reads from this part against the model's (and, for a
        // well-formed sheet, against the ids of the description). A reader that mis-frames records produces garbage
        // cells anywhere in the u32 square; it is reported here, with the file, and the dense range is not built.
        #[cfg(feature = "hooks")]
        {
            let path = format!("xl/{}", book.sheet_path(i + book.sheets.len() - c.sheets.len()));
            let recs = guarded(|| calamine::verif_hooks::xlsb::c03_records(&file, &path));
            let got = match &recs {
                Ok(Ok((recs, trunc))) => format!("{} {}", if *trunc { "io" } else { "ok" }, recs.iter().map(|(t, p)| format!("{t}:{}", hex(p))).collect::<Vec<_>>().join(" ")),
                Ok(Err(e)) => format!("err:{e}"),
                Err(p) => format!("panic:{p}"),
            };
            let model = drv.ask(&format!("recs {}", hex(&parts[i])));
            if got.trim_end() != model.trim_end() {
                let clip = |s: &str| -> String { if s.len() > 400 { format!("{}…[{} chars]", &s[..400], s.len()) } else { s.to_string() } };
                let ids_got: Vec<u16> = match &recs {
                    Ok(Ok((r, _))) => r.iter().map(|x| x.0).collect(),
                    _ => vec![],
                };
                let ids_want: Vec<u16> = sh.items.iter().map(|f| item_id(&f.it)).collect();
                if wellformed && sh.cut.is_none() && ids_got != ids_want {
                    out.fails.push(("impl_vs_spec".into(), "framing".into(), clip(&got), clip(&model), format!("record ids {:?}", &ids_want[..ids_want.len().min(40)])));
                }
                out.fails.push(("impl_vs_model".into(), "framing".into(), clip(&got), clip(&model), "-".into()));
                if let Some(rep) = rep.as_deref_mut() {
                    rep.count("skipped_sheet_framing_differs");
                }
                continue;
            }
        }
        // Second guard, public API only: the cells the real `next_cell` yields must not span more than the cap either
        // (the `area` test above speaks for the model, not for a changed implementation).
        let impl_area = guarded(|| -> Option<u128> {
            let mut rd = wb.worksheet_cells_reader(&sh.name).ok()?;
            let (mut r0, mut r1, mut c0, mut c1) = (u32::MAX, 0u32, u32::MAX, 0u32);
            let mut any = false;
            while let Ok(Some(cell)) = rd.next_cell() {
                if matches!(cell.get_value(), calamine::DataRef::Empty) {
                    continue;
                }
                let (r, cc) = cell.get_position();
                any = true;
                r0 = r0.min(r);
                r1 = r1.max(r);
                c0 = c0.min(cc);
                c1 = c1.max(cc);
            }
            if any {
                Some((r1 - r0) as u128 + 1).map(|h| h * ((c1 - c0) as u128 + 1))
            } else {
                Some(0)
            }
        });
        if let Ok(Some(a)) = impl_area {
            if a > 1 << 21 && !span_case {
                out.fails.push(("impl_vs_model".into(), "impl_bbox_over_cap".into(), format!("next_cell yields cells spanning {a} positions"), format!("area {area}"), "-".into()));
                if let Some(rep) = rep.as_deref_mut() {
                    rep.count("skipped_sheet_impl_area");
                }
                continue;
            }
        }
        let model = normalise_model(&drv.ask(&format!("dec {fm} {} {ss} {}", c.date1904 as u8, hex(&parts[i]))));
        let got = match guarded(|| wb.worksheet_range(&sh.name)) {
            Ok(Ok(r)) => canon_range(&r),
            Ok(Err(e)) => err_class(&e),
            Err(p) => format!("panic:{p}"),
        };
        let got_class = if got.starts_with("panic") { "panic".to_string() } else { got.clone() };
        let got_ref = match guarded(|| wb.worksheet_range_ref(&sh.name).map(|r| {
            let (s, e) = (r.start(), r.end());
            match (s, e) {
                (Some(s), Some(e)) => {
                    let body: Vec<String> = r.used_cells().map(|(i, j, v)| format!("{},{},{}", s.0 as usize + i, s.1 as usize + j, canon_data(&Data::from(v.clone())))).collect();
                    format!("ok {} {} {} {} {}", s.0, s.1, e.0, e.1, if body.is_empty() { "-".into() } else { body.join(";") })
                }
                _ => "ok E".to_string(),
            }
        })) {
            Ok(Ok(s)) => s,
            Ok(Err(e)) => err_class(&e),
            Err(_) => "panic".into(),
        };
        if got_ref != got_class {
            out.fails.push(("impl_vs_spec".into(), "range_ref_differs".into(), got_ref.clone(), model.clone(), got_class.clone()));
        }
        if c.fault.starts_with("fmla_") {
            if let Err(p) = guarded(|| wb.worksheet_formula(&sh.name).map(|_| ())) {
                out.fails.push(("impl_vs_spec".into(), format!("panic_{}", c.fault), format!("panic:{p}"), model.clone(), "worksheet_formula: an error or a range, never a panic".into()));
            }
        }
        if wellformed && sh.cut.is_none() && got_class.starts_with("ok") {
            header_row_stage(c, sh, &mut wb, &mut out);
            interleave_stage(c, sh, &mut wb, &mut out, rep.as_deref_mut());
        }
        let (expect, want) = oracle_sheet(c, sh);
        if let Some(rep) = rep.as_deref_mut() {
            rep.count(&format!("outcome_{}", got_class.split(|c| c == ' ' || c == ':').take(if got_class.starts_with("err") { 2 } else { 1 }).collect::<Vec<_>>().join("_")));
        }
        if wellformed {
            if got_class != expect {
                out.fails.push(("impl_vs_spec".into(), diff_sig(c, sh, &got_class, &want), got.clone(), model.clone(), expect.clone()));
            }
            // the Lean-side statement of the expectation (`specCells`) against the oracle here
            let mut req = format!("spec {fm} {} {ss}", c.date1904 as u8);
            let (a, b) = data_span(&sh.items).unwrap_or((0, 0));
            for it in &sh.items[a..b] {
                req.push(' ');
                req.push_str(&it.token());
            }
            let spec = normalise_model(&drv.ask(&req));
            if spec != expect || model != expect {
                out.fails.push(("model_vs_spec".into(), "spec".into(), got.clone(), format!("dec={model} spec={spec}"), expect.clone()));
            }
        } else if got_class == "panic" {
            out.fails.push(("impl_vs_spec".into(), format!("panic_{}", c.fault), got.clone(), model.clone(), "an error or a range, never a panic".into()));
        }
        if got_class != model {
            let sig = if wellformed { diff_sig(c, sh, &got_class, &want) } else { format!("corr_{}", c.fault) };
            out.fails.push(("impl_vs_model".into(), sig, got.clone(), model.clone(), expect.clone()));
        }
        per_name.push((sh.name.clone(), got_class));
    }
    // `Reader::worksheets()`: every sheet whose `worksheet_range(name)` succeeds, in tab order, with that range —
    // whatever the kinds (work / chart / dialog / macro sheet) and their order. Only when every sheet was read above
    // (none skipped by a guard), so that no range is built here that was refused there.
    if per_name.len() == c.sheets.len() && !per_name.iter().any(|(_, g)| g == "panic") {
        let want: Vec<String> = per_name.iter().filter(|(_, g)| g.starts_with("ok")).map(|(n, g)| format!("{n}={g}")).collect();
        let got: Vec<String> = match guarded(|| wb.worksheets()) {
            Ok(v) => v.iter().map(|(n, r)| format!("{n}={}", canon_range(r))).collect(),
            Err(p) => vec![format!("panic:{p}")],
        };
        if let Some(rep) = rep.as_deref_mut() {
            rep.count("worksheets_call");
        }
        if got != want {
            let clip = |v: &Vec<String>| -> String { v.iter().map(|x| if x.len() > 120 { format!("{}…", &x[..x.char_indices().map(|(i, _)| i).take_while(|i| *i <= 120).last().unwrap_or(0)]) } else { x.clone() }).collect::<Vec<_>>().join(" | ") };
            out.fails.push(("impl_vs_spec".into(), "worksheets".into(), clip(&got), "-".into(), clip(&want)));
        }
    }
    out
}

// ------------------------------------------------------------------------------------------------
// generator
// ------------------------------------------------------------------------------------------------

const ERR_CODES: [u8; 8] = [0x00, 0x07, 0x0F, 0x17, 0x1D, 0x24, 0x2A, 0x2B];

/// a long mostly-ASCII string (32..200 units, every length mod 4) with a few characters above U+00FF / U+007F at
/// the end, the start or the middle: readers with an ASCII or Latin-1 fast path must not cut them
fn gen_long_ascii_units(rng: &mut Rng) -> Vec<u16> {
    let n = rng.range(32, 200) as usize;
    let mut u: Vec<u16> = (0..n).map(|_| *rng.pick(&[0x20u16, 0x41, 0x61, 0x7A, 0x30, 0x39, 0x3A, 0x2E, 0x65])).collect();
    let special: [u16; 8] = [0x20AC, 0x00E9, 0x4E2D, 0x0100, 0x0080, 0x00FF, 0x2019, 0x0416];
    let k = rng.range(1, 3) as usize;
    match rng.below(4) {
        0 | 1 => {
            // the last 1..3 units
            for i in 0..k {
                u[n - 1 - i] = *rng.pick(&special);
            }
        }
        2 => {
            for i in 0..k {
                u[i] = *rng.pick(&special);
            }
        }
        _ => {
            let at = rng.below(n as u64 - 3) as usize;
            for i in 0..k {
                u[at + i] = *rng.pick(&special);
            }
        }
    }
    if rng.chance(1, 5) {
        // a surrogate pair as the very last character
        u[n - 2] = 0xD83D;
        u[n - 1] = 0xDE00;
    }
    u
}

fn gen_units(rng: &mut Rng) -> Vec<u16> {
    if rng.chance(1, 6) {
        return gen_long_ascii_units(rng);
    }
    let n = *rng.pick(&[0usize, 1, 1, 2, 3, 5, 8, 20, 130]);
    // now and then a long string, or one around the 32767-character limit of a cell (a record of more than 64 KiB)
    let n = if rng.chance(1, 400) { 9000 } else if rng.chance(1, 500) { 32760 + rng.below(8) as usize } else { n };
    let alpha: &[u16] = match rng.below(6) {
        0 | 1 => &[0x61, 0x62, 0x63, 0x20, 0x58, 0x59, 0x5A, 0x30, 0x31, 0x39],
        2 => &[0x61, 0x26, 0x3C, 0x3E, 0x22, 0x27, 0x20, 0x62],
        3 => &[0x61, 0xE9, 0x4E2D, 0x09, 0x0A, 0xD83D, 0xDE00, 0xFFFD],
        4 => &[0xFEFF, 0xFFFE, 0xBBEF, 0xBF, 0x41, 0x00],
        _ => &[0xD800, 0xDC00, 0x41, 0xDBFF, 0xDFFF, 0x7A],
    };
    (0..n).map(|_| *rng.pick(alpha)).collect()
}

fn gen_kind(rng: &mut Rng, nsst: usize) -> Kind {
    match rng.below(12) {
        0 => Kind::Blank,
        1 | 2 => {
            let v: i32 = match rng.below(4) {
                0 => *rng.pick(&[0, 1, -1, 44197, -5, 100, 12300, (1 << 29) - 1, -(1 << 29), 59, 60, 61]),
                1 => rng.range(0, 60000) as i32,
                _ => (rng.below(1 << 30) as i64 - (1 << 29)) as i32,
            };
            Kind::Rk(((v as u32) << 2) | 2 | rng.below(2) as u32)
        }
        3 => {
            let bits: u64 = match rng.below(3) {
                0 => rng.pick(&[1.5f64, -2.25, 1e300, 0.1, 44197.5, 0.0, -0.0, f64::INFINITY, f64::NAN]).to_bits(),
                _ => rng.next(),
            };
            Kind::Rk(((bits >> 32) as u32 & 0xFFFF_FFFC) | rng.below(2) as u32)
        }
        4 => Kind::Err(*rng.pick(&ERR_CODES)),
        5 => Kind::Bool(*rng.pick(&[0u8, 1, 1, 2, 255])),
        6 | 7 => Kind::Real(match rng.below(3) {
            0 => rng.pick(&[1.5f64, -2.25, 1e300, 0.1, 44197.25, 2958465.0, 0.0, -0.0, f64::INFINITY, f64::NAN, 5e-324]).to_bits(),
            1 => (rng.range(0, 60000) as f64 + rng.below(86400) as f64 / 86400.0).to_bits(),
            _ => rng.next(),
        }),
        8 | 9 => Kind::Str(gen_units(rng)),
        _ => {
            if nsst == 0 {
                Kind::Str(gen_units(rng))
            } else {
                Kind::Isst(rng.below(nsst as u64) as u32)
            }
        }
    }
}

/// `base + below(max)` random bytes
fn rbytes(rng: &mut Rng, max: u64, base: usize) -> Vec<u8> {
    let n = rng.below(max) as usize + base;
    rng.bytes(n)
}

fn gen_fmla(rng: &mut Rng) -> Vec<u8> {
    // grbitFlags, cce, rgce, cb, rgcb — the cell loop never looks at these bytes
    match rng.below(3) {
        0 => vec![0, 0, 3, 0, 0, 0, 0x1E, 1, 0, 0, 0, 0, 0],
        1 => {
            let n = rng.below(40) as usize;
            let mut v = vec![rng.next() as u8, 0];
            v.extend_from_slice(&(n as u32).to_le_bytes());
            v.extend(rng.bytes(n));
            v.extend_from_slice(&[0, 0, 0, 0]);
            v
        }
        _ => rbytes(rng, 20, 1),
    }
}

const NOISE_LENS: [usize; 9] = [0, 1, 4, 5, 8, 16, 127, 128, 300];

fn gen_noise_id(rng: &mut Rng) -> u16 {
    loop {
        let id = match rng.below(4) {
            0 => *rng.pick(&[1u16, 12, 13, 0x31, 0x7F, 0x80, 0x91, 0x94, 0x1AA, 0x427, 0x3FFF]),
            1 => rng.range(12, 127) as u16,
            _ => rng.range(128, 0x3FFF) as u16,
        };
        if !xlsbw::is_interpreted_id(id) {
            return id;
        }
    }
}

struct FrameMode(u8);
impl FrameMode {
    fn frame(&self, rng: &mut Rng, it: It) -> Fr {
        match self.0 {
            0 => Fr { it, wide: false, lenw: 0 },
            1 => Fr { it, wide: true, lenw: 4 },
            _ => Fr { it, wide: rng.chance(1, 2), lenw: rng.below(5) as u8 },
        }
    }
}

fn log_uniform(rng: &mut Rng, max: u64) -> u64 {
    // 1..=max, roughly uniform in the exponent
    let bits = 64 - max.leading_zeros() as u64;
    let b = rng.range(0, bits);
    let hi = if b >= 63 { u64::MAX } else { (1u64 << b).max(1) };
    (rng.below(hi.min(max)) + 1).min(max)
}

/// a skipped block of about `target` bytes: kind 0 = BrtBeginColInfos … (N BrtColInfo of 18 bytes), 1 = views
/// (BrtBeginWsViews … with view records of 30 bytes and a few large ones), 2 = AC block 0x25 … 0x26 holding
/// unknown-id records of several KiB
fn long_block(rng: &mut Rng, items: &mut Vec<Fr>, fm: &FrameMode, kind: u8, target: usize) {
    let (start, end): (u16, u16) = match kind {
        0 => (0x186, 0x187),
        1 => (0x85, 0x86),
        _ => (0x25, 0x26),
    };
    let mut push = |rng: &mut Rng, id: u16, payload: Vec<u8>| {
        let f = fm.frame(rng, It::Raw { id, payload });
        items.push(f);
    };
    push(rng, start, if kind == 2 { vec![1, 0, 0, 0, 0, 0] } else { vec![] });
    let mut total = 0usize;
    while total < target {
        let (id, n) = match kind {
            0 => (0x3Cu16, 18usize),
            1 => {
                if rng.chance(1, 6) {
                    (*rng.pick(&[0x98u16, 0x97, 0x3FFE]), rng.range(500, 4000) as usize)
                } else {
                    (0x89, 30)
                }
            }
            _ => (*rng.pick(&[0x3FFDu16, 0x0401, 0x91, 0x02]), rng.range(1000, 6000) as usize),
        };
        let n = n.min(target - total + 7);
        let p = rng.bytes(n);
        push(rng, id, p);
        total += n + 3;
    }
    push(rng, end, vec![]);
}

/// grbitFlags, cce = 3, PtgInt 1, cb = 0: the formula `=1`
const TRIVIAL_FMLA: [u8; 13] = [0, 0, 3, 0, 0, 0, 0x1E, 1, 0, 0, 0, 0, 0];

fn gen_sheet(rng: &mut Rng, name: String, nsst: usize, nxf: usize) -> SheetCase {
    // in half of the sheets every formula is a decodable one, so that `next_formula` can be run on them
    let simple_fmla = rng.chance(1, 2);
    let fm = FrameMode(rng.below(3) as u8);
    let p_noise = *rng.pick(&[0u64, 0, 1, 4]);
    // bounding box: ≤ 2^21 cells (ledger D37), biased to the corners of the grid; the largest boxes only with few
    // cells (the Lean model of `Range::from_sparse` writes cell by cell into a list)
    let cap: u64 = match rng.below(60) {
        0 => 1 << 21,
        1..=5 => 1 << 17,
        _ => 1 << 11,
    };
    let ncells = match rng.below(10) {
        0 => 0,
        1..=5 => rng.range(1, 12),
        6..=8 => rng.range(10, 80),
        _ => rng.range(80, 300),
    } as usize;
    let ncells = if cap == 1 << 21 { ncells.min(12) } else if cap == 1 << 17 { ncells.min(40) } else { ncells };
    let h = log_uniform(rng, cap.min(1 << 20));
    let w = log_uniform(rng, (cap / h).min(1 << 14).max(1));
    let r0 = match rng.below(5) {
        0 | 1 => 0,
        2 | 3 => (1 << 20) - h,
        _ => rng.below((1 << 20) - h + 1),
    };
    let c0 = match rng.below(5) {
        0 | 1 => 0,
        2 | 3 => (1 << 14) - w,
        _ => rng.below((1 << 14) - w + 1),
    };
    let mut pos: BTreeMap<(u32, u32), ()> = BTreeMap::new();
    for _ in 0..ncells {
        let r = match rng.below(4) {
            0 => r0,
            1 => r0 + h - 1,
            _ => r0 + rng.below(h),
        };
        let c = match rng.below(4) {
            0 => c0,
            1 => c0 + w - 1,
            _ => c0 + rng.below(w),
        };
        pos.insert((r as u32, c as u32), ());
    }
    let mut items: Vec<Fr> = vec![];
    let noise = |rng: &mut Rng, items: &mut Vec<Fr>| {
        while p_noise > 0 && rng.below(10) < p_noise {
            // mostly short payloads; now and then one that needs a 3-byte length
            let n = if rng.chance(1, 80) { 16384 + rng.below(100) as usize } else { *rng.pick(&NOISE_LENS) };
            let it = It::Raw { id: gen_noise_id(rng), payload: rng.bytes(n) };
            let f = fm.frame(rng, it);
            items.push(f);
        }
    };
    // prologue
    let rich = rng.chance(1, 2);
    let push = |rng: &mut Rng, items: &mut Vec<Fr>, id: u16, payload: Vec<u8>| {
        let f = fm.frame(rng, It::Raw { id, payload });
        items.push(f);
    };
    push(rng, &mut items, 0x81, vec![]);
    if rich {
        push(rng, &mut items, 0x93, vec![0xC9, 0x04, 0x02, 0, 0x40, 0, 0, 0, 0, 0, 0, 0, 0, 0, 0, 0xFF, 0xFF, 0xFF, 0xFF, 0, 0, 0, 0]);
    }
    let bb = if pos.is_empty() {
        [0u32; 4]
    } else {
        [pos.keys().map(|k| k.0).min().unwrap(), pos.keys().map(|k| k.0).max().unwrap(), pos.keys().map(|k| k.1).min().unwrap(), pos.keys().map(|k| k.1).max().unwrap()]
    };
    let dims: [u32; 4] = match rng.below(4) {
        0 => [0, 0, 0, 0],
        1 => [0, bb[1].saturating_add(3).min(1048575), 0, 16383],
        _ => bb,
    };
    let mut d = vec![];
    for x in dims {
        d.extend_from_slice(&x.to_le_bytes());
    }
    if rng.chance(1, 6) {
        let n = rng.below(9) as usize;
        d.extend(rng.bytes(n)); // longer BrtWsDim than the 16 bytes read
    }
    push(rng, &mut items, 0x94, d);
    // now and then a LONG skipped block (views / AC / column infos) so that the prologue crosses the reader's
    // 8 KiB buffer once or several times, with records straddling the refill points
    if rng.chance(1, 10) {
        let target = match rng.below(4) {
            0 => 8192,
            1 => 16384,
            2 => 65536,
            _ => rng.range(5000, 30000) as usize,
        } + rng.below(96) as usize
            - 48;
        let kind = rng.below(3) as u8;
        long_block(rng, &mut items, &fm, kind, target);
    }
    if rich || rng.chance(1, 2) {
        push(rng, &mut items, 0x85, vec![]);
        let p = rng.bytes(30);
        push(rng, &mut items, 0x89, p);
        if rng.chance(1, 3) {
            // records inside a skipped block, including ids that would otherwise matter
            if rng.chance(1, 2) {
                let id = *rng.pick(&[0x94u16, 0x98, 0x3FFF]);
                let n = *rng.pick(&[0usize, 4, 36]);
                let p = rng.bytes(n);
                push(rng, &mut items, id, p);
            } else {
                // what a reader that does not skip the block would take for sheet data
                push(rng, &mut items, 0x91, vec![]);
                let f = fm.frame(rng, It::Row { r: bb[0], tail: vec![0; 13] });
                items.push(f);
                let f = fm.frame(rng, It::Cell { col: bb[2], style: 0, kind: Kind::Bool(1), fmla: None });
                items.push(f);
                if rng.chance(1, 2) {
                    push(rng, &mut items, 0x92, vec![]);
                }
            }
        }
        push(rng, &mut items, 0x8A, vec![]);
        push(rng, &mut items, 0x86, vec![]);
    }
    if rich {
        push(rng, &mut items, 0x1E5, vec![0xFF, 0xFF, 0xFF, 0xFF, 8, 0, 0x2C, 1, 0, 0, 0, 0]);
        push(rng, &mut items, 0x186, vec![]);
        push(rng, &mut items, 0x3C, vec![0, 0, 0, 0, 2, 0, 0, 0, 0, 9, 0, 0, 0, 0, 0, 0, 2, 0]);
        push(rng, &mut items, 0x187, vec![]);
    }
    push(rng, &mut items, 0x91, vec![]);
    // sheet data
    let mut cur: Option<u32> = None;
    for &(r, c) in pos.keys() {
        if cur != Some(r) {
            if rng.chance(1, 20) && cur.map_or(r > 0, |p| p + 1 < r) {
                // a row header without cells
                let er = cur.map_or(0, |p| p + 1);
                let tail = rng.bytes(13);
                let f = fm.frame(rng, It::Row { r: er, tail });
                items.push(f);
            }
            noise(rng, &mut items);
            // BrtRowHdr behind the row number: ixfe, miyRw, three flag bytes (fGhostDirty = bit 0x40 of the second),
            // ccolspan and the colspan array — every field varied; the cell loop reads the row number only
            let tail = match rng.below(4) {
                0 => {
                    let k = rng.below(3) as usize;
                    rng.bytes(13 + 8 * k)
                }
                1 | 2 => {
                    let mut t = (rng.below(nxf as u64 + 2) as u32).to_le_bytes().to_vec(); // a real XF index (or just past the table)
                    t.extend_from_slice(&(rng.range(0, 8192) as u16).to_le_bytes()); // miyRw
                    t.push(rng.next() as u8 & 0x03);
                    t.push((rng.next() as u8 & 0xBF) | if rng.chance(2, 3) { 0x40 } else { 0 });
                    t.push(rng.next() as u8 & 0x01);
                    let k = rng.below(3) as u32;
                    t.extend_from_slice(&k.to_le_bytes());
                    for j in 0..k {
                        t.extend_from_slice(&(j * 1024).to_le_bytes());
                        t.extend_from_slice(&(j * 1024 + rng.below(1024) as u32).to_le_bytes());
                    }
                    t
                }
                _ => vec![0; 13],
            };
            let f = fm.frame(rng, It::Row { r, tail });
            items.push(f);
            cur = Some(r);
        }
        noise(rng, &mut items);
        let kind = gen_kind(rng, nsst);
        let style = match rng.below(8) {
            0 => rng.below(nxf as u64 + 2) as u32,
            1 => *rng.pick(&[0xFF_FFFFu32, 0x01_0000, 0x00_0100]),
            _ => rng.below(nxf.max(1) as u64) as u32,
        };
        let fmla = if matches!(kind, Kind::Err(_) | Kind::Bool(_) | Kind::Real(_) | Kind::Str(_)) && rng.chance(2, 5) { Some(if simple_fmla { TRIVIAL_FMLA.to_vec() } else { gen_fmla(rng) }) } else { None };
        let f = fm.frame(rng, It::Cell { col: c, style, kind, fmla });
        items.push(f);
    }
    noise(rng, &mut items);
    push(rng, &mut items, 0x92, vec![]);
    // epilogue: anything, including records that look like cells
    if rng.chance(1, 3) {
        let p = rng.bytes(4);
        push(rng, &mut items, 0xB1, p);
        if rng.chance(1, 2) {
            let f = fm.frame(rng, It::Row { r: 5, tail: vec![0; 13] });
            items.push(f);
            let f = fm.frame(rng, It::Cell { col: 1, style: 0, kind: Kind::Bool(1), fmla: None });
            items.push(f);
        }
    }
    if rng.chance(9, 10) {
        push(rng, &mut items, 0x82, vec![]);
    }
    SheetCase { name, state: *rng.pick(&[0u32, 0, 0, 1, 2]), items, cut: None }
}

fn gen_case0(rng: &mut Rng) -> Case {
    let (xfs, fmts) = match rng.below(8) {
        0 => (None, vec![]),
        1 => (Some(vec![]), vec![]),
        _ => {
            let nf = rng.below(4) as usize;
            let fmts: Vec<(u16, String)> = (0..nf).map(|i| (164 + i as u16, rng.pick(&CUSTOM_FMTS).0.to_string())).collect();
            let nx = rng.range(1, 7) as usize;
            let xfs = (0..nx)
                .map(|_| match rng.below(4) {
                    0 => 0u16,
                    1 => *rng.pick(&[14u16, 15, 18, 20, 22, 45, 46, 47, 1, 2, 9, 49]),
                    2 if nf > 0 => 164 + rng.below(nf as u64) as u16,
                    _ => *rng.pick(&[0u16, 14, 46, 200]),
                })
                .collect();
            (Some(xfs), fmts)
        }
    };
    let sst = match rng.below(6) {
        0 => None,
        1 => Some(vec![]),
        _ => Some((0..rng.range(1, 8)).map(|_| gen_units(rng)).collect::<Vec<_>>()),
    };
    let nsst = sst.as_ref().map_or(0, |s| s.len());
    let nxf = xfs.as_ref().map_or(0, |x| x.len());
    // fonts / fills / borders between the number formats and the cell XFs, as in every real styles part
    let mut spre = vec![];
    if xfs.is_some() && rng.chance(1, 3) {
        spre.push((0x0263u16, 1u32.to_le_bytes().to_vec())); // BrtBeginFonts
        for _ in 0..rng.range(1, 3) {
            let mut p = match rng.below(3) {
                0 => vec![0xDC, 0, 0, 0, 0x90, 0x01, 0, 0, 0, 2, 0, 0, 7, 1, 0, 0, 0, 0, 0xFF, 2],
                1 => rbytes(rng, 30, 1),
                // font height 1257 twips / a name with U+04E9 / U+04E7: the byte pairs E9 04, E7 04
                _ => vec![*rng.pick(&[0xE9u8, 0xE7]), 0x04, 1, 0, 0, 0, 0x90, 0x01, 0, 0, 0, 2],
            };
            p.extend_from_slice(&xlsbw::wide_str(*rng.pick(&["Calibri", "Arial", "\u{4e9}\u{4e7}"])));
            if rng.chance(1, 3) {
                p.push(*rng.pick(&[0x80u8, 0xE9, 0xFF]));
            }
            spre.push((0x002B, p)); // BrtFont
        }
        spre.push((0x0264, vec![])); // BrtEndFonts
        if rng.chance(1, 2) {
            spre.push((0x0272, 1u32.to_le_bytes().to_vec())); // BrtBeginCellStyleXFs
            spre.push((0x002F, vec![0xFF, 0xFF, 14, 0, 0, 0, 0, 0, 0, 0, 0, 0, 0, 0, 0, 0])); // BrtXF of a cell style (a date format!)
            spre.push((0x0273, vec![])); // BrtEndCellStyleXFs
        }
    }
    let nsheets = *rng.pick(&[1usize, 1, 1, 2, 3]);
    let names = ["Sheet1", "Données", "S 3"];
    let sheets = (0..nsheets).map(|i| gen_sheet(rng, names[i].to_string(), nsst, nxf)).collect();
    Case {
        date1904: rng.chance(1, 4),
        xfs,
        fmts,
        sst,
        framing: match rng.below(3) {
            0 => Framing::Minimal,
            1 => Framing::Widest,
            _ => Framing::Random(rng.below(1000)),
        },
        deflate: rng.chance(1, 2),
        spre,
        raw: vec![],
        sstx: if nsst > 0 && rng.chance(1, 2) { Some(rng.below(1 << 20)) } else { None },
        cont: None,
        fault: "-".into(),
        sheets,
    }
}

const REL_TYPE: &str = "http://schemas.openxmlformats.org/officeDocument/2006/relationships/worksheet";

/// the relationships part and the names it joins, for a given list of sheets; `tag` picks the variant
fn gen_cont(rng: &mut Rng, nsheets: usize, tag: &str) -> Cont {
    let id_styles = ["rId{}", "r{}é", "关系{}", "R {}", "rId0{}", "x-{}-ID", "rId{}\u{1F600}"];
    let style = *rng.pick(&id_styles);
    let ids: Vec<String> = (0..nsheets).map(|i| style.replace("{}", &(i + 1).to_string())).collect();
    let parts: Vec<String> = (0..nsheets)
        .map(|i| {
            let dir = *rng.pick(&["worksheets", "worksheets", "worksheets", "chartsheets", "dialogsheets", "macrosheets"]);
            match rng.below(4) {
                0 => format!("{dir}/sheet{}.bin", i + 1),
                1 => format!("{dir}/sheet{}.bin", nsheets - i), // the numbering of the parts need not follow the sheets
                2 => format!("{dir}/feuille é {}.bin", i + 1),
                _ => format!("{dir}/sub/s{}.bin", i + 1),
            }
        })
        .collect();
    // parts must be distinct
    let mut parts = parts;
    for i in 0..parts.len() {
        if parts[..i].contains(&parts[i]) {
            parts[i] = format!("worksheets/u{}.bin", i + 1);
        }
    }
    let (open, close, el) = if tag == "prefixed" {
        ("<pr:Relationships xmlns:pr=\"http://schemas.openxmlformats.org/package/2006/relationships\">", "</pr:Relationships>", "pr:Relationship")
    } else {
        ("<Relationships xmlns=\"http://schemas.openxmlformats.org/package/2006/relationships\">", "</Relationships>", "Relationship")
    };
    let mut rels: Vec<String> = vec![];
    let rel = |rng: &mut Rng, id: &str, target: &str| -> String {
        let mut attrs = vec![format!("Id=\"{id}\""), format!("Target=\"{target}\"")];
        if rng.chance(1, 2) {
            attrs.swap(0, 1);
        }
        let pos = rng.below(3) as usize;
        attrs.insert(pos, format!("Type=\"{REL_TYPE}\""));
        if rng.chance(1, 4) {
            attrs.push("TargetMode=\"Internal\"".into());
        }
        if rng.chance(1, 2) {
            format!("<{el} {}/>", attrs.join(" "))
        } else {
            format!("<{el} {}></{el}>", attrs.join(if rng.chance(1, 3) { "\n  " } else { " " }))
        }
    };
    for i in 0..nsheets {
        let target = if tag == "absolute" { format!("/xl/{}", parts[i]) } else { parts[i].clone() };
        if tag == "dup" {
            // an earlier relationship with the same id and another target: the later one wins
            let decoy = if nsheets > 1 { parts[(i + 1) % nsheets].clone() } else { "worksheets/none.bin".to_string() };
            let r = rel(rng, &ids[i], &decoy);
            rels.push(r);
        }
        let r = rel(rng, &ids[i], &target);
        rels.push(r);
    }
    if tag != "dup" {
        // the order of the relationships is free
        rng.shuffle(&mut rels);
    }
    // relationships of other parts, anywhere
    for (id, t) in [("rIdStyles", "styles.bin"), ("rIdSst", "sharedStrings.bin"), ("théme", "theme/theme1.xml")] {
        if rng.chance(1, 2) {
            let r = rel(rng, id, t);
            let at = rng.below(rels.len() as u64 + 1) as usize;
            rels.insert(at, r);
        }
    }
    let mut xml = String::new();
    if rng.chance(2, 3) {
        xml.push_str("<?xml version=\"1.0\" encoding=\"UTF-8\" standalone=\"yes\"?>\n");
    }
    xml.push_str(open);
    for r in &rels {
        if rng.chance(1, 4) {
            xml.push_str("\n  ");
        }
        if rng.chance(1, 10) {
            xml.push_str("<!-- Id=\"rId1\" -->");
        }
        xml.push_str(r);
    }
    xml.push_str(close);
    Cont { tag: tag.into(), ids, parts, xml, ghost: if rng.chance(1, 4) { Some("Ghost".into()) } else { None } }
}

fn gen_case(rng: &mut Rng) -> Case {
    let mut c = gen_case0(rng);
    if rng.chance(1, 3) {
        let tag = *rng.pick(&["plain", "plain", "dup", "prefixed", "absolute"]);
        c.cont = Some(gen_cont(rng, c.sheets.len(), tag));
    }
    c
}

/// inject one structural fault into a well-formed case
fn inject_fault(rng: &mut Rng, c: &mut Case) {
    let si = rng.below(c.sheets.len() as u64) as usize;
    let nsst = c.sst.as_ref().map_or(0, |s| s.len()) as u32;
    let sh = &mut c.sheets[si];
    let (data_start, data_end) = data_span(&sh.items).expect("generated sheets have a data section");
    let cells: Vec<usize> = (data_start..data_end).filter(|i| matches!(sh.items[*i].it, It::Cell { .. })).collect();
    let rows: Vec<usize> = (data_start..data_end).filter(|i| matches!(sh.items[*i].it, It::Row { .. })).collect();
    let choice = rng.below(13);
    let need_cell = matches!(choice, 0 | 1 | 2 | 3 | 9);
    if need_cell && cells.is_empty() || matches!(choice, 7 | 8 | 10) && rows.is_empty() {
        c.fault = "truncated_part".into();
        sh.cut = Some(rng.below(40) as usize);
        return;
    }
    let payload_of = |it: &It| -> (u16, Vec<u8>) {
        // payload as the writer module lays it out (the same layout as the Lean encoder)
        match it {
            It::Cell { col, style, kind, fmla } => {
                let val = match kind {
                    Kind::Blank => xlsbw::BVal::Blank,
                    Kind::Rk(w) => xlsbw::BVal::Rk(*w),
                    Kind::Err(e) => xlsbw::BVal::Error(*e),
                    Kind::Bool(b) => xlsbw::BVal::Bool(*b),
                    Kind::Real(b) => xlsbw::BVal::Real(*b),
                    Kind::Str(u) => xlsbw::BVal::Str(u.clone()),
                    Kind::Isst(i) => xlsbw::BVal::Isst(*i),
                };
                let cell = xlsbw::BCell { style: *style, val, fmla: None };
                let id = {
                    let mut cc = cell.clone();
                    if fmla.is_some() {
                        cc.fmla = Some(xlsbw::Fmla::default());
                    }
                    cc.record_id()
                };
                let mut p = cell.payload(*col);
                if let Some(f) = fmla {
                    if cell.val.has_fmla_record() {
                        p.extend_from_slice(f);
                    }
                }
                (id, p)
            }
            _ => unreachable!(),
        }
    };
    match choice {
        0 | 1 => {
            let i = *rng.pick(&cells);
            let (id, mut p) = payload_of(&sh.items[i].it);
            let cut = rng.below(p.len() as u64 + 1) as usize;
            p.truncate(cut.min(17));
            c.fault = format!("short_{}", kind_name(&sh.items[i].it));
            sh.items[i].it = It::Raw { id, payload: p };
        }
        2 => {
            let i = *rng.pick(&cells);
            if let It::Cell { kind, fmla, .. } = &mut sh.items[i].it {
                *kind = Kind::Isst(nsst + rng.below(3) as u32 * 1000);
                *fmla = None;
            }
            c.fault = "isst_range".into();
        }
        3 => {
            let i = *rng.pick(&cells);
            if let It::Cell { kind, .. } = &mut sh.items[i].it {
                *kind = Kind::Err(*rng.pick(&[1u8, 6, 8, 0x2C, 0xFF]));
            }
            c.fault = "bad_err_code".into();
        }
        4 => {
            c.fault = "truncated_part".into();
            sh.cut = Some(rng.below(400) as usize);
        }
        5 => {
            let i = sh.items.iter().position(|f| matches!(f.it, It::Raw { id: 0x94, .. })).unwrap();
            if rng.chance(1, 2) {
                sh.items.remove(i);
                c.fault = "no_wsdim".into();
            } else {
                if let It::Raw { payload, .. } = &mut sh.items[i].it {
                    payload.truncate(rng.below(16) as usize);
                }
                c.fault = "wsdim_short".into();
            }
        }
        6 => {
            let i = sh.items.iter().position(|f| matches!(f.it, It::Raw { id: 0x94, .. })).unwrap();
            if let It::Raw { payload, .. } = &mut sh.items[i].it {
                let mut d = vec![];
                let full = rng.chance(1, 3);
                let v: [u32; 4] = if full {
                    // the whole u32 square: (2^32)^2 cells do not fit the u64 of Dimensions::len
                    [0, u32::MAX, 0, u32::MAX]
                } else if rng.chance(1, 2) {
                    [5, 2, 0, 3]
                } else {
                    [0, 3, 9, 1]
                };
                for x in v {
                    d.extend_from_slice(&x.to_le_bytes());
                }
                *payload = d;
                c.fault = if full { "dims_full".into() } else { "dims_reversed".into() };
            }
        }
        7 => {
            let i = *rng.pick(&rows);
            sh.items[i].it = It::Raw { id: 0, payload: rbytes(rng, 4, 0) };
            c.fault = "short_rowhdr".into();
        }
        8 => {
            let i = *rng.pick(&rows);
            // 0x100000 is accepted as a row number by the reader (the test is `>`): use it only where the bounding
            // box stays below 2^21 cells (D37)
            let span = {
                let cols: Vec<u32> = cells.iter().filter_map(|j| if let It::Cell { col, .. } = &sh.items[*j].it { Some(*col) } else { None }).collect();
                let rws: Vec<u32> = rows.iter().filter_map(|j| if let It::Row { r, .. } = &sh.items[*j].it { Some(*r) } else { None }).collect();
                let w = cols.iter().max().map_or(1, |m| m - cols.iter().min().unwrap() + 1) as u64;
                let h = 0x0010_0000u64 - *rws.iter().min().unwrap() as u64 + 1;
                w * h
            };
            if let It::Row { r, .. } = &mut sh.items[i].it {
                *r = if span <= 1 << 21 { *rng.pick(&[0x0010_0000u32, 0x0010_0001, 0xFFFF_FFFF]) } else { *rng.pick(&[0x0010_0001u32, 0xFFFF_FFFF, 0x0020_0000]) };
            }
            c.fault = "row_too_big".into();
        }
        9 => {
            let i = *rng.pick(&cells);
            let (col, style) = match &sh.items[i].it {
                It::Cell { col, style, .. } => (*col, *style),
                _ => unreachable!(),
            };
            let mut p = col.to_le_bytes().to_vec();
            p.extend_from_slice(&style.to_le_bytes());
            p.extend_from_slice(&(*rng.pick(&[3u32, 1000, 0x7FFF_FFFF, 0xFFFF_FFFF])).to_le_bytes());
            p.extend_from_slice(&[0x41, 0, 0x42, 0]);
            sh.items[i].it = It::Raw { id: *rng.pick(&[6u16, 8]), payload: p };
            c.fault = "widestr_long".into();
        }
        10 => {
            // rows out of order: one row header gets the number of another row (inside the existing span, so the
            // bounding box stays below 2^21 cells, D37)
            let i = *rng.pick(&rows);
            let j = *rng.pick(&rows);
            let other = if let It::Row { r, .. } = &sh.items[j].it { *r } else { 0 };
            let first = if let It::Row { r, .. } = &sh.items[rows[0]].it { *r } else { 0 };
            if let It::Row { r, .. } = &mut sh.items[i].it {
                *r = if rng.chance(1, 2) { first } else { other };
            }
            c.fault = "rows_unsorted".into();
        }
        11 => {
            sh.items.truncate(data_end);
            c.fault = "no_end_sheet_data".into();
        }
        _ => {
            sh.items.remove(data_start - 1);
            c.fault = "no_begin_sheet_data".into();
        }
    }
}

// ------------------------------------------------------------------------------------------------
// shrinking
// ------------------------------------------------------------------------------------------------

fn fails_with(c: &Case, drv: &mut Driver, kind: &str, sig: &str) -> bool {
    run_case(c, drv, None).fails.iter().any(|f| f.0 == kind && f.1 == sig)
}

fn shrink(c: &Case, drv: &mut Driver, kind: &str, sig: &str) -> Case {
    let mut best = c.clone();
    let mut budget = 250;
    // drop whole sheets
    let mut i = 0;
    while best.sheets.len() > 1 && i < best.sheets.len() && budget > 0 {
        let mut t = best.clone();
        t.sheets.remove(i);
        budget -= 1;
        if fails_with(&t, drv, kind, sig) {
            best = t;
        } else {
            i += 1;
        }
    }
    // drop items, in halving chunks (never the structural records of the prologue / the end record)
    for si in 0..best.sheets.len() {
        if best.fault != "-" {
            break; // dropping items of a faulted sheet could replace the fault by another one
        }
        let mut chunk = best.sheets[si].items.len() / 2;
        while chunk >= 1 && budget > 0 {
            let mut start = 0;
            while start < best.sheets[si].items.len() && budget > 0 {
                let mut t = best.clone();
                let end = (start + chunk).min(t.sheets[si].items.len());
                let keep_struct = t.sheets[si].items[start..end].iter().any(|f| matches!(f.it, It::Raw { id: 0x81 | 0x94 | 0x91 | 0x92 | 0x85 | 0x86 | 0x25 | 0x26 | 0x186 | 0x187, .. }));
                if keep_struct && best.fault == "-" {
                    start += chunk;
                    continue;
                }
                t.sheets[si].items.drain(start..end);
                budget -= 1;
                if fails_with(&t, drv, kind, sig) {
                    best = t;
                } else {
                    start += chunk;
                }
            }
            chunk /= 2;
        }
    }
    // simplify framing and container
    for f in [0, 1, 2] {
        let mut t = best.clone();
        match f {
            0 => {
                for s in &mut t.sheets {
                    for it in &mut s.items {
                        it.wide = false;
                        it.lenw = 0;
                    }
                }
            }
            1 => t.framing = Framing::Minimal,
            _ => t.deflate = false,
        }
        if t != best && budget > 0 && fails_with(&t, drv, kind, sig) {
            best = t;
        }
        budget -= 1;
    }
    best
}

// ------------------------------------------------------------------------------------------------
// corpus: every defect found so far, minimal
// ------------------------------------------------------------------------------------------------

fn plain(items: Vec<It>) -> Vec<Fr> {
    items.into_iter().map(|it| Fr { it, wide: false, lenw: 0 }).collect()
}

fn sheet_of(data: Vec<It>) -> SheetCase {
    let mut items = vec![It::Raw { id: 0x81, payload: vec![] }, It::Raw { id: 0x94, payload: vec![0; 16] }, It::Raw { id: 0x91, payload: vec![] }];
    items.extend(data);
    items.push(It::Raw { id: 0x92, payload: vec![] });
    items.push(It::Raw { id: 0x82, payload: vec![] });
    SheetCase { name: "Sheet1".into(), state: 0, items: plain(items), cut: None }
}

fn base_case(data: Vec<It>) -> Case {
    Case {
        date1904: false,
        xfs: Some(vec![0, 14]),
        fmts: vec![],
        sst: Some(vec!["shared".encode_utf16().collect()]),
        framing: Framing::Minimal,
        deflate: false,
        spre: vec![],
        raw: vec![],
        sstx: None,
        cont: None,
        fault: "-".into(),
        sheets: vec![sheet_of(data)],
    }
}

fn corpus() -> Vec<Case> {
    let row = |r| It::Row { r, tail: vec![0; 13] };
    let cell = |col, style, kind, fmla: bool| It::Cell { col, style, kind, fmla: if fmla { Some(vec![0, 0, 3, 0, 0, 0, 0x1E, 1, 0, 0, 0, 0, 0]) } else { None } };
    let mut v = vec![];
    // D18: formula cell whose cached value is an error (BrtFmlaError)
    v.push(base_case(vec![row(0), cell(0, 0, Kind::Real(1.0f64.to_bits()), false), cell(1, 0, Kind::Err(0x07), true)]));
    // D15: integer RK under a date style
    v.push(base_case(vec![row(0), cell(0, 1, Kind::Rk((44197 << 2) | 2), false)]));
    // D32: shared string index out of range
    let mut c = base_case(vec![row(0), cell(0, 0, Kind::Isst(1), false)]);
    c.fault = "isst_range".into();
    v.push(c);
    // byte-order-mark sniffing in wide_str: strings starting with U+FEFF, U+FFFE, U+BBEF U+xxBF
    v.push(base_case(vec![row(0), cell(0, 0, Kind::Str(vec![0xFEFF, 0x41]), false)]));
    v.push(base_case(vec![row(0), cell(0, 0, Kind::Str(vec![0xFFFE, 0x41]), false)]));
    v.push(base_case(vec![row(0), cell(0, 0, Kind::Str(vec![0xBBEF, 0xBF, 0x41, 0x42]), false)]));
    let mut c = base_case(vec![row(0), cell(0, 0, Kind::Isst(0), false)]);
    c.sst = Some(vec![vec![0xFEFF, 0x41]]);
    v.push(c);
    // all eleven record kinds in one row, extremes of the grid, both id widths
    let mut all = vec![row(1048575)];
    let kinds = [
        (Kind::Blank, false),
        (Kind::Rk(((-7i32 as u32) << 2) | 2), false),
        (Kind::Err(0x2A), false),
        (Kind::Bool(1), false),
        (Kind::Real(2.5f64.to_bits()), false),
        (Kind::Str("héllo".encode_utf16().collect()), false),
        (Kind::Isst(0), false),
        (Kind::Str("f".encode_utf16().collect()), true),
        (Kind::Real(3.5f64.to_bits()), true),
        (Kind::Bool(0), true),
        (Kind::Err(0x00), true),
    ];
    for (i, (k, f)) in kinds.iter().enumerate() {
        all.push(cell(16383 - 10 + i as u32, (i % 2) as u32, k.clone(), *f));
        all.push(It::Raw { id: 0x3FFF, payload: vec![1, 2, 3] });
    }
    let mut c = base_case(all);
    for (i, it) in c.sheets[0].items.iter_mut().enumerate() {
        it.wide = i % 2 == 0;
        it.lenw = (i % 5) as u8;
    }
    v.push(c);
    // long skipped blocks in the worksheet prologue: records straddling the 8 KiB refill points of the reader's buffer
    for (pad, n, id_start, id_end, inner, plen) in [(0usize, 450usize, 0x186u16, 0x187u16, 0x3Cu16, 18usize), (7, 900, 0x186, 0x187, 0x3C, 18), (13, 3500, 0x186, 0x187, 0x3C, 18), (3, 40, 0x85, 0x86, 0x89, 1000), (5, 9, 0x25, 0x26, 0x3FFD, 5000)] {
        let mut c = base_case(vec![row(3), cell(2, 0, Kind::Bool(1), false), cell(4, 1, Kind::Real(44197.0f64.to_bits()), false)]);
        let mut block = vec![It::Raw { id: 0x3FFF, payload: vec![0xAB; pad] }, It::Raw { id: id_start, payload: vec![] }];
        for k in 0..n {
            block.push(It::Raw { id: inner, payload: (0..plen).map(|j| (k * 31 + j * 7) as u8).collect() });
        }
        block.push(It::Raw { id: id_end, payload: vec![] });
        let at = 2; // behind BrtBeginSheet, BrtWsDim
        let tail = c.sheets[0].items.split_off(at);
        c.sheets[0].items.extend(plain(block));
        c.sheets[0].items.extend(tail);
        v.push(c);
    }
    // a row header with its own XF (a date format) and fGhostDirty set: cells of the row at XF 0 stay numbers
    v.push(base_case(vec![
        It::Row { r: 4, tail: vec![1, 0, 0, 0, 0x2C, 1, 0, 0x40, 0, 0, 0, 0, 0] },
        cell(0, 0, Kind::Real(44197.0f64.to_bits()), false),
        cell(1, 0, Kind::Rk((44197 << 2) | 2), false),
        cell(2, 1, Kind::Real(44197.5f64.to_bits()), true),
        It::Row { r: 5, tail: vec![0, 0, 0, 0, 0x2C, 1, 0, 0x40, 0, 1, 0, 0, 0, 0, 0, 0, 0, 3, 0, 0, 0] },
        cell(0, 1, Kind::Real(1.5f64.to_bits()), false),
        cell(3, 0, Kind::Rk((7 << 2) | 3), false),
    ]));
    // rows out of stream order with a real cell in the header row behind the first kept cell (HeaderRow::Row(3))
    v.push(base_case(vec![row(5), cell(2, 0, Kind::Bool(1), false), row(3), cell(2, 0, Kind::Real(7.5f64.to_bits()), false), cell(4, 0, Kind::Bool(0), false)]));
    // value and formula cells in one row, row > 0: one reader, next_cell / next_formula interleaved
    v.push(base_case(vec![
        row(9),
        cell(0, 0, Kind::Real(1.0f64.to_bits()), true),
        cell(1, 0, Kind::Bool(1), false),
        cell(2, 0, Kind::Str(vec![0x41]), true),
        row(12),
        cell(0, 0, Kind::Bool(1), true),
        cell(3, 0, Kind::Err(7), true),
        cell(4, 0, Kind::Real(2.0f64.to_bits()), false),
    ]));
    // strings at the 32767-character limit (records of more than 64 KiB) behind an ordinary record: inline, formula
    // string and shared string
    for n in [32762usize, 32763, 32766, 32767] {
        let u: Vec<u16> = (0..n).map(|i| 0x30 + (i % 10) as u16).collect();
        let mut c = base_case(vec![row(0), cell(0, 0, Kind::Str("before".encode_utf16().collect()), false), cell(1, 0, Kind::Str(u.clone()), false), cell(2, 0, Kind::Real(1.5f64.to_bits()), false), cell(3, 0, Kind::Str(u.clone()), true), cell(4, 0, Kind::Isst(1), false)]);
        c.sst = Some(vec!["first".encode_utf16().collect(), u]);
        v.push(c);
    }
    // long ASCII strings (32+ units, every length mod 4) ending in characters above U+00FF: inline, formula and shared
    for n in [32usize, 33, 34, 35, 37, 63, 66] {
        let mut u: Vec<u16> = (0..n).map(|i| 0x41 + (i % 26) as u16).collect();
        u[n - 1] = 0x20AC;
        if n % 2 == 1 {
            u[n - 2] = 0x4E2D;
        }
        let mut c = base_case(vec![row(0), cell(0, 0, Kind::Str(u.clone()), false), cell(1, 0, Kind::Str(u.clone()), true), cell(2, 0, Kind::Isst(0), false)]);
        c.sst = Some(vec![u]);
        v.push(c);
    }
    // container glue: relationships under a namespace prefix, absolute targets, a repeated id, non-ASCII ids
    // (the first two were defects: /repo c5d32d1, 7b4826f)
    for (tag, seed) in [("prefixed", 11u64), ("absolute", 12), ("dup", 13), ("plain", 14), ("plain", 15)] {
        let mut c = base_case(vec![row(0), cell(0, 0, Kind::Bool(1), false)]);
        let mut s2 = sheet_of(vec![row(1), cell(1, 0, Kind::Real(2.5f64.to_bits()), false)]);
        s2.name = "Second".into();
        c.sheets.push(s2);
        let mut r = Rng::new(seed);
        c.cont = Some(gen_cont(&mut r, 2, tag));
        v.push(c);
    }
    // shared strings with rich-text runs, phonetic data and foreign records between the items
    for seed in [1u64, 2, 3, 5] {
        let mut c = base_case(vec![row(0), cell(0, 0, Kind::Isst(0), false), cell(1, 0, Kind::Isst(2), false), cell(2, 0, Kind::Isst(1), false)]);
        c.sst = Some(vec!["漢字".encode_utf16().collect(), vec![], "third".encode_utf16().collect()]);
        c.sstx = Some(seed);
        v.push(c);
    }
    // empty sheet
    v.push(base_case(vec![]));
    // styles part with a font record whose payload contains the bytes E9 04 (read_styles scanned payloads as ids)
    let mut c = base_case(vec![row(0), cell(0, 1, Kind::Real(44197.0f64.to_bits()), false)]);
    c.spre = vec![(0x0263, vec![1, 0, 0, 0]), (0x002B, vec![0xE9, 0x04, 1, 0, 0, 0, 0x90, 0x01, 0, 0, 0, 2]), (0x0264, vec![])];
    v.push(c);
    // C06 sites (fixed by /repo 0093417 cbbeadd 0080716 d7dbfd1): one minimal malformed part per former panic site
    {
        let rec = |id: u16, p: &[u8]| -> Vec<u8> {
            let mut o = vec![];
            xlsbw::put_record(&mut o, id, p, xlsbw::Frame::default());
            o
        };
        let cat = |v: &[Vec<u8>]| -> Vec<u8> { v.concat() };
        let ws = |s: &str| xlsbw::wide_str(s);
        let bundle = |rid: &str, name: &str| -> Vec<u8> {
            let mut p = vec![0u8; 8];
            p[4] = 1;
            p.extend(ws(rid));
            p.extend(ws(name));
            p
        };
        let wbprop = rec(0x99, &[0, 0, 0, 0, 0, 0, 0, 0, 0, 0, 0, 0]);
        let good_sheet = rec(0x9C, &bundle("rId1", "Sheet1"));
        let mut wbs: Vec<(&str, Vec<u8>)> = vec![];
        wbs.push(("wb_relid_missing", cat(&[rec(0x83, &[]), wbprop.clone(), rec(0x8F, &[]), rec(0x9C, &bundle("rId9", "Sheet1")), rec(0x90, &[]), rec(0x84, &[])])));
        wbs.push(("wb_bundlesh_empty", cat(&[rec(0x83, &[]), wbprop.clone(), rec(0x9C, &[]), rec(0x90, &[]), rec(0x84, &[])])));
        let mut long_rel = vec![0u8; 8];
        long_rel.extend_from_slice(&100u32.to_le_bytes());
        long_rel.extend_from_slice(&[0x72, 0, 0x49, 0]);
        wbs.push(("wb_bundlesh_rel_len", cat(&[rec(0x83, &[]), rec(0x9C, &long_rel), rec(0x90, &[]), rec(0x84, &[])])));
        wbs.push(("wb_wbprop_empty", cat(&[rec(0x83, &[]), rec(0x99, &[]), good_sheet.clone(), rec(0x90, &[]), rec(0x84, &[])])));
        wbs.push(("wb_externsheet_short", cat(&[good_sheet.clone(), rec(0x90, &[]), rec(0x16A, &[1, 0]), rec(0x84, &[])])));
        wbs.push(("wb_externsheet_entry", cat(&[good_sheet.clone(), rec(0x90, &[]), rec(0x16A, &[1, 0, 0, 0, 0, 0, 0, 0, 0, 0]), rec(0x84, &[])])));
        wbs.push(("wb_name_short", cat(&[good_sheet.clone(), rec(0x90, &[]), rec(0x27, &[0, 0, 0, 0, 0]), rec(0x84, &[])])));
        let mut nm = vec![0u8; 9];
        nm.extend(ws("N"));
        wbs.push(("wb_name_no_formula", cat(&[good_sheet.clone(), rec(0x90, &[]), rec(0x27, &nm), rec(0x84, &[])])));
        nm.extend_from_slice(&50u32.to_le_bytes());
        nm.extend_from_slice(&[0x1E, 1, 0]);
        wbs.push(("wb_name_rgce_len", cat(&[good_sheet.clone(), rec(0x90, &[]), rec(0x27, &nm), rec(0x84, &[])])));
        for (fault, bytes) in wbs {
            let mut c = base_case(vec![]);
            c.fault = fault.into();
            c.raw = vec![("xl/workbook.bin".into(), bytes)];
            v.push(c);
        }
        let xf = rec(0x2F, &[0xFF, 0xFF, 14, 0, 0, 0, 0, 0, 0, 0, 0, 0, 0, 0, 0, 0]);
        let stys: Vec<(&str, Vec<u8>)> = vec![
            ("sty_beginfmts_empty", cat(&[rec(0x116, &[]), rec(0x267, &[]), rec(0x269, &[1, 0, 0, 0]), xf.clone()])),
            ("sty_fmt_short", cat(&[rec(0x267, &[1, 0, 0, 0]), rec(0x2C, &[164]), rec(0x269, &[1, 0, 0, 0]), xf.clone()])),
            ("sty_fmt_no_string", cat(&[rec(0x267, &[1, 0, 0, 0]), rec(0x2C, &[164, 0, 5]), rec(0x269, &[1, 0, 0, 0]), xf.clone()])),
            ("sty_begincellxfs_short", cat(&[rec(0x267, &[0, 0, 0, 0]), rec(0x269, &[1, 0])])),
            ("sty_xf_short", cat(&[rec(0x267, &[0, 0, 0, 0]), rec(0x269, &[1, 0, 0, 0]), rec(0x2F, &[0xFF, 0xFF, 14])])),
        ];
        for (fault, bytes) in stys {
            let mut c = base_case(vec![]);
            c.fault = fault.into();
            c.raw = vec![("xl/styles.bin".into(), bytes)];
            v.push(c);
        }
        let ssts: Vec<(&str, Vec<u8>)> = vec![
            ("sst_begin_short", cat(&[rec(0x9F, &[1, 0, 0, 0])])),
            ("sst_item_empty", cat(&[rec(0x9F, &[1, 0, 0, 0, 1, 0, 0, 0]), rec(0x13, &[])])),
            ("sst_item_no_count", cat(&[rec(0x9F, &[1, 0, 0, 0, 1, 0, 0, 0]), rec(0x13, &[0, 1, 0])])),
            ("sst_item_count_long", cat(&[rec(0x9F, &[1, 0, 0, 0, 1, 0, 0, 0]), rec(0x13, &[0, 9, 0, 0, 0, 0x41, 0])])),
            ("sst_count_too_big", cat(&[rec(0x9F, &[3, 0, 0, 0, 3, 0, 0, 0]), rec(0x13, &[0, 1, 0, 0, 0, 0x41, 0]), rec(0xA0, &[])])),
        ];
        for (fault, bytes) in ssts {
            let mut c = base_case(vec![]);
            c.fault = fault.into();
            c.raw = vec![("xl/sharedStrings.bin".into(), bytes)];
            v.push(c);
        }
        // a record that declares 2^28-1 bytes and delivers none (fill_buffer allocated the declared length)
        let mut c = base_case(vec![]);
        c.fault = "sheet_record_len_2_28".into();
        c.raw = vec![("xl/worksheets/sheet1.bin".into(), vec![0x81, 0x01, 0x00, 0x94, 0x01, 0xFF, 0xFF, 0xFF, 0x7F])];
        v.push(c);
    }
    // short cell / row-header / BrtWsDim records in the sheet part (former panic sites of next_cell and new)
    for (fault, id, payload) in [
        ("short_rk_int", 2u16, vec![0u8; 8]),
        ("short_error", 3, vec![0; 8]),
        ("short_fmla_error", 11, vec![0; 6]),
        ("short_bool", 4, vec![0; 3]),
        ("short_real", 5, vec![0; 15]),
        ("short_fmla_real", 9, vec![0; 9]),
        ("short_str", 6, vec![0; 7]),
        ("short_str_no_count", 6, vec![0; 10]),
        ("short_isst", 7, vec![0; 11]),
        ("short_rowhdr", 0, vec![0; 3]),
    ] {
        let mut c = base_case(vec![row(0), It::Raw { id, payload }]);
        c.fault = fault.into();
        v.push(c);
    }
    let mut c = base_case(vec![]);
    c.sheets[0].items[1] = Fr { it: It::Raw { id: 0x94, payload: vec![0; 15] }, wide: false, lenw: 0 };
    c.fault = "wsdim_short".into();
    v.push(c);
    // BrtWsDim spanning the whole u32 square: Dimensions::len multiplied 2^32 by 2^32 in u64
    let mut c = base_case(vec![row(0), cell(0, 0, Kind::Bool(1), false)]);
    c.sheets[0].items[1] = Fr { it: It::Raw { id: 0x94, payload: vec![0, 0, 0, 0, 0xFF, 0xFF, 0xFF, 0xFF, 0, 0, 0, 0, 0xFF, 0xFF, 0xFF, 0xFF] }, wide: false, lenw: 0 };
    c.fault = "dims_full".into();
    v.push(c);
    // two cells u32::MAX columns apart: `col_end - col_start + 1` in Range::from_sparse does not fit u32
    let mut c = base_case(vec![row(0), cell(0, 0, Kind::Bool(1), false), cell(0xFFFF_FFFF, 0, Kind::Bool(0), false)]);
    c.fault = "col_span_u32".into();
    v.push(c);
    // formula records cut inside their formula (former panic sites of next_formula)
    for (fault, kind, tail) in [
        ("fmla_cce_too_big", Kind::Real(1.0f64.to_bits()), vec![0u8, 0, 16, 0, 0, 0, 0x1E]),
        ("fmla_no_cce", Kind::Bool(1), vec![0, 0, 3]),
        ("fmla_str_no_formula", Kind::Str(vec![0x41]), vec![0]),
        ("fmla_error_no_formula", Kind::Err(7), vec![0]),
    ] {
        let mut c = base_case(vec![row(0), It::Cell { col: 0, style: 0, kind, fmla: Some(tail) }]);
        c.fault = fault.into();
        v.push(c);
    }
    // … and one whose last payload byte has the high bit set (swallowed the id of BrtBeginCellXFs)
    let mut c = base_case(vec![row(0), cell(0, 1, Kind::Real(44197.0f64.to_bits()), false)]);
    c.spre = vec![(0x002B, vec![0xDC, 0, 0, 0, 0x80])];
    v.push(c);
    v
}

// ------------------------------------------------------------------------------------------------
// unit level: framing sweeps, wide_str, dimensions (through the hooks)
// ------------------------------------------------------------------------------------------------

#[cfg(feature = "hooks")]
fn sweeps(args: &Args, rng: &mut Rng, drv: &mut Driver, rep: &mut Report) {
    use calamine::verif_hooks::xlsb as hk;
    let fnv_str = |h: &mut u64, s: &str| {
        for b in s.as_bytes() {
            *h ^= *b as u64;
            *h = h.wrapping_mul(0x100000001b3);
        }
    };
    // ids: all 2^14 at each width
    for wide in [false, true] {
        let mut part = vec![];
        for t in 0..0x4000u16 {
            xlsbw::put_record(&mut part, t, &[], xlsbw::Frame { id_w: if wide { 2 } else { 0 }, len_w: 0 });
        }
        let zip = xlsbw::zip_parts(&[("p.bin".into(), part.clone())], false);
        let (recs, trunc) = hk::c03_records(&zip, "p.bin").expect("records hook");
        let mut hd = 0xcbf29ce484222325u64;
        for (t, p) in &recs {
            fnv_str(&mut hd, &format!("{t}:{}:0;", p.len()));
        }
        let reply = drv.ask(&format!("sweep id 0 16384 {}", wide as u8));
        let mine = format!("{} {}", fnv64(&part), hd);
        let input = format!("sweep id 0 16384 {}", wide as u8);
        rep.bulk(16384, 16384, &input);
        rep.count("sweep_id_blocks");
        // independent oracle: every id comes back as itself, with an empty payload
        let ok = !trunc && recs.len() == 0x4000 && recs.iter().enumerate().all(|(i, (t, p))| *t as usize == i && p.is_empty());
        if !ok {
            rep.fail("impl_vs_spec", "varint_id", &input, &format!("{} records, truncated={trunc}", recs.len()), &reply, "ids 0..16384 in order");
        }
        if reply != mine {
            rep.fail("impl_vs_model", "varint_id", &input, &mine, &reply, "-");
        }
    }
    // lengths: complete low ranges, boundaries, random large values, at every width that holds them
    let limit: u64 = if args.thorough() { 1 << 14 } else { 1200 };
    let check_lens = |ns: &[u64], w: u8, lo_hi_step: Option<(u64, u64, u64)>, drv: &mut Driver, rep: &mut Report| {
        let mut part = vec![];
        let mut enc = vec![];
        for &n in ns {
            xlsbw::put_id(&mut part, 1, false);
            let before = part.len();
            xlsbw::put_len(&mut part, n as usize, w);
            enc.extend_from_slice(&part[before..]);
            part.resize(part.len() + n as usize, 0xA5);
        }
        let zip = xlsbw::zip_parts(&[("p.bin".into(), part)], true);
        let (recs, trunc) = hk::c03_records(&zip, "p.bin").expect("records hook");
        let mut hd = 0xcbf29ce484222325u64;
        for (_, p) in &recs {
            fnv_str(&mut hd, &format!("{}:0;", p.len()));
        }
        let mine = format!("{} {}", fnv64(&enc), hd);
        let ok = !trunc && recs.len() == ns.len() && recs.iter().zip(ns).all(|((t, p), n)| *t == 1 && p.len() as u64 == *n && p.iter().all(|b| *b == 0xA5));
        let reqs: Vec<String> = match lo_hi_step {
            Some((lo, hi, st)) => vec![format!("sweep len {lo} {hi} {w} {st}")],
            None => ns.iter().map(|n| format!("sweep len {n} {} {w} 1", n + 1)).collect(),
        };
        let input = format!("lens w={w} n={:?}", &ns[..ns.len().min(6)]);
        rep.bulk(ns.len() as u64, ns.len() as u64, &input);
        rep.add("sweep_len_values", ns.len() as u64);
        if !ok {
            rep.fail("impl_vs_spec", "varint_len", &input, &format!("{} records, truncated={trunc}", recs.len()), "-", "each payload length as written");
        }
        if reqs.len() == 1 {
            let reply = drv.ask(&reqs[0]);
            if reply != mine {
                rep.fail("impl_vs_model", "varint_len", &reqs[0], &mine, &reply, "-");
            }
        } else {
            // per value: compare decoded lengths one by one
            for (n, (_, p)) in ns.iter().zip(&recs) {
                let reply = drv.ask(&format!("sweep len {n} {} {w} 1", n + 1));
                let mut e = vec![];
                xlsbw::put_len(&mut e, *n as usize, w);
                let mut hd = 0xcbf29ce484222325u64;
                fnv_str(&mut hd, &format!("{}:0;", p.len()));
                if reply != format!("{} {}", fnv64(&e), hd) {
                    rep.fail("impl_vs_model", "varint_len", &format!("sweep len {n} {} {w} 1", n + 1), &format!("{}", p.len()), &reply, "-");
                }
            }
        }
    };
    for w in 1..=4u8 {
        let cap = 1u64 << (7 * w as u32);
        let hi = limit.min(cap);
        let ns: Vec<u64> = (0..hi).collect();
        check_lens(&ns, w, Some((0, hi, 1)), drv, rep);
        // boundaries of every group that fit this width
        let mut bs = vec![];
        for k in [7u32, 14, 21] {
            for d in [-2i64, -1, 0, 1, 2] {
                let n = (1i64 << k) + d;
                if (n as u64) < cap && n as u64 >= hi {
                    bs.push(n as u64);
                }
            }
        }
        // random values, log-uniform, up to 2^22 (quick) / 2^24 (thorough)
        let top = if args.thorough() { 1u64 << 24 } else { 1 << 22 };
        let nrand = if args.thorough() { 240 } else { 10 };
        for _ in 0..nrand {
            let n = log_uniform(rng, top.min(cap) - 1);
            if n >= hi {
                bs.push(n);
            }
        }
        if w == 4 && args.thorough() {
            bs.push((1 << 27) + 12345);
            bs.push((1 << 28) - 1);
        }
        // one part per 12 values: the payloads are materialised
        for chunk in bs.chunks(12) {
            check_lens(chunk, w, None, drv, rep);
        }
    }
    // truncated parts: every prefix of a short record sequence
    let mut part = vec![];
    xlsbw::put_record(&mut part, 0x81, &[], xlsbw::Frame { id_w: 0, len_w: 2 });
    xlsbw::put_record(&mut part, 5, &[1, 2, 3, 4, 5], xlsbw::Frame { id_w: 2, len_w: 3 });
    xlsbw::put_record(&mut part, 0x3FFF, &[9; 130], xlsbw::Frame { id_w: 0, len_w: 0 });
    for cut in 0..=part.len() {
        let p = &part[..cut];
        let zip = xlsbw::zip_parts(&[("p.bin".into(), p.to_vec())], false);
        let (recs, trunc) = hk::c03_records(&zip, "p.bin").expect("records hook");
        let got = format!("{} {}", if trunc { "io" } else { "ok" }, recs.iter().map(|(t, p)| format!("{t}:{}", hex(p))).collect::<Vec<_>>().join(" "));
        let model = drv.ask(&format!("recs {}", hex(p)));
        let input = format!("recs {}", hex(p));
        rep.case(&input, true);
        rep.count("records_prefix");
        if got.trim_end() != model.trim_end() {
            rep.fail("impl_vs_model", "records_prefix", &input, &got, &model, "-");
        }
    }
    // wide_str on random buffers
    let n = args.count(300, 20000);
    for i in 0..n {
        let buf: Vec<u8> = match i % 4 {
            0 => rbytes(rng, 12, 0),
            1 => {
                let u = gen_units(rng);
                let u = &u[..u.len().min(220)];
                let mut b = xlsbw::wide_units(u);
                b.extend(rbytes(rng, 5, 0));
                b
            }
            2 => {
                let mut b = (rng.below(6) as u32).to_le_bytes().to_vec();
                b.extend(rbytes(rng, 14, 0));
                b
            }
            _ => {
                let mut b = rng.pick(&[0xFFFF_FFFFu32, 0x8000_0000, 0x7FFF_FFFF, 1 << 16]).to_le_bytes().to_vec();
                b.extend(rbytes(rng, 8, 0));
                b
            }
        };
        let input = format!("wstr {}", hex(&buf));
        let got = match guarded(|| hk::c03_wide_str(&buf)) {
            Ok(Ok((s, n))) => format!("ok {} {n}", units_str(&s.encode_utf16().collect::<Vec<_>>())),
            Ok(Err(e)) => format!("err:{}", e.split(|c: char| !c.is_alphanumeric()).next().unwrap_or("?")),
            Err(_) => "panic".into(),
        };
        let model = drv.ask(&input);
        let model_n = match model.strip_prefix("ok ") {
            Some(rest) => {
                let (u, n) = rest.split_once(' ').unwrap();
                format!("ok {} {n}", canon_units(&parse_units(u)))
            }
            None => model.clone(),
        };
        // oracle: length-prefixed UTF-16 units
        let expect = if buf.len() < 4 {
            "err:WideStr".to_string()
        } else {
            let len = u32::from_le_bytes([buf[0], buf[1], buf[2], buf[3]]) as usize;
            if buf.len() < 4 + 2 * len {
                "err:WideStr".into()
            } else {
                let u: Vec<u16> = (0..len).map(|i| u16::from_le_bytes([buf[4 + 2 * i], buf[5 + 2 * i]])).collect();
                format!("ok {} {}", canon_units(&u), 4 + 2 * len)
            }
        };
        rep.case(&input, buf.len() >= 4);
        rep.count(&format!("wstr_{}", expect.split(|c| c == ' ' || c == ':').next().unwrap()));
        let bom = buf.len() >= 7 && (buf[4..6] == [0xFF, 0xFE] || buf[4..6] == [0xFE, 0xFF] || buf[4..7] == [0xEF, 0xBB, 0xBF]);
        let sig = if bom { "widestr_bom" } else { "widestr" };
        if got != expect {
            rep.fail("impl_vs_spec", sig, &input, &got, &model_n, &expect);
        }
        if got != model_n {
            rep.fail("impl_vs_model", sig, &input, &got, &model_n, &expect);
        }
    }
    // parse_dimensions
    for _ in 0..50 {
        let b = rng.bytes(16);
        let d = calamine::verif_hooks::xlsb::cells::c03_parse_dimensions(&b);
        let got = format!("{} {} {} {}", d.start.0, d.start.1, d.end.0, d.end.1);
        let model = drv.ask(&format!("dim {}", hex(&b)));
        let u = |i: usize| u32::from_le_bytes([b[i], b[i + 1], b[i + 2], b[i + 3]]);
        let expect = format!("{} {} {} {}", u(0), u(8), u(4), u(12));
        rep.case(&format!("dim {}", hex(&b)), true);
        if got != expect {
            rep.fail("impl_vs_spec", "dimensions", &hex(&b), &got, &model, &expect);
        }
        if got != model {
            rep.fail("impl_vs_model", "dimensions", &hex(&b), &got, &model, &expect);
        }
    }
}

#[cfg(not(feature = "hooks"))]
fn sweeps(_args: &Args, _rng: &mut Rng, _drv: &mut Driver, rep: &mut Report) {
    rep.notes.push("verif-hooks unavailable: framing sweeps, wide_str and style/string table checks skipped".into());
}

// ------------------------------------------------------------------------------------------------

/// string `i` of the large shared string tables: two units, distinct for every i < 2^28
fn big_string(i: usize) -> Vec<u16> {
    vec![0x4E00 + (i & 0x3FFF) as u16, 0x4E00 + (i >> 14) as u16]
}

/// A workbook whose shared string table has `n` strings (thresholds: 16-bit counters, caps on the declared count)
/// and one sheet whose BrtCellIsst cells reference the first, the last and the strings around 2^16 and 2^20.
/// Implementation against the description only (the Lean model indexes a list: it has no size-dependent
/// behaviour, and shipping 2^20 strings through the line protocol would dominate the run).
/// Replay form: `bigsst <n>`.
fn run_big_sst(n: usize, rep: &mut Report) {
    let input = format!("bigsst {n}");
    let mut b = XlsbBook::new();
    b.deflate = false;
    b.sst = Some((0..n).map(big_string).collect());
    let mut idx: Vec<usize> = vec![0, n / 2, n - 1, n.saturating_sub(2)];
    for t in [1usize << 8, 1 << 15, 1 << 16, 1 << 20] {
        for d in [-1i64, 0, 1] {
            let i = t as i64 + d;
            if i >= 0 && (i as usize) < n {
                idx.push(i as usize);
            }
        }
    }
    idx.sort();
    idx.dedup();
    let mut sh = XlsbSheet::new("Sheet1");
    for (k, i) in idx.iter().enumerate() {
        sh.set((k / 8) as u32, (k % 8) as u32, xlsbw::BVal::Isst(*i as u32));
    }
    b.sheets.push(sh);
    let file = b.to_bytes();
    rep.case(&input, true);
    rep.add("big_sst_strings", n as u64);
    let r = guarded(|| -> Result<String, String> {
        let mut wb: Xlsb<_> = Xlsb::new(Cursor::new(file)).map_err(|e| err_class(&e))?;
        #[cfg(feature = "hooks")]
        {
            let got = calamine::verif_hooks::xlsb::c03_strings(&wb);
            if got.len() != n {
                return Err(format!("{} strings loaded", got.len()));
            }
            if let Some(bad) = (0..n).find(|i| got[*i].encode_utf16().collect::<Vec<_>>() != big_string(*i)) {
                return Err(format!("string {bad} differs"));
            }
        }
        let range = wb.worksheet_range("Sheet1").map_err(|e| err_class(&e))?;
        for (k, i) in idx.iter().enumerate() {
            let want = Data::String(String::from_utf16_lossy(&big_string(*i)));
            let got = range.get_value(((k / 8) as u32, (k % 8) as u32));
            if got != Some(&want) {
                return Err(format!("cell referencing string {i}: {got:?}"));
            }
        }
        Ok("ok".into())
    });
    let (got, ok) = match r {
        Ok(Ok(s)) => (s, true),
        Ok(Err(e)) => (e, false),
        Err(p) => (format!("panic:{p}"), false),
    };
    if !ok {
        rep.fail("impl_vs_spec", "big_sst", &input, &got, "-", &format!("{n} strings loaded, every BrtCellIsst cell shows its string"));
    }
}

/// A sheet whose first row is as wide as the grid — one cell record per column 0..16383 — or holds more than 16384
/// records under one BrtRowHdr (cells preceded by BrtCellMeta, blank cells, unknown records), followed by another
/// row. Implementation against the description (the Lean model has no per-row state; its sheet theorem covers any
/// interleaving). Replay form: `widerow <variant>`.
fn run_wide_row(variant: u32, rep: &mut Report) {
    let input = format!("widerow {variant}");
    let f = xlsbw::Frame::default();
    let mut part = vec![];
    xlsbw::put_record(&mut part, 0x81, &[], f);
    xlsbw::put_record(&mut part, 0x94, &[7, 0, 0, 0, 8, 0, 0, 0, 0, 0, 0, 0, 0xFF, 0x3F, 0, 0], f);
    xlsbw::put_record(&mut part, 0x91, &[], f);
    // (cells per row 7, extra record before a cell?) by variant
    let ncols: u32 = if variant == 3 { 8200 } else { 16384 };
    let mut want: BTreeMap<(u32, u32), Data> = BTreeMap::new();
    xlsbw::put_record(&mut part, 0, &xlsbw::row_hdr(7), f);
    for c in 0..ncols {
        let extra = match variant {
            0 => false,                // exactly 16384 records under the row header
            1 => c == 16000,           // one uninterpreted record more
            2 => c % 97 == 0,          // BrtCellMeta / unknown records now and then
            3 => true,                 // 8200 cells, each preceded by BrtCellMeta: 16400 records
            _ => c % 2 == 1,           // blank cells in between
        };
        if extra {
            match variant {
                4 => xlsbw::put_record(&mut part, 1, &xlsbw::BCell::new(xlsbw::BVal::Blank).payload(c), f),
                2 if c % 2 == 0 => xlsbw::put_record(&mut part, 0x3FFF, &[1, 2, 3], f),
                _ => xlsbw::put_record(&mut part, 0x31, &[1, 0, 0, 0], f), // BrtCellMeta
            }
        }
        let cell = xlsbw::BCell::new(xlsbw::BVal::rk_int(c as i32 - 5, false));
        xlsbw::put_record(&mut part, 2, &cell.payload(c), f);
        want.insert((7, c), Data::Int(c as i64 - 5));
    }
    xlsbw::put_record(&mut part, 0, &xlsbw::row_hdr(8), f);
    for c in [0u32, 5, ncols - 1] {
        xlsbw::put_record(&mut part, 5, &xlsbw::BCell::new(xlsbw::BVal::real(c as f64 + 0.5)).payload(c), f);
        want.insert((8, c), Data::Float(c as f64 + 0.5));
    }
    xlsbw::put_record(&mut part, 0x92, &[], f);
    xlsbw::put_record(&mut part, 0x82, &[], f);
    let mut b = XlsbBook::new();
    let mut sh = XlsbSheet::new("Wide");
    sh.raw = Some(part);
    b.sheets.push(sh);
    let file = b.to_bytes();
    rep.case(&input, true);
    rep.add("wide_row_cells", want.len() as u64);
    let r = guarded(|| -> Result<String, String> {
        let mut wb: Xlsb<_> = Xlsb::new(Cursor::new(file)).map_err(|e| err_class(&e))?;
        let range = wb.worksheet_range("Wide").map_err(|e| err_class(&e))?;
        if range.start() != Some((7, 0)) || range.end() != Some((8, ncols - 1)) {
            return Err(format!("range {:?}..{:?}", range.start(), range.end()));
        }
        let n = range.used_cells().count();
        if n != want.len() {
            return Err(format!("{n} cells instead of {}", want.len()));
        }
        for ((r, c), v) in &want {
            if range.get_value((*r, *c)) != Some(v) {
                return Err(format!("cell ({r},{c}): {:?}", range.get_value((*r, *c))));
            }
        }
        Ok("ok".into())
    });
    let (got, ok) = match r {
        Ok(Ok(s)) => (s, true),
        Ok(Err(e)) => (e, false),
        Err(p) => (format!("panic:{p}"), false),
    };
    if !ok {
        rep.fail("impl_vs_spec", "wide_row", &input, &got, "-", &format!("rows 7 and 8, columns 0..{}, {} cells, every value as stored", ncols - 1, want.len()));
    }
}

type Fail = (String, String, String, String, String, String); // kind, sig, input, impl, model, expect

/// shrink each failure whose signature this worker has not seen yet; returns the failures with their inputs
fn finalize(c: &Case, out: &Outcome, drv: &mut Driver, seen: &mut std::collections::HashSet<String>) -> Vec<Fail> {
    let mut v = vec![];
    for (kind, sig, got, model, expect) in &out.fails {
        let key = format!("{kind}|{sig}");
        let known = !seen.insert(key);
        let small = if known || kind == "model_vs_spec" { c.clone() } else { shrink(c, drv, kind, sig) };
        if small != *c {
            if let Some(f) = run_case(&small, drv, None).fails.iter().find(|f| f.0 == *kind && f.1 == *sig) {
                v.push((kind.clone(), sig.clone(), small.to_text(), f.2.clone(), f.3.clone(), f.4.clone()));
                continue;
            }
        }
        v.push((kind.clone(), sig.clone(), c.to_text(), got.clone(), model.clone(), expect.clone()));
    }
    v
}

fn count_case(c: &Case, rep: &mut Counters) {
    rep.count(&format!("fault_{}", c.fault));
    rep.count(&format!("sheets_{}", c.sheets.len()));
    rep.count(if c.date1904 { "date1904" } else { "date1900" });
    rep.count(match &c.sst {
        None => "sst_absent",
        Some(v) if v.is_empty() => "sst_empty",
        _ => "sst_present",
    });
    if !c.spre.is_empty() {
        rep.count("styles_with_font_records");
    }
    if c.sstx.is_some() {
        rep.count("sst_with_rich_phonetic_foreign");
    }
    match &c.cont {
        Some(k) => {
            rep.count(&format!("container_{}", k.tag));
            if k.ghost.is_some() {
                rep.count("container_sheet_without_relationship");
            }
        }
        None => rep.count("container_default"),
    }
    rep.count(match &c.xfs {
        None => "styles_absent",
        Some(v) if v.is_empty() => "styles_empty",
        _ => "styles_present",
    });
    for sh in &c.sheets {
        let mut ncell = 0;
        let (mut rmin, mut rmax, mut cmin, mut cmax) = (u32::MAX, 0, u32::MAX, 0);
        let mut row = 0;
        for it in &sh.items {
            rep.count(if it.wide { "id_wide" } else { "id_short" });
            rep.count(&format!("lenw_{}", it.lenw));
            match &it.it {
                It::Cell { col, .. } => {
                    ncell += 1;
                    rep.count(&format!("rec_{}", kind_name(&it.it)));
                    rmin = rmin.min(row);
                    rmax = rmax.max(row);
                    cmin = cmin.min(*col);
                    cmax = cmax.max(*col);
                }
                It::Row { r, .. } => {
                    row = *r;
                    rep.count("rec_rowhdr")
                }
                It::Raw { id, .. } => rep.count(if *id < 128 { "rec_other_1byte_id" } else { "rec_other_2byte_id" }),
            }
        }
        rep.count(match ncell {
            0 => "cells_0",
            1..=9 => "cells_1_9",
            10..=79 => "cells_10_79",
            _ => "cells_80_300",
        });
        if ncell > 0 {
            if rmin == 0 {
                rep.count("touches_row_0");
            }
            if rmax == 1048575 {
                rep.count("touches_row_1048575");
            }
            if cmin == 0 {
                rep.count("touches_col_0");
            }
            if cmax == 16383 {
                rep.count("touches_col_16383");
            }
        }
    }
}

fn main() {
    let args = Args::parse();
    let mut rep = Report::new(
        "C03",
        "a case is one generated xlsb workbook (1–3 sheets, 0–300 cells per sheet, all 11 cell record kinds, ignorable \
         records, 1-/2-byte ids, 1..4-byte lengths, rows 0..1048575, cols 0..16383, bounding box ≤ 2^21 cells) read by the \
         real reader, by the Lean model on the same sheet bytes and by the description oracle; non-trivial = at least one \
         value cell; unit cases: varint sweeps (all 2^14 ids at both widths, length ranges per width), wide_str buffers",
    );
    let mut drv = Driver::spawn(&args.driver);
    let mut rng = Rng::new(args.seed);

    if let Some(r) = &args.replay {
        if let Some(v) = r.strip_prefix("widerow ") {
            run_wide_row(v.parse().expect("widerow <variant>"), &mut rep);
            rep.write(&args.out);
            return;
        }
        if let Some(n) = r.strip_prefix("bigsst ") {
            run_big_sst(n.parse().expect("bigsst <n>"), &mut rep);
            rep.write(&args.out);
            return;
        }
        let c = Case::parse(r);
        let out = run_case(&c, &mut drv, None);
        rep.case(r, true);
        for (kind, sig, got, model, expect) in &out.fails {
            rep.fail(kind, sig, r, got, model, expect);
        }
        rep.write(&args.out);
        return;
    }

    let merge = |rep: &mut Report, cn: Counters| {
        for (k, v) in cn.0 {
            rep.add(&k, v);
        }
    };
    let mut seen = std::collections::HashSet::new();

    // corpus first
    for c in corpus() {
        let text = c.to_text();
        debug_assert_eq!(Case::parse(&text), c);
        let mut cn = Counters::default();
        let out = run_case(&c, &mut drv, Some(&mut cn));
        rep.case(&text, true);
        cn.count("corpus");
        count_case(&c, &mut cn);
        merge(&mut rep, cn);
        for f in finalize(&c, &out, &mut drv, &mut seen) {
            rep.fail(&f.0, &f.1, &f.2, &f.3, &f.4, &f.5);
        }
    }

    // unit level
    sweeps(&args, &mut rng, &mut drv, &mut rep);

    // rows as wide as the grid, and more than 16384 records under one row header
    for v in 0..5 {
        let t0 = std::time::Instant::now();
        run_wide_row(v, &mut rep);
        rep.add("time_ms_wide_row", t0.elapsed().as_millis() as u64);
    }
    // large shared string tables: around 2^16 (16-bit counters) and one above 2^20 (caps on the declared count)
    for n in [65534usize, 65535, 65536, 65537, 65539, (1 << 20) + 3] {
        let t0 = std::time::Instant::now();
        run_big_sst(n, &mut rep);
        rep.add("time_ms_big_sst", t0.elapsed().as_millis() as u64);
    }

    // generated workbooks, on several worker threads (each with its own driver); the results are applied to the
    // report in case order, so a seed gives the same report whatever the scheduling
    let n = args.count(2000, 200_000) as usize;
    let seeds: std::sync::Arc<Vec<u64>> = std::sync::Arc::new((0..n).map(|_| rng.next()).collect());
    let avail = std::thread::available_parallelism().map(|x| x.get()).unwrap_or(4);
    let threads = (if args.thorough() { 14 } else { 4 }).min(avail).max(1).min(n.max(1));
    struct Res {
        text: String,
        nontrivial: bool,
        counters: Counters,
        fails: Vec<Fail>,
    }
    let (tx, rx) = std::sync::mpsc::sync_channel::<(usize, Res)>(512);
    let mut handles = vec![];
    for t in 0..threads {
        let tx = tx.clone();
        let seeds = seeds.clone();
        let driver = args.driver.clone();
        handles.push(std::thread::spawn(move || {
            let mut drv = Driver::spawn(&driver);
            let mut seen = std::collections::HashSet::new();
            let mut i = t;
            while i < seeds.len() {
                let mut r = Rng(seeds[i]);
                let mut c = gen_case(&mut r);
                if i % 8 == 7 {
                    inject_fault(&mut r, &mut c);
                }
                let text = c.to_text();
                let nontrivial = c.sheets.iter().any(|s| s.items.iter().any(|f| matches!(&f.it, It::Cell { kind, .. } if *kind != Kind::Blank)));
                let mut cn = Counters::default();
                let t0 = std::time::Instant::now();
                let out = run_case(&c, &mut drv, Some(&mut cn));
                let ms = t0.elapsed().as_millis();
                cn.add("time_ms_cases", ms as u64);
                if ms > 300 {
                    cn.count("slow_cases_over_300ms");
                }
                count_case(&c, &mut cn);
                let fails = finalize(&c, &out, &mut drv, &mut seen);
                if tx.send((i, Res { text, nontrivial, counters: cn, fails })).is_err() {
                    return;
                }
                i += threads;
            }
        }));
    }
    drop(tx);
    let mut pending: BTreeMap<usize, Res> = BTreeMap::new();
    let mut next = 0usize;
    for (i, res) in rx {
        pending.insert(i, res);
        while let Some(res) = pending.remove(&next) {
            rep.case(&res.text, res.nontrivial);
            merge(&mut rep, res.counters);
            for f in &res.fails {
                rep.fail(&f.0, &f.1, &f.2, &f.3, &f.4, &f.5);
            }
            next += 1;
        }
    }
    for h in handles {
        h.join().expect("worker thread");
    }
    assert_eq!(next, n, "every generated case was reported");
    rep.add("worker_threads", threads as u64);
    rep.notes.push("third-party layers exercised but not modelled: zip container, encoding_rs UTF-16 decoding, quick-xml (workbook.bin.rels)".into());
    rep.notes.push("f64 operations of the RK path (/100.0, i64→f64) are executed natively on both sides and compared by bit pattern".into());
    rep.write(&args.out);
}
