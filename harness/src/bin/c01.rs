//! C01 — XLSX: every cell reads back at its position, with its value and type.
//!   unit level  : complete sweeps of `get_row_and_optional_column` / `column_number_to_name` /
//!                 `coordinate_to_name` / `get_dimension` through the hooks vs the Lean model (checksums) and vs
//!                 an independent oracle (the harness's own A1 naming);
//!   file level  : logical workbooks rendered under random layouts by `xlsxw`, read through the public API;
//!                 oracle = (bounding box of the non-empty cells, value at each position) from the logical sheet;
//!                 model = the Lean reader run on the very events that were serialised into the part;
//!   lean level  : the Lean encoder `renderSheet` (the object of the theorems) produces the events, the harness
//!                 serialises them into a file and runs calamine on it.
use calamine::{Data, DataRef, Reader, ReaderRef, Xlsx};
use std::collections::BTreeMap;
use std::io::Cursor;
use verif_harness::xlsxw::{self, Ev, Layout, XCell, XVal, XlsxBook, XlsxSheet};
use verif_harness::{driver::Driver, fnv64, guarded, hex, report::Report, rng::Rng, unhex, Args};

#[cfg(feature = "hooks")]
use calamine::verif_hooks::xlsx as hooks;

// ------------------------------------------------------------------------------------------------
// canonical forms
// ------------------------------------------------------------------------------------------------

fn err_class<E: std::fmt::Debug>(e: &E) -> String {
    let s = format!("{:?}", e);
    s.chars().take_while(|c| c.is_ascii_alphanumeric()).collect()
}

fn err_code(e: &calamine::CellErrorType) -> usize {
    use calamine::CellErrorType::*;
    match e {
        Div0 => 0,
        NA => 1,
        Name => 2,
        Null => 3,
        Num => 4,
        Ref => 5,
        Value => 6,
        GettingData => 7,
    }
}

fn canon_dt(d: &calamine::ExcelDateTime, with1904: bool) -> String {
    let kind = if d.is_duration() { "td" } else { "dt" };
    if with1904 {
        let is1904 = format!("{:?}", d).contains("is_1904: true");
        format!("D:{:016x}:{}:{}", d.as_f64().to_bits(), kind, is1904 as u8)
    } else {
        format!("D:{:016x}:{}", d.as_f64().to_bits(), kind)
    }
}

fn canon_data(d: &Data, with1904: bool) -> String {
    match d {
        Data::Int(i) => format!("I:{i}"),
        Data::Float(f) => format!("F:{:016x}", f.to_bits()),
        Data::String(s) => format!("S:{}", hex(s.as_bytes())),
        Data::Bool(b) => format!("B:{}", *b as u8),
        Data::DateTime(d) => canon_dt(d, with1904),
        Data::DateTimeIso(s) => format!("DI:{}", hex(s.as_bytes())),
        Data::DurationIso(s) => format!("DU:{}", hex(s.as_bytes())),
        Data::Error(e) => format!("E:{}", err_code(e)),
        Data::Empty => "_".into(),
    }
}

fn canon_ref(d: &DataRef, with1904: bool) -> String {
    match d {
        DataRef::Int(i) => format!("I:{i}"),
        DataRef::Float(f) => format!("F:{:016x}", f.to_bits()),
        DataRef::String(s) => format!("S:{}", hex(s.as_bytes())),
        DataRef::SharedString(s) => format!("SS:{}", hex(s.as_bytes())),
        DataRef::Bool(b) => format!("B:{}", *b as u8),
        DataRef::DateTime(d) => canon_dt(d, with1904),
        DataRef::DateTimeIso(s) => format!("DI:{}", hex(s.as_bytes())),
        DataRef::DurationIso(s) => format!("DU:{}", hex(s.as_bytes())),
        DataRef::Error(e) => format!("E:{}", err_code(e)),
        DataRef::Empty => "_".into(),
    }
}

/// resolve the model's opaque number token `N:<hex>:<fmt>:<strict>` with the `str::parse::<f64>` the code calls
fn resolve_token(v: &str) -> Result<String, ()> {
    if !v.starts_with("N:") {
        return Ok(v.to_string());
    }
    let p: Vec<&str> = v.split(':').collect();
    let text = String::from_utf8_lossy(&unhex(p[1])).to_string();
    match text.parse::<f64>() {
        Ok(f) => Ok(match p[2] {
            "DateTime" => format!("D:{:016x}:dt", f.to_bits()),
            "TimeDelta" => format!("D:{:016x}:td", f.to_bits()),
            _ => format!("F:{:016x}", f.to_bits()),
        }),
        Err(_) => {
            if p[3] == "1" {
                Err(())
            } else {
                Ok(format!("S:{}", hex(text.as_bytes())))
            }
        }
    }
}

// ------------------------------------------------------------------------------------------------
// unit level
// ------------------------------------------------------------------------------------------------

#[cfg(feature = "hooks")]
mod unit {
    use super::*;

    pub fn show_a1(s: &[u8]) -> String {
        match guarded(|| hooks::get_row_and_optional_column(s)) {
            Ok(Ok((r, c))) => format!("ok {} {}", r, c.map(|c| c.to_string()).unwrap_or("-".into())),
            Ok(Err(e)) => format!("err:{}", err_class(&e)),
            Err(_) => "panic".into(),
        }
    }
    pub fn show_rc(s: &[u8]) -> String {
        match guarded(|| hooks::get_row_column(s)) {
            Ok(Ok((r, c))) => format!("ok {r} {c}"),
            Ok(Err(e)) => format!("err:{}", err_class(&e)),
            Err(_) => "panic".into(),
        }
    }
    pub fn show_dim(s: &[u8]) -> String {
        match guarded(|| hooks::get_dimension(s)) {
            Ok(Ok((a, b))) => format!("ok {} {} {} {}", a.0, a.1, b.0, b.1),
            Ok(Err(e)) => format!("err:{}", err_class(&e)),
            Err(_) => "panic".into(),
        }
    }
    pub fn show_colname(n: u32) -> String {
        match guarded(|| hooks::column_number_to_name(n)) {
            Ok(Ok(v)) => format!("ok {}", hex(&v)),
            Ok(Err(e)) => format!("err:{}", err_class(&e)),
            Err(_) => "panic".into(),
        }
    }
    pub fn show_coord(r: u32, c: u32) -> String {
        match guarded(|| hooks::coordinate_to_name((r, c))) {
            Ok(Ok(v)) => format!("ok {}", hex(&v)),
            Ok(Err(e)) => format!("err:{}", err_class(&e)),
            Err(_) => "panic".into(),
        }
    }

    struct Fnv(u64);
    impl Fnv {
        fn new() -> Fnv {
            Fnv(0xcbf29ce484222325)
        }
        fn line(&mut self, s: &str) {
            for b in s.bytes().chain(std::iter::once(10u8)) {
                self.0 ^= b as u64;
                self.0 = self.0.wrapping_mul(0x100000001b3);
            }
        }
    }

    /// one reference through impl, model and oracle. `expect`: Some(canonical) when the property fixes the result.
    pub fn one_a1(rep: &mut Report, drv: &mut Driver, s: &[u8], expect: Option<String>) {
        many_a1(rep, drv, &[(s.to_vec(), expect)]);
    }

    /// a batch of references: one driver request
    pub fn many_a1(rep: &mut Report, drv: &mut Driver, items: &[(Vec<u8>, Option<String>)]) {
        if items.is_empty() {
            return;
        }
        let req: Vec<String> = items.iter().map(|x| hex(&x.0)).collect();
        let reply = drv.ask(&format!("a1 {}", req.join(" ")));
        let ms: Vec<&str> = reply.split(';').collect();
        if ms.len() != items.len() {
            rep.fail("model_vs_spec", "driver-protocol", &format!("a1 {}", req.join(" ")), "", &reply, "");
            return;
        }
        for ((s, expect), m) in items.iter().zip(ms) {
            let input = format!("unit a1 {}", hex(s));
            let i = show_a1(s);
            rep.case(&input, expect.is_some() || i.starts_with("ok"));
            rep.count(&format!("a1:{}", i.split(' ').next().unwrap_or("")));
            let e = expect.clone().unwrap_or_default();
            if i != m {
                rep.fail("impl_vs_model", "a1", &input, &i, m, &e);
            }
            if i == "panic" {
                rep.fail("impl_vs_spec", "panic:get_row_and_optional_column", &input, &i, m, "an error or a position, not a panic");
            }
            if let Some(e) = expect {
                if i != *e {
                    rep.fail("impl_vs_spec", "a1-position", &input, &i, m, e);
                }
                if m != e && i == *e {
                    rep.fail("model_vs_spec", "a1-position", &input, &i, m, e);
                }
            }
        }
    }

    pub fn one_dim(rep: &mut Report, drv: &mut Driver, s: &[u8], expect: Option<String>) {
        let input = format!("unit dim {}", hex(s));
        let i = show_dim(s);
        let m = drv.ask(&format!("dim {}", hex(s)));
        rep.case(&input, true);
        rep.count(&format!("dim:{}", i.split(' ').next().unwrap_or("")));
        let e = expect.clone().unwrap_or_default();
        if i != m {
            rep.fail("impl_vs_model", "dim", &input, &i, &m, &e);
        }
        if i == "panic" {
            rep.fail("impl_vs_spec", "panic:get_dimension", &input, &i, &m, "an error or a rectangle, not a panic");
        }
        if let Some(e) = expect {
            if i != e {
                rep.fail("impl_vs_spec", "dimension", &input, &i, &m, &e);
            }
        }
        // get_row_column agrees with the first part
        let i2 = show_rc(s);
        let m2 = drv.ask(&format!("rc {}", hex(s)));
        if i2 != m2 {
            rep.fail("impl_vs_model", "rc", &format!("unit rc {}", hex(s)), &i2, &m2, "");
        }
    }

    fn name(c: u32, lower: bool) -> Vec<u8> {
        let n = xlsxw::col_name(c);
        if lower {
            n.to_lowercase().into_bytes()
        } else {
            n.into_bytes()
        }
    }

    /// the complete sweeps (checksummed against the model, every element checked against the oracle)
    pub fn sweeps(rep: &mut Report, drv: &mut Driver) {
        // 1. column names: every n in 0..16385
        let mut h = Fnv::new();
        let mut bad: Option<u32> = None;
        for n in 0..16385u32 {
            let s = show_colname(n);
            let e = if n < 16384 { format!("ok {}", hex(xlsxw::col_name(n).as_bytes())) } else { "err:Unexpected".to_string() };
            if s != e && bad.is_none() {
                bad = Some(n);
                rep.fail("impl_vs_spec", "colname", &format!("unit colname {n}"), &s, "", &e);
            }
            h.line(&s);
        }
        rep.bulk(16385, 16385, "sweep colname 0 16385");
        let m = drv.ask("sweep colname 0 16385");
        if m != h.0.to_string() {
            // locate
            for n in 0..16385u32 {
                let i = show_colname(n);
                let mm = drv.ask(&format!("colname {n}"));
                if i != mm {
                    rep.fail("impl_vs_model", "colname", &format!("unit colname {n}"), &i, &mm, "");
                    break;
                }
            }
        }
        for n in [16385u32, 65535, 65536, u32::MAX - 1, u32::MAX] {
            let i = show_colname(n);
            let mm = drv.ask(&format!("colname {n}"));
            rep.case(&format!("unit colname {n}"), false);
            if i != mm {
                rep.fail("impl_vs_model", "colname", &format!("unit colname {n}"), &i, &mm, "");
            }
        }
        // coordinate_to_name on the corner grid
        for r in [0u32, 8, 9, 98, 99, 1048575, 1048576, u32::MAX - 1, u32::MAX] {
            for c in [0u32, 25, 26, 701, 702, 16383, 16384] {
                let i = show_coord(r, c);
                let mm = drv.ask(&format!("coord {r} {c}"));
                rep.case(&format!("unit coord {r} {c}"), true);
                if i != mm {
                    rep.fail("impl_vs_model", "coord", &format!("unit coord {r} {c}"), &i, &mm, "");
                }
                if c < 16384 && r < u32::MAX {
                    let e = format!("ok {}", hex(format!("{}{}", xlsxw::col_name(c), r as u64 + 1).as_bytes()));
                    if i != e {
                        rep.fail("impl_vs_spec", "coord", &format!("unit coord {r} {c}"), &i, &mm, &e);
                    }
                }
            }
        }
        // 2. every column × boundary rows, upper and lower case
        for row1 in [1u64, 9, 10, 99, 100, 1000, 65536, 1048575, 1048576, 1048577, 99999999, 999999999] {
            for lower in [false, true] {
                let mut h = Fnv::new();
                let digits = row1.to_string().into_bytes();
                for c in 0..16384u32 {
                    let mut s = name(c, lower);
                    s.extend_from_slice(&digits);
                    let i = show_a1(&s);
                    let e = format!("ok {} {}", row1 - 1, c);
                    if i != e {
                        rep.fail("impl_vs_spec", "a1-position", &format!("unit a1 {}", hex(&s)), &i, "", &e);
                    }
                    h.line(&i);
                }
                rep.bulk(16384, 16384, &format!("sweep a1cols {row1} {}", lower as u8));
                let m = drv.ask(&format!("sweep a1cols {row1} {}", lower as u8));
                if m != h.0.to_string() {
                    for c in 0..16384u32 {
                        let mut s = name(c, lower);
                        s.extend_from_slice(&digits);
                        let i = show_a1(&s);
                        let mm = drv.ask(&format!("a1 {}", hex(&s)));
                        if i != mm {
                            rep.fail("impl_vs_model", "a1", &format!("unit a1 {}", hex(&s)), &i, &mm, "");
                            break;
                        }
                    }
                }
            }
        }
        // 3. every row 1..=1048577 × three columns
        for c in [0u32, 26, 16383] {
            let mut h = Fnv::new();
            for row1 in 1..1048578u64 {
                let mut s = name(c, false);
                s.extend_from_slice(row1.to_string().as_bytes());
                let i = show_a1(&s);
                let e = format!("ok {} {}", row1 - 1, c);
                if i != e {
                    rep.fail("impl_vs_spec", "a1-position", &format!("unit a1 {}", hex(&s)), &i, "", &e);
                }
                h.line(&i);
            }
            rep.bulk(1048577, 1048577, &format!("sweep a1rows 1 1048578 {c}"));
            let m = drv.ask(&format!("sweep a1rows 1 1048578 {c}"));
            if m != h.0.to_string() {
                rep.fail("impl_vs_model", "a1-rows-sweep", &format!("sweep a1rows 1 1048578 {c}"), &h.0.to_string(), &m, "");
            }
        }
        rep.exhaustive = true;
    }

    const MALFORMED_CORPUS: &[&str] = &[
        "", "A", "1", "0", "A0", "a0", "1A", "A1A", "A1:B2", "$A$1", " A1", "A1 ", "A-1", "é1", "A01", "A001", "AAAA1", "XFE1",
        "ZZZZZZ1", "ZZZZZZZ1", "AAAAAAA1", "zzzzzzz1", "A4294967295", "A4294967296", "A4294967297", "A9999999999", "A99999999999",
        "A0000000001", "A00000000001", "MZZZZZZ1", "NAAAAAA1", "1048576", "4294967296", "aA1", "Aa1", "A1a1", "[1", "@1", "`1", "{1", "/1", ":1",
    ];

    pub fn malformed_corpus(rep: &mut Report, drv: &mut Driver) {
        for s in MALFORMED_CORPUS {
            one_a1(rep, drv, s.as_bytes(), None);
        }
    }

    pub fn malformed(rep: &mut Report, drv: &mut Driver, rng: &mut Rng, n: u64) {
        let alpha: &[u8] = b"AZaz09AB19$: \xc3@[`{/";
        let mut batch: Vec<(Vec<u8>, Option<String>)> = Vec::with_capacity(256);
        for _ in 0..n {
            let s: Vec<u8> = match rng.below(5) {
                0 => {
                    let l = rng.range(0, 12);
                    (0..l).map(|_| *rng.pick(alpha)).collect()
                }
                1 => {
                    // letters then digits, any lengths (overflow region)
                    let a = rng.range(0, 9);
                    let b = rng.range(0, 13);
                    let mut v: Vec<u8> = (0..a).map(|_| if rng.chance(1, 4) { b'a' + rng.below(26) as u8 } else { b'A' + rng.below(26) as u8 }).collect();
                    v.extend((0..b).map(|_| b'0' + rng.below(10) as u8));
                    v
                }
                2 => {
                    // a valid reference with one byte changed / inserted / removed
                    let mut v = xlsxw::a1(rng.below(1048576) as u32, rng.below(16384) as u32).into_bytes();
                    let k = rng.below(v.len() as u64) as usize;
                    match rng.below(3) {
                        0 => v[k] = rng.next() as u8,
                        1 => v.insert(k, *rng.pick(alpha)),
                        _ => {
                            v.remove(k);
                        }
                    }
                    v
                }
                3 => {
                    let l = rng.range(1, 6) as usize;
                    rng.bytes(l)
                }
                _ => {
                    // digits around the u32 boundary
                    let base = *rng.pick(&[4294967295u64, 4294967296, 999999999, 1000000000, 42949672950]);
                    format!("{}{}", xlsxw::col_name(rng.below(20000) as u32), base + rng.below(3)).into_bytes()
                }
            };
            batch.push((s, None));
            if batch.len() == 256 {
                many_a1(rep, drv, &batch);
                batch.clear();
            }
        }
        many_a1(rep, drv, &batch);
    }

    const DIM_CORPUS: &[(&str, Option<&str>)] = &[
        ("A1", Some("ok 0 0 0 0")),
        ("A1:A1", Some("ok 0 0 0 0")),
        ("A1:Z99", Some("ok 0 0 98 25")),
        ("C2:D35", Some("ok 1 2 34 3")),
        ("A1:XFD1048576", Some("ok 0 0 1048575 16383")),
        ("xfd1048576", Some("ok 1048575 16383 1048575 16383")),
        ("B2:A1", None),
        ("A2:A1", None),
        ("B1:A1", None),
        ("A1:B2:C3", None),
        ("", None),
        (":", None),
        ("A1:", None),
        (":A1", None),
        ("A:B", None),
        ("1:2", None),
        ("A1:B", None),
        ("A1:2", None),
        ("A99999999999:B2", None),
        ("B2:A99999999999", None),
        ("A1 :B2", None),
    ];

    pub fn dims_corpus(rep: &mut Report, drv: &mut Driver) {
        for (s, e) in DIM_CORPUS {
            one_dim(rep, drv, s.as_bytes(), e.map(|x| x.to_string()));
        }
    }

    pub fn dims(rep: &mut Report, drv: &mut Driver, rng: &mut Rng, n: u64) {
        for _ in 0..n {
            let r0 = rng.below(1048576) as u32;
            let c0 = rng.below(16384) as u32;
            let r1 = rng.range(r0 as u64, 1048575) as u32;
            let c1 = rng.range(c0 as u64, 16383) as u32;
            match rng.below(4) {
                0 | 1 => {
                    let s = format!("{}:{}", xlsxw::a1(r0, c0), xlsxw::a1(r1, c1));
                    one_dim(rep, drv, s.as_bytes(), Some(format!("ok {r0} {c0} {r1} {c1}")));
                }
                2 => {
                    // any order (reversed rectangles are malformed: only "no panic" is required)
                    let s = format!("{}:{}", xlsxw::a1(r1, c0), xlsxw::a1(r0, c1));
                    one_dim(rep, drv, s.as_bytes(), if r0 == r1 { Some(format!("ok {r0} {c0} {r1} {c1}")) } else { None });
                }
                _ => {
                    let mut v = format!("{}:{}", xlsxw::a1(r0, c0), xlsxw::a1(r1, c1)).into_bytes();
                    let k = rng.below(v.len() as u64) as usize;
                    v[k] = *rng.pick(b":A1 0z$");
                    one_dim(rep, drv, &v, None);
                }
            }
        }
    }
}

// ------------------------------------------------------------------------------------------------
// file level
// ------------------------------------------------------------------------------------------------

/// numFmtId → format class, for the ids the generator uses (the classification itself is property C10)
const XF_CHOICES: &[(u32, char)] = &[(0, 'o'), (2, 'o'), (14, 'd'), (22, 'd'), (46, 't'), (164, 'd'), (165, 'o'), (166, 't'), (49, 'o')];

fn custom_fmts() -> Vec<(u32, String)> {
    vec![(164, "yyyy\\-mm\\-dd".into()), (165, "0.00".into()), (166, "[hh]:mm:ss".into())]
}

const NUMS: &[&str] = &[
    "0", "1", "-1", "1.5", "-2.25", "1E+300", "1e-7", "0.1", "123456789", "3.14159265358979", "1.7976931348623157E308", "4.9E-324", "42.0",
    "007", ".5", "5.", "44197", "44197.5", "0.75", "-0", "1e5",
];
const ERRS: &[&str] = &["#DIV/0!", "#N/A", "#NAME?", "#NULL!", "#NUM!", "#REF!", "#VALUE!"];
const ISO: &[&str] = &["2021-01-05T10:00:00", "2021-01-05", "10:00:00", "2021-01-05T10:00:00.123Z"];

fn rand_string(rng: &mut Rng) -> String {
    let n = *rng.pick(&[0u64, 0, 1, 2, 3, 5, 8, 20]);
    let alpha: Vec<char> = rng.pick(&["abc XYZ019", "a&<>\"' b", "  x  y ", "aé中😀\t", "l1\nl2\r", "]]>&amp;#"]).chars().collect();
    (0..n).map(|_| *rng.pick(&alpha)).collect()
}

fn rand_cell(rng: &mut Rng, nxf: u32) -> XCell {
    let k = rng.below(100);
    let value = if k < 28 {
        if rng.chance(1, 3) {
            XVal::Num(format!("{:?}", (rng.below(2_000_000) as f64 - 1_000_000.0) / *rng.pick(&[1.0, 4.0, 1000.0])))
        } else {
            XVal::Num(rng.pick(NUMS).to_string())
        }
    } else if k < 45 {
        XVal::SharedStr(rand_string(rng))
    } else if k < 55 {
        XVal::InlineStr(rand_string(rng))
    } else if k < 62 {
        XVal::FormulaStr(rand_string(rng))
    } else if k < 70 {
        XVal::Bool(rng.chance(1, 2))
    } else if k < 78 {
        XVal::Err(rng.pick(ERRS).to_string())
    } else if k < 84 {
        XVal::IsoDate(rng.pick(ISO).to_string())
    } else {
        XVal::Empty
    };
    let mut c = XCell::new(value);
    if rng.chance(2, 5) {
        c.style = Some(rng.below(nxf as u64 + 1) as u32); // nxf itself is out of range: falls back to Other
    }
    if matches!(c.value, XVal::FormulaStr(_)) || rng.chance(1, 10) {
        c.formula = Some(xlsxw::XFormula { text: rng.pick(&["A1", "SUM(A1:B2)", "1+1", "\"a\"&\"<b>\""]).to_string(), shared: None });
    }
    c
}

const ROW_EDGES: &[u32] = &[0, 1, 8, 9, 10, 98, 99, 100, 1048574, 1048575];
const COL_EDGES: &[u32] = &[0, 1, 2, 24, 25, 26, 27, 700, 701, 702, 703, 16382, 16383];

/// positions inside a window whose area is ≤ 2^21 cells (ledger D37), biased to the documented boundaries
fn rand_positions(rng: &mut Rng, n: usize) -> Vec<(u32, u32)> {
    let (h, w): (u32, u32) = match rng.below(40) {
        0..=13 => (rng.range(1, 6) as u32, rng.range(1, 6) as u32),
        14..=27 => (rng.range(1, 120) as u32, rng.range(1, 40) as u32),
        28..=33 => (rng.range(1, 200) as u32, rng.range(1, 800) as u32),
        34 | 35 => (rng.range(1, 65536) as u32, 2),     // tall
        36 | 37 => (4, rng.range(1, 16384) as u32),     // wide: up to all columns
        38 => *rng.pick(&[(1048576u32, 2u32), (128, 16384)]), // every row / every column in one sheet
        _ => (rng.range(1, 2048) as u32, 1024),         // far-apart corners, up to the 2^21 cap
    };
    debug_assert!((h as u64) * (w as u64) <= 1 << 21);
    let r0 = if h == 1048576 {
        0
    } else {
        match rng.below(4) {
            0 => 1048576 - h,
            1 => (*rng.pick(ROW_EDGES)).min(1048576 - h),
            2 => rng.below((1048576 - h) as u64 + 1) as u32,
            _ => 0,
        }
    };
    let c0 = if w == 16384 {
        0
    } else {
        match rng.below(4) {
            0 => 16384 - w,
            1 => (*rng.pick(COL_EDGES)).min(16384 - w),
            2 => rng.below((16384 - w) as u64 + 1) as u32,
            _ => 0,
        }
    };
    let mut v = Vec::with_capacity(n);
    for _ in 0..n {
        let r = match rng.below(5) {
            0 => r0,
            1 => r0 + h - 1,
            2 => {
                let e = *rng.pick(ROW_EDGES);
                if e >= r0 && e < r0 + h { e } else { r0 + rng.below(h as u64) as u32 }
            }
            _ => r0 + rng.below(h as u64) as u32,
        };
        let c = match rng.below(5) {
            0 => c0,
            1 => c0 + w - 1,
            2 => {
                let e = *rng.pick(COL_EDGES);
                if e >= c0 && e < c0 + w { e } else { c0 + rng.below(w as u64) as u32 }
            }
            _ => c0 + rng.below(w as u64) as u32,
        };
        v.push((r, c));
    }
    v
}

/// a dense h x w block of non-empty cells from which one inner cell was moved out to the right of its row, while
/// `<dimension>` still names the block (same first and last cell, same cell count as the block's area): a stale
/// dimension tied to the data. Sometimes nothing is moved and the dimension is simply right.
fn dense_displaced(rng: &mut Rng, sh: &mut XlsxSheet) {
    let h = rng.range(2, 6) as u32;
    let w = rng.range(2, 6) as u32;
    let r0 = *rng.pick(&[0u32, 0, 3, 1000, 1_048_570]);
    let c0 = *rng.pick(&[0u32, 0, 2, 26, 16_370]);
    for i in 0..h {
        for j in 0..w {
            let v = match rng.below(3) {
                0 => XVal::Num(format!("{}", i * 10 + j)),
                1 => XVal::InlineStr(format!("r{i}c{j}")),
                _ => XVal::Bool((i + j) % 2 == 0),
            };
            sh.set(r0 + i, c0 + j, XCell::new(v));
        }
    }
    if rng.chance(4, 5) {
        // any cell but those of the last row and the very first one: first and last cell stay what they were
        let i = rng.below(h as u64 - 1) as u32;
        let j = if i == 0 { rng.range(1, w as u64 - 1) as u32 } else { rng.below(w as u64) as u32 };
        if let Some(c) = sh.cells.remove(&(r0 + i, c0 + j)) {
            sh.set(r0 + i, c0 + w + rng.below(4) as u32, c);
        }
    }
    sh.dimension = Some(((r0, c0), (r0 + h - 1, c0 + w - 1)));
}

fn rand_book(rng: &mut Rng) -> XlsxBook {
    let mut book = XlsxBook::new();
    book.num_fmts = custom_fmts();
    // General (id 0) entries interleaved with date / elapsed / custom entries: a style index counts <xf> elements
    let nxf = rng.range(1, 8) as usize;
    book.cell_xfs = (0..nxf).map(|_| if rng.chance(2, 5) { 0 } else { rng.pick(XF_CHOICES).0 }).collect();
    book.date1904 = *rng.pick(&[None, None, Some(false), Some(true)]);
    let ns = rng.range(1, 4);
    let mut names: Vec<String> = vec![];
    while (names.len() as u64) < ns {
        let mut n: String = rand_string(rng).chars().filter(|c| !"\n\r\t".contains(*c)).take(20).collect();
        if n.trim().is_empty() {
            n = format!("Sheet{}", names.len() + 1);
        }
        if !names.contains(&n) {
            names.push(n);
        }
    }
    for n in names {
        let mut sh = XlsxSheet::new(&n);
        let cnt = match rng.below(20) {
            0 => 0,
            1..=7 => rng.range(1, 5),
            8..=15 => rng.range(6, 40),
            _ => rng.range(41, 400),
        } as usize;
        if rng.chance(1, 8) {
            // a part of another sheet kind (the cell reader does not care; the sheet lists must stay parallel)
            sh.folder = rng.pick(&["dialogsheets", "chartsheets", "macrosheets"]).to_string();
        }
        if rng.chance(1, 10) {
            dense_displaced(rng, &mut sh);
        } else {
            for p in rand_positions(rng, cnt) {
                sh.set(p.0, p.1, rand_cell(rng, nxf as u32));
            }
        }
        book.sheets.push(sh);
    }
    book
}

fn fmt_class(book: &XlsxBook, style: Option<u32>) -> char {
    match style {
        Some(s) => match book.cell_xfs.get(s as usize) {
            Some(id) => XF_CHOICES.iter().find(|x| x.0 == *id).map(|x| x.1).unwrap_or('o'),
            None => 'o',
        },
        None => 'o',
    }
}

/// the documented mapping: expected canonical value of a stored cell (None = Empty)
fn expect_cell(book: &XlsxBook, c: &XCell) -> Option<String> {
    let is1904 = book.date1904 == Some(true);
    match &c.value {
        XVal::Empty => None,
        XVal::Num(t) => {
            let f: f64 = t.parse().expect("generator writes parseable numbers");
            Some(match fmt_class(book, c.style) {
                'd' => format!("D:{:016x}:dt:{}", f.to_bits(), is1904 as u8),
                't' => format!("D:{:016x}:td:{}", f.to_bits(), is1904 as u8),
                _ => format!("F:{:016x}", f.to_bits()),
            })
        }
        XVal::SharedStr(s) | XVal::InlineStr(s) | XVal::FormulaStr(s) => Some(format!("S:{}", hex(s.as_bytes()))),
        XVal::Bool(b) => Some(format!("B:{}", *b as u8)),
        XVal::Err(e) => Some(format!("E:{}", ERRS.iter().position(|x| x == e).unwrap())),
        XVal::IsoDate(s) => Some(format!("DI:{}", hex(s.as_bytes()))),
    }
}

/// (bbox, position → value) of the non-empty cells: the property's right-hand side
fn oracle_sheet(book: &XlsxBook, sh: &XlsxSheet) -> (Option<xlsxw::Rect>, BTreeMap<(u32, u32), String>) {
    let mut m = BTreeMap::new();
    for (p, c) in &sh.cells {
        if let Some(v) = expect_cell(book, c) {
            m.insert(*p, v);
        }
    }
    (xlsxw::bbox(m.keys().copied()), m)
}

fn show_rect(r: Option<xlsxw::Rect>) -> String {
    match r {
        Some(((a, b), (c, d))) => format!("{a},{b},{c},{d}"),
        None => "-".into(),
    }
}

struct Fail {
    kind: &'static str,
    sig: String,
    imp: String,
    model: String,
    expect: String,
}

/// Everything checked on one file. `events[i]`: the events of sheet i (model comparison) if known.
fn check_file(
    bytes: &[u8],
    book: &XlsxBook,
    events: &[Vec<Ev>],
    sst_events: &[Ev],
    strings: &[String],
    drv: &mut Driver,
    rep: Option<&mut Report>,
) -> Vec<Fail> {
    let mut fails = vec![];
    let mut counters: Vec<String> = vec![];
    let opened = guarded(|| Xlsx::new(Cursor::new(bytes.to_vec())));
    let mut wb = match opened {
        Ok(Ok(wb)) => wb,
        Ok(Err(e)) => {
            fails.push(Fail { kind: "impl_vs_spec", sig: format!("open:{}", err_class(&e)), imp: format!("{e}"), model: String::new(), expect: "the workbook opens".into() });
            return fails;
        }
        Err(p) => {
            fails.push(Fail { kind: "impl_vs_spec", sig: "open:panic".into(), imp: p, model: String::new(), expect: "the workbook opens".into() });
            return fails;
        }
    };
    let names: Vec<String> = wb.sheet_names();
    let want: Vec<String> = book.sheets.iter().map(|s| s.name.clone()).collect();
    if names != want {
        fails.push(Fail { kind: "impl_vs_spec", sig: "sheet-names".into(), imp: format!("{names:?}"), model: String::new(), expect: format!("{want:?}") });
        return fails;
    }
    // model of the shared string table on the events written
    let model_strings: Option<Vec<String>> = if sst_events.is_empty() {
        Some(vec![])
    } else {
        let r = drv.ask(&format!("sst {}", xlsxw::ev_wire(sst_events)));
        if let Some(rest) = r.strip_prefix("ok ") {
            Some(rest.split(' ').skip(1).map(hex_to_string).collect())
        } else {
            fails.push(Fail { kind: "model_vs_spec", sig: "sst-model".into(), imp: String::new(), model: r, expect: "ok".into() });
            None
        }
    };
    if let Some(ms) = &model_strings {
        if ms != strings {
            fails.push(Fail { kind: "model_vs_spec", sig: "sst-alignment".into(), imp: String::new(), model: format!("{ms:?}"), expect: format!("{strings:?}") });
        }
    }
    let formats: String = {
        let f: String = book.cell_xfs.iter().map(|id| XF_CHOICES.iter().find(|x| x.0 == *id).map(|x| x.1).unwrap_or('o')).collect();
        if f.is_empty() { "-".into() } else { f }
    };
    for (si, sh) in book.sheets.iter().enumerate() {
        let (bbox, cells) = oracle_sheet(book, sh);
        let expect_txt = format!("range {} cells {}", show_rect(bbox), cells.len());
        // ---- guard (D37): the positions the cell reader returns must span what the oracle says before the dense
        // range is built; a reader that puts a cell far outside would otherwise abort the process on allocation
        let span = guarded(|| -> Option<xlsxw::Rect> {
            let mut rd = wb.worksheet_cells_reader(&sh.name).ok()?;
            let mut pos = vec![];
            while let Ok(Some(c)) = rd.next_cell() {
                if *c.get_value() != DataRef::Empty {
                    pos.push(c.get_position());
                }
            }
            xlsxw::bbox(pos.into_iter())
        });
        if let Ok(Some(((a, b), (c, d)))) = span {
            let area = (c as u64 - a as u64 + 1) * (d as u64 - b as u64 + 1);
            if area > (1 << 21) && Some(((a, b), (c, d))) != bbox {
                fails.push(Fail { kind: "impl_vs_spec", sig: "range-bounds".into(), imp: format!("cells reader spans {}", show_rect(Some(((a, b), (c, d))))), model: String::new(), expect: expect_txt.clone() });
                continue;
            }
        }
        // ---- impl vs oracle: worksheet_range
        let r = guarded(|| wb.worksheet_range(&sh.name));
        // ---- access by index must be access by the name at that index (the sheet lists are parallel); always when the
        // book has parts of another sheet kind, else only for sheets whose dense range is cheap
        let other_kinds = book.sheets.iter().any(|s| s.folder != "worksheets");
        let small = bbox.map(|((a, b), (c, d))| (c - a + 1) as u64 * (d - b + 1) as u64 <= 200_000).unwrap_or(true);
        if other_kinds || small {
            type Sum = (Option<(u32, u32)>, Option<(u32, u32)>, Vec<String>);
            let sum = |r: &calamine::Range<Data>| -> Sum { (r.start(), r.end(), r.used_cells().map(|(i, j, v)| format!("{i},{j},{}", canon_data(v, true))).collect()) };
            let by_name: Option<Result<Sum, String>> = match &r {
                Ok(Ok(range)) => Some(Ok(sum(range))),
                Ok(Err(e)) => Some(Err(err_class(e))),
                Err(_) => None,
            };
            let by_index: Option<Option<Result<Sum, String>>> =
                guarded(|| wb.worksheet_range_at(si).map(|r| r.map(|r| sum(&r)).map_err(|e| err_class(&e)))).ok();
            if let (Some(n), Some(ix)) = (&by_name, &by_index) {
                if ix.as_ref() != Some(n) {
                    let show = |x: &Result<Sum, String>| match x {
                        Ok((s, e, c)) => format!("{s:?}..{e:?} {} cells", c.len()),
                        Err(e) => format!("err:{e}"),
                    };
                    fails.push(Fail {
                        kind: "impl_vs_spec",
                        sig: "range-at-index".into(),
                        imp: format!("worksheet_range_at({si}) = {}", ix.as_ref().map(show).unwrap_or("None".into())),
                        model: String::new(),
                        expect: format!("worksheet_range({:?}) = {}", sh.name, show(n)),
                    });
                }
            }
        }
        match r {
            Err(p) => fails.push(Fail { kind: "impl_vs_spec", sig: "range:panic".into(), imp: p, model: String::new(), expect: expect_txt.clone() }),
            Ok(Err(e)) => fails.push(Fail { kind: "impl_vs_spec", sig: format!("range:{}", err_class(&e)), imp: format!("{e}"), model: String::new(), expect: expect_txt.clone() }),
            Ok(Ok(range)) => {
                let got = match (range.start(), range.end()) {
                    (Some(s), Some(e)) => Some((s, e)),
                    _ => None,
                };
                if got != bbox {
                    fails.push(Fail { kind: "impl_vs_spec", sig: "range-bounds".into(), imp: show_rect(got), model: String::new(), expect: show_rect(bbox) });
                } else {
                    let mut used = 0usize;
                    let mut first_bad: Option<String> = None;
                    let mut bad_sig = "cell-value";
                    if let Some((s, _)) = got {
                        for (i, j, v) in range.used_cells() {
                            used += 1;
                            let p = (s.0 + i as u32, s.1 + j as u32);
                            let g = canon_data(v, true);
                            match cells.get(&p) {
                                Some(e) if *e == g => {}
                                Some(e) => {
                                    if first_bad.is_none() {
                                        if e.starts_with("D:") && g.starts_with("D:") && e[..e.len() - 1] == g[..g.len() - 1] {
                                            bad_sig = "date-1904";
                                        }
                                        first_bad = Some(format!("({},{}) got {} want {}", p.0, p.1, g, e));
                                    }
                                }
                                None => {
                                    if first_bad.is_none() {
                                        first_bad = Some(format!("({},{}) got {} want Empty", p.0, p.1, g));
                                    }
                                }
                            }
                        }
                        // every expected cell is there (get_value on absolute positions)
                        for (p, e) in &cells {
                            let g = range.get_value(*p).map(|v| canon_data(v, true)).unwrap_or("none".into());
                            if g != *e && first_bad.is_none() {
                                if e.starts_with("D:") && g.starts_with("D:") && e[..e.len() - 1] == g[..g.len() - 1] {
                                    bad_sig = "date-1904";
                                }
                                first_bad = Some(format!("({},{}) got {} want {}", p.0, p.1, g, e));
                            }
                        }
                    }
                    if let Some(b) = first_bad {
                        fails.push(Fail { kind: "impl_vs_spec", sig: bad_sig.into(), imp: b, model: String::new(), expect: expect_txt.clone() });
                    } else if used != cells.len() {
                        fails.push(Fail { kind: "impl_vs_spec", sig: "cell-count".into(), imp: used.to_string(), model: String::new(), expect: expect_txt.clone() });
                    }
                }
            }
        }
        // ---- impl stream and ref-range, for the model comparison
        if events.get(si).map(|e| e.is_empty()).unwrap_or(true) || model_strings.is_none() {
            continue;
        }
        let impl_ref = match guarded(|| wb.worksheet_range_ref(&sh.name).map(|r| (r.start(), r.end(), r.used_cells().count()))) {
            Err(_) => "panic".to_string(),
            Ok(Err(e)) => format!("err:{}", err_class(&e)),
            Ok(Ok((Some(s), Some(e), n))) => format!("ok:{},{},{},{},{}", s.0, s.1, e.0, e.1, n),
            Ok(Ok(_)) => "ok:-".to_string(),
        };
        let impl_stream = guarded(|| -> (String, String, Vec<String>) {
            let mut rd = match wb.worksheet_cells_reader(&sh.name) {
                Ok(rd) => rd,
                Err(e) => return (format!("err:{}", err_class(&e)), String::new(), vec![]),
            };
            let d = rd.dimensions();
            let new = format!("ok:{},{},{},{}", d.start.0, d.start.1, d.end.0, d.end.1);
            let mut cells = vec![];
            loop {
                match rd.next_cell() {
                    Ok(Some(c)) => cells.push(format!("{},{},{}", c.get_position().0, c.get_position().1, canon_ref(c.get_value(), false))),
                    Ok(None) => return (new, "ok".into(), cells),
                    Err(e) => return (new, format!("err:{}", err_class(&e)), cells),
                }
            }
        });
        let (inew, iend, icells) = match impl_stream {
            Ok(x) => x,
            Err(_) => ("?".into(), "panic".into(), vec![]),
        };
        let ms = model_strings.as_ref().unwrap();
        let mut req = format!("sheet {} {}", formats, ms.len());
        for s in ms {
            req.push(' ');
            req.push_str(&hex(s.as_bytes()));
        }
        req.push(' ');
        req.push_str(&xlsxw::ev_wire(&events[si]));
        let reply = drv.ask(&req);
        let field = |k: &str| -> String { reply.split(' ').find_map(|w| w.strip_prefix(k)).unwrap_or("").to_string() };
        let mnew = field("new=");
        let mut mend = field("end=");
        let mut mrange = field("range=");
        let mut mcells: Vec<String> = vec![];
        let raw = field("cells=");
        if raw != "-" && !raw.is_empty() {
            for c in raw.split(';') {
                let p: Vec<&str> = c.splitn(3, ',').collect();
                match resolve_token(p[2]) {
                    Ok(v) => mcells.push(format!("{},{},{}", p[0], p[1], v)),
                    Err(()) => {
                        mend = "err:ParseFloat".into();
                        mrange = "err:ParseFloat".into();
                        break;
                    }
                }
            }
        }
        counters.push(format!("model-range:{}", mrange.split(':').next().unwrap_or("")));
        let impl_txt = format!("new={inew} end={iend} ncells={} range={impl_ref}", icells.len());
        let model_txt = format!("new={mnew} end={mend} ncells={} range={mrange}", mcells.len());
        if inew != mnew || (iend != "panic" && iend != mend) || (iend != "panic" && icells != mcells) {
            let diff = icells.iter().zip(mcells.iter()).position(|(a, b)| a != b);
            let detail = match diff {
                Some(k) => format!(" first-diff#{k} impl={} model={}", icells[k], mcells[k]),
                None => String::new(),
            };
            fails.push(Fail { kind: "impl_vs_model", sig: "cell-stream".into(), imp: format!("{impl_txt}{detail}"), model: model_txt.clone(), expect: expect_txt.clone() });
        } else if mrange != "skip" && mend == "ok" && impl_ref != mrange {
            fails.push(Fail { kind: "impl_vs_model", sig: "range-ref".into(), imp: impl_txt.clone(), model: model_txt.clone(), expect: expect_txt.clone() });
        }
        if iend == "panic" || impl_ref == "panic" {
            fails.push(Fail { kind: "impl_vs_spec", sig: "reader:panic".into(), imp: impl_txt.clone(), model: model_txt.clone(), expect: expect_txt.clone() });
        }
        // model vs oracle (a theorem: xlsx_range_spec) — positions and values of the non-empty cells
        if mend == "ok" {
            let got: Vec<String> = mcells.iter().filter(|c| !c.ends_with(",_")).map(|c| c.replacen(",SS:", ",S:", 1)).collect();
            let want: Vec<String> = cells.iter().map(|(p, v)| {
                let v = if v.starts_with("D:") { v[..v.len() - 2].to_string() } else { v.clone() };
                format!("{},{},{}", p.0, p.1, v)
            }).collect();
            if got != want {
                fails.push(Fail { kind: "model_vs_spec", sig: "model-cells".into(), imp: impl_txt, model: format!("{got:?}"), expect: format!("{want:?}") });
            }
        }
    }
    if let Some(rep) = rep {
        for c in counters {
            rep.count(&c);
        }
    }
    fails
}

fn hex_to_string(h: &str) -> String {
    String::from_utf8_lossy(&unhex(h)).to_string()
}

// ---- a replayable file case: seed + shrink modifications

#[derive(Clone, Default)]
struct Mods {
    /// keep only this sheet
    sheet: Option<usize>,
    /// indices (in BTreeMap order, of the kept sheet) of dropped cells
    drop: Vec<usize>,
    /// knob groups reset to `Layout::plain()`
    plain: Vec<usize>,
}

impl Mods {
    fn wire(&self) -> String {
        let mut s = String::new();
        if let Some(k) = self.sheet {
            s.push_str(&format!(" sheet={k}"));
        }
        if !self.plain.is_empty() {
            s.push_str(&format!(" plain={}", self.plain.iter().map(|x| x.to_string()).collect::<Vec<_>>().join(",")));
        }
        if !self.drop.is_empty() {
            s.push_str(&format!(" drop={}", self.drop.iter().map(|x| x.to_string()).collect::<Vec<_>>().join(",")));
        }
        s
    }
    fn parse(words: &[&str]) -> Mods {
        let mut m = Mods::default();
        for w in words {
            if let Some(v) = w.strip_prefix("sheet=") {
                m.sheet = v.parse().ok();
            } else if let Some(v) = w.strip_prefix("plain=") {
                m.plain = v.split(',').filter_map(|x| x.parse().ok()).collect();
            } else if let Some(v) = w.strip_prefix("drop=") {
                m.drop = v.split(',').filter_map(|x| x.parse().ok()).collect();
            }
        }
        m
    }
}

const KNOB_GROUPS: usize = 15;

fn reset_knob(l: &mut Layout, k: usize) {
    let p = Layout::plain();
    match k {
        0 => l.prefix = p.prefix,
        1 => l.rel_prefix = p.rel_prefix,
        2 => l.part_case = p.part_case,
        3 => l.target = p.target,
        4 => l.compression = p.compression,
        5 => l.dimension = p.dimension,
        6 => {
            l.pct_row_ref = 100;
            l.pct_cell_ref = 100;
            l.pct_lower_ref = 0;
        }
        7 => {
            l.pct_swap_string_store = 0;
            l.pct_sst_dedupe = 100;
        }
        8 => l.pct_rich = 0,
        9 => l.pct_empty_si = 0,
        10 => {
            l.pct_self_close = 100;
            l.pct_whitespace = 0;
            l.pct_noise = 0;
            l.pct_t_n = 0;
        }
        11 => l.pct_write_blank = 100,
        12 => {
            l.pct_xf_omit_general = 0;
            l.pct_row_style = 0;
        }
        13 => {
            l.rel_decl = xlsxw::RelDecl::Workbook;
            l.pct_rels_noise = 0;
        }
        _ => {
            l.pct_styles_noise = 0;
            l.pct_spans = 0;
            l.pct_char_ref = 0;
            l.pct_end_tag_space = 0;
            l.pct_attr_shuffle = 0;
            l.pct_attr_extra = 0;
            l.pct_t_n_styled = 0;
        }
    }
}

fn make_case(seed: u64, mods: &Mods) -> (XlsxBook, Layout) {
    let mut rng = Rng::new(seed);
    let mut book = rand_book(&mut rng);
    let mut layout = Layout::random(&mut rng);
    if let Some(k) = mods.sheet {
        if k < book.sheets.len() {
            let s = book.sheets[k].clone();
            book.sheets = vec![s];
        }
    }
    if !mods.drop.is_empty() {
        let sh = &mut book.sheets[0];
        let keys: Vec<(u32, u32)> = sh.cells.keys().copied().collect();
        for i in &mods.drop {
            if let Some(k) = keys.get(*i) {
                sh.cells.remove(k);
            }
        }
    }
    for k in &mods.plain {
        reset_knob(&mut layout, *k);
    }
    (book, layout)
}

/// container glue (Model/XlsxContainer.lean): entry names + events of workbook.xml and of its .rels part ↦ the sheet
/// table and the entry opened per sheet. impl: `sheets_metadata()` (names, kinds, visibility) and the open error class;
/// spec: the entry the writer put sheet i into (that the impl reads sheet i's cells from it is the file-level oracle).
fn container_stage(built: &xlsxw::Built, book: &XlsxBook, drv: &mut Driver) -> Vec<Fail> {
    let mut fails = vec![];
    let lower = |s: &str| s.to_ascii_lowercase();
    let names: Vec<&String> = built.parts.iter().map(|p| &p.0).collect();
    let find = |canon: &str| names.iter().find(|n| lower(n) == canon).map(|n| n.to_string());
    let (Some(wname), Some(rname)) = (find("xl/workbook.xml"), find("xl/_rels/workbook.xml.rels")) else {
        return fails;
    };
    let mut req = format!("container {}", names.len());
    for n in &names {
        req.push(' ');
        req.push_str(&hex(n.as_bytes()));
    }
    req.push_str(&format!(" W={} {} R={} {}", hex(wname.as_bytes()), xlsxw::ev_wire(&built.workbook_events), hex(rname.as_bytes()), xlsxw::ev_wire(&built.rels_events)));
    let reply = drv.ask(&req);
    // impl
    let impl_txt = match guarded(|| Xlsx::new(Cursor::new(built.bytes.clone()))) {
        Err(_) => "panic".to_string(),
        Ok(Err(e)) => format!("err:{}", err_class(&e)),
        Ok(Ok(wb)) => {
            let rows: Vec<String> = wb
                .sheets_metadata()
                .iter()
                .map(|s| format!("{}:{:?}:{:?}", hex(s.name.as_bytes()), s.typ, s.visible))
                .collect();
            format!("ok {}", if rows.is_empty() { "-".to_string() } else { rows.join(";") })
        }
    };
    // model, reduced to what the impl shows
    let model_txt = match reply.strip_prefix("ok ") {
        Some(body) if body != "-" => {
            let rows: Vec<String> = body.split(';').map(|r| r.split(':').take(3).collect::<Vec<_>>().join(":")).collect();
            format!("ok {}", rows.join(";"))
        }
        _ => reply.clone(),
    };
    if impl_txt != model_txt {
        fails.push(Fail { kind: "impl_vs_model", sig: "container-table".into(), imp: impl_txt.clone(), model: reply.clone(), expect: String::new() });
    }
    // spec: sheet i (name, kind, state) resolves to the entry that holds sheet i
    let want: Vec<String> = book
        .sheets
        .iter()
        .enumerate()
        .map(|(i, sh)| {
            let kind = match sh.folder.as_str() {
                "chartsheets" => "ChartSheet",
                "dialogsheets" => "DialogSheet",
                "macrosheets" => "MacroSheet",
                _ => "WorkSheet",
            };
            let vis = match sh.state {
                xlsxw::SheetState::Visible => "Visible",
                xlsxw::SheetState::Hidden => "Hidden",
                xlsxw::SheetState::VeryHidden => "VeryHidden",
            };
            let entry = find(&built.sheet_paths[i]).unwrap_or_default();
            format!("{}:{}:{}:{}:{}", hex(sh.name.as_bytes()), kind, vis, hex(built.sheet_paths[i].as_bytes()), hex(entry.as_bytes()))
        })
        .collect();
    let want_txt = format!("ok {}", if want.is_empty() { "-".to_string() } else { want.join(";") });
    if reply != want_txt {
        // model and implementation failing alike on a legal package: the property is violated by both
        let both_fail = reply.starts_with("err:") && impl_txt == reply;
        fails.push(Fail {
            kind: if both_fail { "impl_vs_spec" } else { "model_vs_spec" },
            sig: if both_fail { format!("container:{}", &reply[4..]) } else { "container-resolution".into() },
            imp: impl_txt,
            model: reply,
            expect: want_txt,
        });
    }
    fails
}

fn run_case(seed: u64, mods: &Mods, drv: &mut Driver, rep: Option<&mut Report>) -> (Vec<Fail>, XlsxBook, Layout) {
    let (book, layout) = make_case(seed, mods);
    let built = book.build(&layout);
    let mut fails = check_file(&built.bytes, &book, &built.sheet_events, &built.sst_events, &built.strings, drv, rep);
    fails.extend(container_stage(&built, &book, drv));
    (fails, book, layout)
}

/// shrink a failing case: one sheet, plain knobs, fewer cells — as long as the same signature fails
fn shrink(seed: u64, kind: &str, sig: &str, drv: &mut Driver) -> Mods {
    let still = |m: &Mods, drv: &mut Driver| run_case(seed, m, drv, None).0.iter().any(|f| f.kind == kind && f.sig == sig);
    let mut m = Mods::default();
    let nsheets = make_case(seed, &m).0.sheets.len();
    for k in 0..nsheets {
        let t = Mods { sheet: Some(k), ..m.clone() };
        if still(&t, drv) {
            m = t;
            break;
        }
    }
    for k in 0..KNOB_GROUPS {
        let mut t = m.clone();
        t.plain.push(k);
        if still(&t, drv) {
            m = t;
        }
    }
    if m.sheet.is_some() || nsheets == 1 {
        if m.sheet.is_none() {
            m.sheet = Some(0);
        }
        let n = make_case(seed, &Mods { sheet: m.sheet, ..Default::default() }).0.sheets[0].cells.len();
        // drop halves, then single cells
        let mut chunk = n.max(1);
        while chunk >= 1 {
            let mut i = 0;
            while i < n {
                let add: Vec<usize> = (i..(i + chunk).min(n)).filter(|x| !m.drop.contains(x)).collect();
                if !add.is_empty() {
                    let mut t = m.clone();
                    t.drop.extend(add);
                    if still(&t, drv) {
                        m = t;
                    }
                }
                i += chunk;
            }
            if chunk == 1 {
                break;
            }
            chunk /= 2;
        }
    }
    m
}

fn describe_case(book: &XlsxBook, layout: &Layout) -> String {
    let mut s = format!("layout[{}] date1904={:?} xfs={:?}", layout.describe(), book.date1904, book.cell_xfs);
    for sh in &book.sheets {
        s.push_str(&format!(" sheet {:?}:", sh.name));
        for (p, c) in sh.cells.iter().take(12) {
            s.push_str(&format!(" {}={:?}/s{:?}", xlsxw::a1(p.0, p.1), c.value, c.style));
        }
        if sh.cells.len() > 12 {
            s.push_str(&format!(" …({} cells)", sh.cells.len()));
        }
    }
    s
}

fn file_case(seed: u64, rep: &mut Report, drv: &mut Driver) {
    let (fails, book, layout) = run_case(seed, &Mods::default(), drv, Some(rep));
    let ncells: usize = book.sheets.iter().map(|s| s.cells.len()).sum();
    rep.case(&format!("file {seed}"), ncells > 0);
    rep.count(&format!("sheets:{}", book.sheets.len()));
    rep.count(&format!("cells:{}", match ncells { 0 => "0", 1..=5 => "1-5", 6..=40 => "6-40", 41..=400 => "41-400", _ => ">400" }));
    rep.count(&format!("knob:prefix:{}", if layout.prefix.is_empty() { "-" } else { "x" }));
    rep.count(&format!("knob:rel:{}", layout.rel_prefix));
    rep.count(&format!("knob:case:{:?}", layout.part_case));
    rep.count(&format!("knob:target:{:?}", layout.target));
    rep.count(&format!("knob:zip:{:?}", layout.compression));
    rep.count(&format!("knob:dim:{:?}", layout.dimension));
    rep.count(&format!("knob:xf-omit-general:{}", layout.pct_xf_omit_general));
    rep.count(&format!("knob:styles-noise:{}", layout.pct_styles_noise));
    rep.count(&format!("knob:row-style:{}", layout.pct_row_style));
    rep.count(&format!("knob:rel-decl:{:?}", layout.rel_decl));
    rep.count(&format!("knob:rels-noise:{}", layout.pct_rels_noise));
    rep.count(&format!("knob:spans:{}", layout.pct_spans));
    rep.count(&format!("knob:char-ref:{}", layout.pct_char_ref));
    rep.count(&format!("knob:end-tag-space:{}", layout.pct_end_tag_space));
    for sh in &book.sheets {
        for c in sh.cells.values() {
            rep.count(match c.value {
                XVal::Empty => "kind:blank",
                XVal::Num(_) => "kind:num",
                XVal::SharedStr(_) => "kind:shared",
                XVal::InlineStr(_) => "kind:inline",
                XVal::FormulaStr(_) => "kind:str",
                XVal::Bool(_) => "kind:bool",
                XVal::Err(_) => "kind:err",
                XVal::IsoDate(_) => "kind:iso",
            });
        }
        if let Some((s, e)) = sh.stored_bbox() {
            let area = (e.0 - s.0 + 1) as u64 * (e.1 - s.1 + 1) as u64;
            rep.count(&format!("bbox:{}", match area { 0..=100 => "≤100", 101..=10000 => "≤10k", 10001..=200000 => "≤200k", _ => "≤2M" }));
            if e.0 == 1048575 { rep.count("reach:last-row"); }
            if e.1 == 16383 { rep.count("reach:XFD"); }
        }
    }
    let mut seen: Vec<(String, String)> = vec![];
    for f in fails {
        if seen.contains(&(f.kind.to_string(), f.sig.clone())) {
            continue;
        }
        seen.push((f.kind.to_string(), f.sig.clone()));
        // shrink only the first time a signature shows up
        let known = rep.failure_count.contains_key(&format!("{}|{}", f.kind, f.sig));
        if known {
            rep.fail(f.kind, &f.sig, &format!("file {seed} [unshrunk: {} cells]", ncells), &f.imp, &f.model, &f.expect);
            continue;
        }
        let m = shrink(seed, f.kind, &f.sig, drv);
        let (fs, b2, l2) = run_case(seed, &m, drv, None);
        let g = fs.iter().find(|x| x.kind == f.kind && x.sig == f.sig).unwrap_or(&f);
        rep.fail(f.kind, &f.sig, &format!("file {seed}{}", m.wire()), &format!("{} || {}", g.imp, describe_case(&b2, &l2)), &g.model, &g.expect);
    }
}

// ---- corpus: the minimal file of every defect this check ever found

fn corpus_case(name: &str) -> Option<(XlsxBook, Layout)> {
    let mut book = XlsxBook::new();
    let mut l = Layout::plain();
    let mut sh = XlsxSheet::new("S");
    match name {
        // D20: an empty shared string item written `<si/>` shifts every later index
        "d20-empty-si" => {
            sh.set(0, 0, XCell::shared("zero"));
            sh.set(0, 1, XCell::shared(""));
            sh.set(0, 2, XCell::shared("two"));
            l.pct_empty_si = 100;
        }
        // D21: rich text under a namespace prefix never finds its closing tag
        "d21-prefixed-rich" => {
            sh.set(0, 0, XCell::shared("ab"));
            l.prefix = "x".into();
            l.pct_rich = 100;
        }
        "d21-prefixed-rich-inline" => {
            sh.set(0, 0, XCell::inline("ab"));
            l.prefix = "x".into();
            l.pct_rich = 100;
        }
        // D22: `<x:workbookPr date1904="1"/>` ignored
        "d22-prefixed-workbookpr" => {
            book.cell_xfs = vec![0, 14];
            book.date1904 = Some(true);
            sh.set(0, 0, XCell::num("44197").with_style(1));
            l.prefix = "x".into();
        }
        // D23: relationship id under another prefix than r: / relationships:
        "d23-rel-prefix" => {
            sh.set(0, 0, XCell::num("1"));
            l.rel_prefix = "rel".into();
        }
        // plain encodings that must always work
        "implicit-refs" => {
            sh.set(0, 0, XCell::num("1"));
            sh.set(0, 1, XCell::num("2"));
            sh.set(1, 0, XCell::num("3"));
            sh.set(5, 3, XCell::shared("x"));
            sh.set(5, 4, XCell::inline("y"));
            l.pct_row_ref = 0;
            l.pct_cell_ref = 0;
        }
        "corners" => {
            sh.set(1048575, 16382, XCell::num("1"));
            sh.set(1048575, 16383, XCell::new(XVal::Bool(true)));
            l.dimension = xlsxw::DimMode::Inaccurate;
            l.pct_lower_ref = 100;
        }
        // seeded change C01-m4: an <xf> without the optional numFmtId attribute still owns its style index
        "xf-without-numfmtid" => {
            book.num_fmts = custom_fmts();
            book.cell_xfs = vec![0, 0, 14, 0, 166, 165];
            sh.set(0, 0, XCell::num("44197").with_style(2));
            sh.set(0, 1, XCell::num("1.5").with_style(3));
            sh.set(0, 2, XCell::num("0.75").with_style(4));
            sh.set(0, 3, XCell::num("2").with_style(5));
            sh.set(0, 4, XCell::num("3").with_style(1));
            l.pct_xf_omit_general = 100;
        }
        // seeded change C01-m6: a row formatted as a whole does not lend its style to cells without `s`
        "row-style-date" => {
            book.cell_xfs = vec![0, 14, 46];
            sh.set(2, 0, XCell::num("44197"));
            sh.set(2, 1, XCell::num("1.5").with_style(0));
            sh.set(2, 2, XCell::num("0.25").with_style(2));
            sh.set(3, 0, XCell::num("7"));
            l.pct_row_style = 100;
            l.row_style_count = 0;
            l.seed = 3;
        }
        // seeded change C01-m8: the relationships prefix may be declared on <sheets>, on <sheet>, or differently on both
        "rel-decl-sheets" => {
            sh.set(0, 0, XCell::num("1"));
            l.rel_decl = xlsxw::RelDecl::Sheets;
            l.rel_prefix = "rel".into();
        }
        "rel-decl-sheet" => {
            sh.set(0, 0, XCell::num("1"));
            l.rel_decl = xlsxw::RelDecl::Sheet;
            l.rel_prefix = "q".into();
        }
        // a relationships prefix that is itself called `id`, declared on the <sheet>: `xmlns:id` is a prefixed attribute
        // whose local name is `id`
        "rel-prefix-named-id" => {
            sh.set(0, 0, XCell::num("1"));
            l.rel_decl = xlsxw::RelDecl::Sheet;
            l.rel_prefix = "id".into();
        }
        "rel-decl-split" => {
            sh.set(0, 0, XCell::num("1"));
            l.rel_decl = xlsxw::RelDecl::Split;
        }
        // container glue: every knob of the relationships part and of the entry names at once
        "container-all" => {
            let mut s2 = XlsxSheet::new("Second & <last>");
            s2.state = xlsxw::SheetState::Hidden;
            s2.set(1, 1, XCell::shared("two"));
            sh.set(0, 0, XCell::num("1"));
            book.sheets.push(sh.clone());
            sh = s2;
            l.prefix = "x".into();
            l.rel_prefix = "rel".into();
            l.rel_decl = xlsxw::RelDecl::Sheets;
            l.target = xlsxw::TargetStyle::AbsoluteXl;
            l.part_case = xlsxw::PartCase::Upper;
            l.pct_rels_noise = 100;
            l.seed = 5;
        }
        // seeded change C01-m9: a stale <dimension> with the corners and the cell count of the data (A1:B2 for A1 C1 A2 B2)
        "dense-stale-dimension" => {
            sh.set(0, 0, XCell::num("1"));
            sh.set(0, 2, XCell::num("2"));
            sh.set(1, 0, XCell::num("3"));
            sh.set(1, 1, XCell::num("4"));
            sh.dimension = Some(((0, 0), (1, 1)));
        }
        // the same through the layout: dimension from the first to the last written cell
        "dense-first-last" => {
            sh.set(4, 1, XCell::num("1"));
            sh.set(4, 5, XCell::inline("moved"));
            sh.set(5, 1, XCell::num("3"));
            sh.set(5, 2, XCell::num("4"));
            l.dimension = xlsxw::DimMode::FirstLast;
        }
        // seeded change C01-m11: `spans` is a hint; a cell without r sits at "previous + 1" (column A first)
        "spans-hint" => {
            for r in 0..8u32 {
                sh.set(r * 2, 0, XCell::num("1"));
                sh.set(r * 2, 1, XCell::inline("b"));
                sh.set(r * 2, 2, XCell::num("3"));
            }
            l.pct_spans = 100;
            l.pct_cell_ref = 0;
            l.pct_row_ref = 0;
            l.seed = 11;
        }
        // seeded change C01-m17: the text of <v> written as character references, for every cell type
        "char-refs-in-v" => {
            book.cell_xfs = vec![0, 14];
            sh.set(0, 0, XCell::shared("zero"));
            sh.set(0, 1, XCell::shared("one"));
            sh.set(0, 2, XCell::new(XVal::Bool(false)));
            sh.set(0, 3, XCell::new(XVal::Bool(true)));
            sh.set(1, 0, XCell::new(XVal::Err("#N/A".into())));
            sh.set(1, 1, XCell::new(XVal::IsoDate("2021-01-05T10:00:00".into())));
            sh.set(1, 2, XCell::num("44197.5").with_style(1));
            sh.set(1, 3, XCell::new(XVal::FormulaStr("a<b".into())));
            l.pct_char_ref = 100;
            l.pct_t_n = 100;
            l.pct_sst_dedupe = 100;
        }
        // seeded change C01-m18: white space before the `>` of end tags, with implicit row and cell references
        "end-tag-space" => {
            for r in 0..4u32 {
                sh.set(r, 0, XCell::num("1"));
                sh.set(r, 1, XCell::shared("s"));
                sh.set(r, 2, XCell::inline("i"));
            }
            l.pct_end_tag_space = 100;
            l.pct_self_close = 0;
            l.pct_row_ref = 0;
            l.pct_cell_ref = 0;
        }
        // seeded change C01-m19: a dialog sheet part in front of worksheets; access by index = access by name
        "dialogsheet-first" => {
            let mut d = XlsxSheet::new("Dialog1");
            d.folder = "dialogsheets".into();
            d.set(0, 0, XCell::num("111"));
            book.sheets.push(d);
            sh.set(1, 1, XCell::num("222"));
            book.sheets.push(sh.clone());
            sh = XlsxSheet::new("Last");
            sh.set(2, 2, XCell::num("333"));
        }
        // the structure around the format table is not the format table
        "styles-noise" => {
            book.num_fmts = custom_fmts();
            book.cell_xfs = vec![0, 14, 165, 164, 46];
            for i in 0..5u32 {
                sh.set(1, i, XCell::num("44197.25").with_style(i));
            }
            l.pct_styles_noise = 100;
            l.pct_xf_omit_general = 100;
            l.seed = 7;
        }
        "blank-only" => {
            sh.set(3, 3, XCell::new(XVal::Empty).with_style(0));
        }
        "upper-parts" => {
            sh.set(2, 2, XCell::shared("s"));
            l.part_case = xlsxw::PartCase::Upper;
            l.target = xlsxw::TargetStyle::AbsoluteXl;
            l.compression = xlsxw::Compression::Stored;
        }
        _ => return None,
    }
    book.sheets.push(sh);
    Some((book, l))
}

const CORPUS: &[&str] = &[
    "d20-empty-si", "d21-prefixed-rich", "d21-prefixed-rich-inline", "d22-prefixed-workbookpr", "d23-rel-prefix", "implicit-refs", "corners", "blank-only",
    "upper-parts", "xf-without-numfmtid", "styles-noise", "row-style-date", "rel-decl-sheets", "rel-decl-sheet", "rel-decl-split", "rel-prefix-named-id", "container-all", "dense-stale-dimension", "dense-first-last", "spans-hint", "char-refs-in-v", "end-tag-space", "dialogsheet-first", "raw:row-cursor-overflow", "raw:col-cursor-overflow", "raw:sst-index-out-of-range", "raw:reversed-dimension", "raw:overlong-ref",
];

/// hand-written worksheet parts (events) for the malformed-input regressions
fn raw_corpus(name: &str) -> Option<(Vec<Ev>, Vec<String>)> {
    use xlsxw::{end, start, text};
    let cell = |r: Option<&str>, t: Option<&str>, v: &str| -> Vec<Ev> {
        let mut a: Vec<(&str, &str)> = vec![];
        if let Some(r) = r {
            a.push(("r", r));
        }
        if let Some(t) = t {
            a.push(("t", t));
        }
        vec![start("c", &a), start("v", &[]), text(v), end("v"), end("c")]
    };
    let wrap = |dim: Option<&str>, rows: Vec<Vec<Ev>>| -> Vec<Ev> {
        let mut v = vec![start("worksheet", &[("xmlns", xlsxw::NS_MAIN)])];
        if let Some(d) = dim {
            v.push(start("dimension", &[("ref", d)]));
            v.push(end("dimension"));
        }
        v.push(start("sheetData", &[]));
        for r in rows {
            v.extend(r);
        }
        v.push(end("sheetData"));
        v.push(end("worksheet"));
        v
    };
    let row = |r: Option<&str>, cells: Vec<Vec<Ev>>| -> Vec<Ev> {
        let mut v = vec![match r {
            Some(r) => start("row", &[("r", r)]),
            None => start("row", &[]),
        }];
        for c in cells {
            v.extend(c);
        }
        v.push(end("row"));
        v
    };
    let strings = vec!["a".to_string(), "b".to_string()];
    Some((
        match name {
            // D39: a row reference at the u32 limit, then rows without `r`: `row_index += 1` overflowed
            "raw:row-cursor-overflow" => wrap(None, vec![row(Some("4294967296"), vec![cell(Some("B30"), None, "1")]), row(None, vec![cell(Some("A31"), None, "2")]), row(None, vec![])]),
            // D39: the same for the column cursor
            "raw:col-cursor-overflow" => wrap(None, vec![row(Some("1"), vec![cell(Some("ZZZZZZZZ1"), None, "1"), cell(None, None, "2"), cell(None, None, "3")])]),
            // D30-d
            "raw:sst-index-out-of-range" => wrap(None, vec![row(Some("1"), vec![cell(Some("A1"), Some("s"), "7")])]),
            // D30-c
            "raw:reversed-dimension" => wrap(Some("B2:A1"), vec![row(Some("1"), vec![cell(Some("A1"), None, "1")])]),
            // D30-a
            "raw:overlong-ref" => wrap(None, vec![row(Some("1"), vec![cell(Some("A1"), None, "1")]), row(Some("A99999999999"), vec![cell(Some("B2"), None, "2")])]),
            _ => return None,
        },
        strings,
    ))
}

fn run_corpus(name: &str, rep: &mut Report, drv: &mut Driver) {
    if name.starts_with("raw:") {
        match raw_corpus(name) {
            Some((evs, items)) => check_events(&format!("corpus {name}"), &evs, &items, "corpus", 1, rep, drv),
            None => rep.fail("model_vs_spec", "unknown-corpus", &format!("corpus {name}"), "", "", ""),
        }
        return;
    }
    let Some((book, l)) = corpus_case(name) else {
        rep.fail("model_vs_spec", "unknown-corpus", &format!("corpus {name}"), "", "", "");
        return;
    };
    let built = book.build(&l);
    let mut fails = check_file(&built.bytes, &book, &built.sheet_events, &built.sst_events, &built.strings, drv, Some(rep));
    fails.extend(container_stage(&built, &book, drv));
    rep.case(&format!("corpus {name}"), true);
    for mut f in fails {
        if name == "rel-prefix-named-id" {
            // known finding C01-k1: signature kept apart from other open failures
            f.sig = format!("xmlns-id-prefix:{}", f.sig);
        }
        let parts: Vec<String> = built.parts.iter().filter(|p| p.0.to_lowercase().starts_with("xl/")).map(|p| format!("{}: {}", p.0, String::from_utf8_lossy(&p.1).replace('\n', ""))).collect();
        rep.fail(f.kind, &f.sig, &format!("corpus {name}"), &format!("{} || {}", f.imp, parts.join(" ## ")), &f.model, &f.expect);
    }
}

// ---- malformed worksheet parts (single faults): impl vs model, and "no panic"

fn malformed_case(seed: u64, rep: &mut Report, drv: &mut Driver) {
    let (evs, items, fname) = gen_malformed(seed);
    check_events(&format!("malformed {seed}"), &evs, &items, fname, seed, rep, drv);
}

/// a valid rendered sheet with one structural fault: (events, shared strings, fault name)
fn gen_malformed(seed: u64) -> (Vec<Ev>, Vec<String>, &'static str) {
    let mut rng = Rng::new(seed ^ 0xABCD);
    let mut book = XlsxBook::new();
    book.cell_xfs = vec![0, 14];
    let mut sh = XlsxSheet::new("S");
    let npos = rng.range(1, 6) as usize;
    for p in rand_positions(&mut rng, npos) {
        sh.set(p.0 % 50, p.1 % 50, rand_cell(&mut rng, 2));
    }
    sh.set(0, 0, XCell::shared("a"));
    book.sheets.push(sh);
    let mut l = Layout::random(&mut rng);
    l.rel_prefix = "r".into();
    l.pct_whitespace = 0;
    let mut sst = xlsxw::Sst::default();
    let mut evs = xlsxw::render_sheet(&book.sheets[0], &l, &mut rng, &mut sst);
    // one fault
    let fault = rng.below(9);
    let starts: Vec<usize> = evs.iter().enumerate().filter(|(_, e)| matches!(e, Ev::Start(..))).map(|(i, _)| i).collect();
    let k = *rng.pick(&starts);
    let fname = match fault {
        0 => {
            evs.truncate(rng.range(1, evs.len() as u64) as usize);
            "truncate"
        }
        1 => {
            if let Ev::Start(_, a) = &mut evs[k] {
                for kv in a.iter_mut() {
                    if kv.0 == "r" {
                        kv.1 = rng.pick(&["A99999999999", "ZZZZZZZZ1", "A0", "1", "A", "", "A1:B2", "$A$1", "4294967296", "A4294967296"]).to_string();
                    }
                }
            }
            "bad-ref"
        }
        2 => {
            if let Ev::Start(_, a) = &mut evs[k] {
                for kv in a.iter_mut() {
                    if kv.0 == "t" {
                        kv.1 = rng.pick(&["s", "b", "e", "d", "n", "str", "inlineStr", "is", "zz", ""]).to_string();
                    }
                }
            }
            "bad-type"
        }
        3 => {
            // shared string index out of range / not a number
            let mut done = false;
            for i in 0..evs.len() {
                if let Ev::Start(_, a) = &evs[i] {
                    if a.iter().any(|kv| kv.0 == "t" && kv.1 == "s") {
                        for j in i..evs.len() {
                            if let Ev::Text(t) = &mut evs[j] {
                                *t = rng.pick(&["7", "99999999999999999999999", "-1", "x", "1"]).to_string();
                                done = true;
                                break;
                            }
                        }
                    }
                }
                if done {
                    break;
                }
            }
            "bad-sst-index"
        }
        4 => {
            for e in evs.iter_mut() {
                if let Ev::Start(n, a) = e {
                    if n.ends_with("dimension") {
                        a[0].1 = rng.pick(&["B2:A1", "A1:B2:C3", "", "A:B", "A1:", "Z1:A1", "A99999999999"]).to_string();
                    }
                }
            }
            "bad-dimension"
        }
        5 => {
            evs.remove(k);
            "drop-start"
        }
        6 => {
            let ends: Vec<usize> = evs.iter().enumerate().filter(|(_, e)| matches!(e, Ev::End(..))).map(|(i, _)| i).collect();
            evs.remove(*rng.pick(&ends));
            "drop-end"
        }
        7 => {
            evs.insert(k, xlsxw::start(&format!("{}extLst", if l.prefix.is_empty() { "".to_string() } else { format!("{}:", l.prefix) }), &[]));
            "stray-start"
        }
        _ => {
            if let Ev::Start(_, a) = &mut evs[k] {
                a.retain(|kv| kv.0 != "r" && kv.0 != "ref");
            }
            "drop-ref"
        }
    };
    (evs, sst.items, fname)
}

/// a worksheet given as events: impl (stream + range) vs model, and "no panic"
fn check_events(input: &str, evs: &[Ev], items: &[String], fname: &str, seed: u64, rep: &mut Report, drv: &mut Driver) {
    let mut rng = Rng::new(seed ^ 0x77);
    let mut book = XlsxBook::new();
    book.cell_xfs = vec![0, 14];
    book.sheets.push(XlsxSheet::new("S"));
    let l = Layout::plain();
    let mut r2 = rng.fork();
    let xml = xlsxw::serialize(evs, || r2.chance(1, 2));
    // well-formedness is quick-xml's business: unbalanced events are written as they are (end names unchecked)
    book.sheets[0].raw_xml = Some(xml);
    let mut l2 = l.clone();
    l2.pct_empty_si = 0;
    l2.pct_rich = 0;
    // the shared string table of this file: the items the sheet refers to, plain
    let items_xml: String = items.iter().map(|s| format!("<si><t>{}</t></si>", xlsxw::esc_text(s))).collect();
    book.raw_shared_strings = Some(format!("<sst xmlns=\"{}\">{}</sst>", xlsxw::NS_MAIN, items_xml));
    let built = book.build(&l2);
    rep.case(input, true);
    rep.count(&format!("fault:{fname}"));
    let opened = guarded(|| Xlsx::new(Cursor::new(built.bytes.clone())));
    let mut wb = match opened {
        Ok(Ok(wb)) => wb,
        Ok(Err(_)) => return,
        Err(p) => {
            rep.fail("impl_vs_spec", "open:panic", input, &p, "", "no panic");
            return;
        }
    };
    let impl_stream = guarded(|| -> (String, String, Vec<String>) {
        let mut rd = match wb.worksheet_cells_reader("S") {
            Ok(rd) => rd,
            Err(e) => return (format!("err:{}", err_class(&e)), String::new(), vec![]),
        };
        let d = rd.dimensions();
        let new = format!("ok:{},{},{},{}", d.start.0, d.start.1, d.end.0, d.end.1);
        let mut cells = vec![];
        loop {
            match rd.next_cell() {
                Ok(Some(c)) => cells.push(format!("{},{},{}", c.get_position().0, c.get_position().1, canon_ref(c.get_value(), false))),
                Ok(None) => return (new, "ok".into(), cells),
                Err(e) => return (new, format!("err:{}", err_class(&e)), cells),
            }
        }
    });
    // D37: the dense range is only built when the cells the reader returned span at most 2^21 positions
    let span_ok = {
        let pos: Vec<(u64, u64)> = match &impl_stream {
            Ok((_, _, cells)) => cells
                .iter()
                .filter(|c| !c.ends_with(",_"))
                .map(|c| {
                    let p: Vec<&str> = c.splitn(3, ',').collect();
                    (p[0].parse().unwrap_or(0), p[1].parse().unwrap_or(0))
                })
                .collect(),
            Err(_) => vec![],
        };
        if pos.is_empty() {
            true
        } else {
            // from_sparse (after D40): rows and columns both span min..max over all cells
            let r0 = pos.iter().map(|p| p.0).min().unwrap();
            let r1 = pos.iter().map(|p| p.0).max().unwrap();
            let c0 = pos.iter().map(|p| p.1).min().unwrap();
            let c1 = pos.iter().map(|p| p.1).max().unwrap();
            (r1 - r0 + 1).saturating_mul(c1 - c0 + 1) <= 1 << 21
        }
    };
    let impl_range = if !span_ok {
        rep.count("malformed:range-skipped(D37)");
        "skip".to_string()
    } else {
        match guarded(|| wb.worksheet_range_ref("S").map(|r| (r.start(), r.end(), r.used_cells().count()))) {
            Err(_) => "panic".to_string(),
            Ok(Err(e)) => format!("err:{}", err_class(&e)),
            Ok(Ok((Some(s), Some(e), n))) => format!("ok:{},{},{},{},{}", s.0, s.1, e.0, e.1, n),
            Ok(Ok(_)) => "ok:-".to_string(),
        }
    };
    let mut req = format!("sheet od {}", items.len());
    for s in items {
        req.push(' ');
        req.push_str(&hex(s.as_bytes()));
    }
    req.push(' ');
    req.push_str(&xlsxw::ev_wire(evs));
    let reply = drv.ask(&req);
    let field = |k: &str| -> String { reply.split(' ').find_map(|w| w.strip_prefix(k)).unwrap_or("").to_string() };
    let (inew, iend, icells) = impl_stream.unwrap_or(("?".into(), "panic".into(), vec![]));
    let mut mend = field("end=");
    let mut mcells = vec![];
    let raw = field("cells=");
    if raw != "-" && !raw.is_empty() {
        for c in raw.split(';') {
            let p: Vec<&str> = c.splitn(3, ',').collect();
            match resolve_token(p[2]) {
                Ok(v) => mcells.push(format!("{},{},{}", p[0], p[1], v)),
                Err(()) => {
                    mend = "err:ParseFloat".into();
                    break;
                }
            }
        }
    }
    let mrange = if mend == "err:ParseFloat" { "err:ParseFloat".to_string() } else { field("range=") };
    let impl_txt = format!("new={inew} end={iend} cells={} range={impl_range}", icells.join(";"));
    let model_txt = format!("new={} end={mend} cells={} range={}", field("new="), mcells.join(";"), mrange);
    rep.count(&format!("malformed-end:{}", iend.split(':').next().unwrap_or("")));
    let sheet_xml = String::from_utf8_lossy(&built.parts.iter().find(|p| p.0.to_lowercase().contains("sheet1.xml")).map(|p| p.1.clone()).unwrap_or_default()).replace('\n', "");
    if iend == "panic" || impl_range == "panic" || inew == "?" {
        rep.fail("impl_vs_spec", &format!("reader:panic:{fname}"), input, &format!("{impl_txt} || {sheet_xml}"), &model_txt, "an error or a range, not a panic");
    }
    // XmlEof-class endings depend on quick-xml's own end-of-input handling; compare the classes the model owns
    let same_new = inew == field("new=") || inew == "?";
    let range_ok = mrange == "skip" || impl_range == "skip" || impl_range == "panic" || impl_range == mrange;
    let unbalanced = matches!(fname, "drop-start" | "drop-end" | "stray-start" | "truncate");
    if unbalanced && (inew == "err:Xml" || iend == "err:Xml") && !(field("new=") == "err:Xml" || mend == "err:Xml") {
        // quick-xml reports the unbalanced tag itself (ill-formed document): outside the model boundary (well-formed event lists)
        rep.count("malformed:quick-xml-syntax-error");
        return;
    }
    if !(same_new && (iend == "panic" || (iend == mend && icells == mcells)) && range_ok) {
        rep.fail("impl_vs_model", &format!("malformed:{fname}"), input, &format!("{impl_txt} || {sheet_xml}"), &model_txt, "");
    }
}

// ---- lean level: files whose worksheet events come from the Lean encoder

fn lean_case(seed: u64, rep: &mut Report, drv: &mut Driver) {
    let mut rng = Rng::new(seed ^ 0x1EA7);
    let mut book = XlsxBook::new();
    book.num_fmts = custom_fmts();
    book.cell_xfs = vec![0, 14, 46, 165];
    let strings: Vec<String> = (0..rng.range(1, 5)).map(|_| rand_string(&mut rng)).collect();
    let n = *rng.pick(&[0usize, 1, 2, 5, 12, 40]);
    let mut pos = rand_positions(&mut rng, n);
    pos.sort();
    pos.dedup();
    let mut sh = XlsxSheet::new("L");
    let pfx = rng.chance(1, 3);
    let dim = match rng.below(3) {
        0 => "-".to_string(),
        _ => {
            let r0 = rng.below(1000) as u32;
            let c0 = rng.below(100) as u32;
            format!("{},{},{},{}", r0, c0, r0 + rng.below(1000) as u32, c0 + rng.below(100) as u32)
        }
    };
    // layout choices beyond references: sibling elements, white space, per-row / per-cell prefixes, attribute
    // order and inert attributes, text in pieces (see Spec/XlsxSheet.lean `Layout`)
    let mut flags = String::new();
    for f in ['b', 'a', 'x', 'w'] {
        if rng.chance(1, 2) {
            flags.push(f);
        }
    }
    if flags.is_empty() {
        flags.push('-');
    }
    let mixed = rng.chance(1, 2);
    let mut req = format!("render {} {} {}", pfx as u8, dim, flags);
    rep.count(&format!("lean:flags:{flags}"));
    let mut cur_row: Option<u32> = None;
    for p in &pos {
        if cur_row != Some(p.0) {
            let rp = if mixed { rng.chance(1, 2) } else { pfx };
            req.push_str(&format!(" {},{},{},{}", p.0, rng.chance(1, 2) as u8, rp as u8, rng.below(3)));
            cur_row = Some(p.0);
        }
        let style: Option<u32> = if rng.chance(1, 3) { Some(rng.below(5) as u32) } else { None };
        let formula = if rng.chance(1, 6) { Some("A1+1".to_string()) } else { None };
        let (kind, payload, val) = match rng.below(9) {
            0 => ("b".to_string(), "-".to_string(), XVal::Empty),
            1 | 2 => {
                let t = rng.pick(NUMS).to_string();
                (format!("n{}", rng.chance(1, 2) as u8), hex(t.as_bytes()), XVal::Num(t))
            }
            3 => {
                let i = rng.below(strings.len() as u64) as usize;
                ("s".to_string(), i.to_string(), XVal::SharedStr(strings[i].clone()))
            }
            4 => {
                let s = rand_string(&mut rng);
                ("i".to_string(), hex(s.as_bytes()), XVal::InlineStr(s))
            }
            5 => {
                let s = rand_string(&mut rng);
                ("f".to_string(), hex(s.as_bytes()), XVal::FormulaStr(s))
            }
            6 => {
                let b = rng.chance(1, 2);
                ("t".to_string(), (b as u8).to_string(), XVal::Bool(b))
            }
            7 => {
                let k = rng.below(7) as usize;
                ("e".to_string(), k.to_string(), XVal::Err(ERRS[k].to_string()))
            }
            _ => {
                let s = rng.pick(ISO).to_string();
                ("d".to_string(), hex(s.as_bytes()), XVal::IsoDate(s))
            }
        };
        let cp = if mixed { rng.chance(1, 2) } else { pfx };
        req.push_str(&format!(
            "/{},{},{},{},{},{},{},{},{},{}",
            p.1,
            rng.chance(1, 2) as u8,
            rng.chance(1, 4) as u8,
            style.map(|s| hex(s.to_string().as_bytes())).unwrap_or("!".into()),
            formula.as_ref().map(|f| hex(f.as_bytes())).unwrap_or("!".into()),
            kind,
            payload,
            cp as u8,
            rng.below(4),
            rng.chance(1, 2) as u8
        ));
        let mut c = XCell::new(val);
        c.style = style;
        sh.set(p.0, p.1, c);
    }
    let reply = drv.ask(&req);
    let input = format!("lean {seed}");
    rep.case(&input, !pos.is_empty());
    let mut evs: Vec<Ev> = vec![];
    for w in reply.split(' ') {
        let nm = |s: &str| s.replace('.', ":");
        let p: Vec<&str> = w.splitn(3, ':').collect();
        match p[0] {
            "s" if p.len() == 3 => {
                let attrs = if p[2] == "-" { vec![] } else { p[2].split(',').map(|kv| { let (k, v) = kv.split_once('=').unwrap(); (nm(k), hex_to_string(v)) }).collect() };
                evs.push(Ev::Start(nm(p[1]), attrs));
            }
            "e" if p.len() == 2 => evs.push(Ev::End(nm(p[1]))),
            "t" if p.len() == 2 => evs.push(Ev::Text(hex_to_string(p[1]))),
            "o" => evs.push(Ev::Other("<!--c-->".into())),
            _ => {
                rep.fail("model_vs_spec", "render-protocol", &input, "", &reply, "");
                return;
            }
        }
    }
    // the root element needs its namespace declaration to be XML; the readers ignore it
    if let Some(Ev::Start(_, a)) = evs.first_mut() {
        a.push(("xmlns".to_string(), xlsxw::NS_MAIN.to_string()));
        a.push(("xmlns:x".to_string(), xlsxw::NS_MAIN.to_string()));
    }
    let mut r2 = rng.fork();
    sh.raw_xml = Some(xlsxw::serialize(&evs, || r2.chance(1, 2)));
    book.sheets.push(sh);
    let items: String = strings.iter().map(|s| format!("<si><t xml:space=\"preserve\">{}</t></si>", xlsxw::esc_text(s))).collect();
    book.raw_shared_strings = Some(format!("<sst xmlns=\"{}\">{}</sst>", xlsxw::NS_MAIN, items));
    let mut l = Layout::plain();
    l.seed = rng.next();
    let built = book.build(&l);
    // check_file needs the events for the model comparison: the Lean-rendered ones; the sst is given directly
    let sst_evs: Vec<Ev> = {
        let mut v = vec![xlsxw::start("sst", &[])];
        for s in &strings {
            v.push(xlsxw::start("si", &[]));
            v.push(xlsxw::start("t", &[]));
            if !s.is_empty() {
                v.push(xlsxw::text(s));
            }
            v.push(xlsxw::end("t"));
            v.push(xlsxw::end("si"));
        }
        v.push(xlsxw::end("sst"));
        v
    };
    let fails = check_file(&built.bytes, &book, &[evs], &sst_evs, &strings, drv, Some(rep));
    for f in fails {
        rep.fail(f.kind, &format!("lean:{}", f.sig), &input, &format!("{} || {}", f.imp, req), &f.model, &f.expect);
    }
}

/// fold a worker's report into the main one (workers see disjoint seeds)
fn merge(main: &mut Report, w: Report) {
    let j = w.to_json();
    main.evaluations += w.evaluations;
    let distinct = j["distinct_nontrivial"].as_u64().unwrap_or(0) - w.counters.get("bulk_distinct").copied().unwrap_or(0);
    main.add("bulk_distinct", distinct);
    for (k, v) in &w.counters {
        main.add(k, *v);
    }
    for smp in &w.samples {
        if main.samples.len() < 8 {
            main.samples.push(smp.clone());
        }
    }
    for f in &w.failures {
        main.fail(&f.kind, &f.sig, &f.input, &f.impl_out, &f.model_out, &f.expect);
    }
    for (k, v) in &w.failure_count {
        // `fail` above counted each distinct signature once
        let already = w.failures.iter().any(|f| format!("{}|{}", f.kind, f.sig) == *k) as u64;
        *main.failure_count.entry(k.clone()).or_insert(0) += v - already.min(*v);
    }
}

/// the complete `read_v` grid: every `t` × every text class × every style spelling, one cell per sheet
fn typing_grid(rep: &mut Report, drv: &mut Driver) {
    use xlsxw::{end, start, text};
    let ts: [Option<&str>; 11] = [None, Some("s"), Some("b"), Some("e"), Some("d"), Some("str"), Some("n"), Some("is"), Some("inlineStr"), Some("zz"), Some("")];
    let vs = ["", "0", "1", "2", "true", "#N/A", "#DIV/0!", "#BAD", "1.5", "abc", "7", "-1", "007", "00000000000000000001", "000000000000000000001", "1e3", " 1"];
    let ss: [Option<&str>; 7] = [None, Some("0"), Some("1"), Some("9"), Some("x"), Some(""), Some("01")];
    let strings = vec!["a".to_string(), "b".to_string()];
    for t in ts {
        for v in vs {
            for st in ss {
                let mut a: Vec<(&str, &str)> = vec![("r", "C3")];
                if let Some(st) = st {
                    a.push(("s", st));
                }
                if let Some(t) = t {
                    a.push(("t", t));
                }
                let mut evs = vec![start("worksheet", &[("xmlns", xlsxw::NS_MAIN)]), start("sheetData", &[]), start("row", &[("r", "3")]), start("c", &a), start("v", &[])];
                if !v.is_empty() {
                    evs.push(text(v));
                }
                evs.extend([end("v"), end("c"), end("row"), end("sheetData"), end("worksheet")]);
                let input = format!("typing t={} v={} s={}", t.unwrap_or("-"), hex(v.as_bytes()), st.unwrap_or("-"));
                check_events(&input, &evs, &strings, "typing", 1, rep, drv);
            }
        }
    }
}

fn main() {
    let args = Args::parse();
    let mut rep = Report::new(
        "C01",
        "non-trivial = a file case with at least one stored cell, or a unit reference with a fixed expected result; generator: 1-4 sheets, 0-400 cells inside a window of at most 2^21 cells (D37) that reaches every row 1..1048576 and every column A..XFD, numbers written as text that f64::from_str accepts, strings without XML-forbidden control characters; every layout knob of xlsxw::Layout randomised",
    );
    let mut drv = Driver::spawn(&args.driver);
    let mut rng = Rng::new(args.seed);
    if let Some(input) = &args.replay {
        let w: Vec<&str> = input.split(' ').collect();
        match w[0] {
            "corpus" => run_corpus(w[1], &mut rep, &mut drv),
            "file" => {
                let seed: u64 = w[1].parse().expect("seed");
                let m = Mods::parse(&w[2..]);
                let (fails, b, l) = run_case(seed, &m, &mut drv, None);
                rep.case(input, true);
                for f in fails {
                    rep.fail(f.kind, &f.sig, input, &format!("{} || {}", f.imp, describe_case(&b, &l)), &f.model, &f.expect);
                }
            }
            "malformed" => malformed_case(w[1].parse().expect("seed"), &mut rep, &mut drv),
            "typing" => typing_grid(&mut rep, &mut drv),
            "lean" => lean_case(w[1].parse().expect("seed"), &mut rep, &mut drv),
            #[cfg(feature = "hooks")]
            "unit" if w[1] == "a1" => unit::one_a1(&mut rep, &mut drv, &unhex(w[2]), None),
            #[cfg(feature = "hooks")]
            "unit" if w[1] == "dim" => unit::one_dim(&mut rep, &mut drv, &unhex(w[2]), None),
            _ => panic!("cannot replay {input}"),
        }
        rep.write(&args.out);
        return;
    }
    // corpus first
    for name in CORPUS {
        run_corpus(name, &mut rep, &mut drv);
    }
    typing_grid(&mut rep, &mut drv);
    #[cfg(feature = "hooks")]
    {
        unit::sweeps(&mut rep, &mut drv);
        unit::malformed_corpus(&mut rep, &mut drv);
        unit::dims_corpus(&mut rep, &mut drv);
    }
    #[cfg(not(feature = "hooks"))]
    rep.notes.push("verif-hooks unavailable: unit sweeps skipped".into());
    let nfiles = args.count(3_000, 200_000); // thorough: 200k files + 50k lean-rendered + 66k malformed parts (≈10 min on 16 idle cores)
    // file / lean / malformed cases: seeds drawn from the one PRNG, then spread over worker threads
    // (each with its own driver process); thorough tier uses all cores
    let mut jobs: Vec<(u8, u64)> = vec![];
    for _ in 0..nfiles {
        jobs.push((0, rng.next() >> 1));
    }
    for _ in 0..(nfiles / 4).max(1) {
        jobs.push((1, rng.next() >> 1));
    }
    for _ in 0..(nfiles / 3).max(1) {
        jobs.push((2, rng.next() >> 1));
    }
    // random malformed references / dimensions: batches of 5000 / 1000 spread over the workers too
    if cfg!(feature = "hooks") {
        for _ in 0..args.count(20_000, 10_000_000) / 5000 {
            jobs.push((3, rng.next() >> 1));
        }
        for _ in 0..args.count(5_000, 1_000_000) / 1000 {
            jobs.push((4, rng.next() >> 1));
        }
    }
    let nthreads = if args.thorough() { std::thread::available_parallelism().map(|n| n.get()).unwrap_or(4).min(16) } else { 4 };
    let chunks: Vec<Vec<(u8, u64)>> = (0..nthreads).map(|t| jobs.iter().skip(t).step_by(nthreads).copied().collect()).collect();
    let driver_path = args.driver.clone();
    let parts: Vec<Report> = std::thread::scope(|sc| {
        let hs: Vec<_> = chunks
            .into_iter()
            .map(|chunk| {
                let dp = driver_path.clone();
                sc.spawn(move || {
                    let mut r = Report::new("C01", "");
                    let mut d = Driver::spawn(&dp);
                    for (k, seed) in chunk {
                        match k {
                            0 => file_case(seed, &mut r, &mut d),
                            1 => lean_case(seed, &mut r, &mut d),
                            2 => malformed_case(seed, &mut r, &mut d),
                            #[cfg(feature = "hooks")]
                            3 => unit::malformed(&mut r, &mut d, &mut Rng::new(seed), 5000),
                            #[cfg(feature = "hooks")]
                            4 => unit::dims(&mut r, &mut d, &mut Rng::new(seed), 1000),
                            _ => {}
                        }
                    }
                    r
                })
            })
            .collect();
        hs.into_iter().map(|h| h.join().expect("worker thread")).collect()
    });
    for w in parts {
        merge(&mut rep, w);
    }
    let _ = fnv64;
    rep.notes.push("trusted, exercised only: zip, quick-xml (text -> events, unescaping), f64::from_str; the model starts at the XML event list".into());
    rep.write(&args.out);
}
