//! C07 — read calls are pure and the alternative access paths agree.
//! For generated workbooks in all four formats, a random history of public calls (≤ 25) is run on ONE
//! long-lived reader (opened through the format's reader or through auto-detection). The Lean model
//! (`drv_c07`, the state machine the theorems of Props/C07 are about) says, for every call, which option /
//! loaded-flags are in force and what the result is in terms of fresh reads. The harness evaluates that
//! with FRESHLY OPENED readers brought to exactly that state and compares:
//!   impl_vs_model : long-lived result ≠ the model's result evaluated on a fresh reader (purity / state),
//!   impl_vs_spec  : the path identities of the property (range = ref converted, range_at(n) = range(name_n),
//!                   worksheets() entries = per-name ranges, unknown sheet = error, auto = format reader).
use calamine::{CellErrorType, DataRef, DataType, ExcelDateTime, ExcelDateTimeType, open_workbook_auto, open_workbook_auto_from_rs, Data, HeaderRow, Ods, Range, Reader, ReaderRef, Sheets, Xls, Xlsb, Xlsx};
use std::io::Cursor;
use verif_harness::wb::{self, AnyBook, Fmt};
use verif_harness::{driver::Driver, guarded, hex, report::Report, rng::Rng, Args};

#[derive(Clone, Debug)]
enum Op {
    H(Option<u32>),
    R(String),
    RR(String),
    RA(usize),
    W,
    F(String),
    MC(String),
    LM,
    MR,
    MS(String),
    LT,
    TN,
    TB(String),
    V,
    SN,
    MD,
}

impl Op {
    fn wire(&self) -> String {
        let hx = |s: &String| hex(s.as_bytes());
        match self {
            Op::H(None) => "H,d".into(),
            Op::H(Some(n)) => format!("H,{n}"),
            Op::R(s) => format!("R,{}", hx(s)),
            Op::RR(s) => format!("RR,{}", hx(s)),
            Op::RA(n) => format!("RA,{n}"),
            Op::W => "W".into(),
            Op::F(s) => format!("F,{}", hx(s)),
            Op::MC(s) => format!("MC,{}", hx(s)),
            Op::LM => "LM".into(),
            Op::MR => "MR".into(),
            Op::MS(s) => format!("MS,{}", hx(s)),
            Op::LT => "LT".into(),
            Op::TN => "TN".into(),
            Op::TB(s) => format!("TB,{}", hx(s)),
            Op::V => "V".into(),
            Op::SN => "SN".into(),
            Op::MD => "MD".into(),
        }
    }
    fn parse(s: &str) -> Op {
        let p: Vec<&str> = s.split(',').collect();
        let name = |i: usize| String::from_utf8(verif_harness::unhex(p[i])).unwrap();
        match p[0] {
            "H" => Op::H(if p[1] == "d" { None } else { Some(p[1].parse().unwrap()) }),
            "R" => Op::R(name(1)),
            "RR" => Op::RR(name(1)),
            "RA" => Op::RA(p[1].parse().unwrap()),
            "W" => Op::W,
            "F" => Op::F(name(1)),
            "MC" => Op::MC(name(1)),
            "LM" => Op::LM,
            "MR" => Op::MR,
            "MS" => Op::MS(name(1)),
            "LT" => Op::LT,
            "TN" => Op::TN,
            "TB" => Op::TB(name(1)),
            "V" => Op::V,
            "SN" => Op::SN,
            "MD" => Op::MD,
            x => panic!("op {x}"),
        }
    }
}

fn dump_data(r: &Range<Data>) -> String {
    match (r.start(), r.end()) {
        (Some(s), Some(e)) => format!(
            "{},{},{},{}:{}",
            s.0,
            s.1,
            e.0,
            e.1,
            r.rows().flat_map(|row| row.iter().map(|d| format!("{d:?}"))).collect::<Vec<_>>().join("|")
        ),
        _ => "empty".into(),
    }
}

fn dump_str(r: &Range<String>) -> String {
    match (r.start(), r.end()) {
        (Some(s), Some(e)) => format!(
            "{},{},{},{}:{}",
            s.0,
            s.1,
            e.0,
            e.1,
            r.rows().flat_map(|row| row.iter().map(|d| format!("{d:?}"))).collect::<Vec<_>>().join("|")
        ),
        _ => "empty".into(),
    }
}

fn err_class<E: std::fmt::Debug>(e: &E) -> String {
    let mut s = format!("{e:?}");
    // the `Sheets` wrapper wraps the reader's error: calamine::Error::Xlsx(XlsxError::…)
    for p in ["Xls(", "Xlsx(", "Xlsb(", "Ods("] {
        if s.starts_with(p) {
            s = s[p.len()..].to_string();
        }
    }
    let end = s.find(|c: char| !(c.is_alphanumeric() || c == '_')).unwrap_or(s.len());
    format!("err:{}", &s[..end])
}

fn kind_name<RS>(s: &Sheets<RS>) -> &'static str {
    match s {
        Sheets::Xls(_) => "xls",
        Sheets::Xlsx(_) => "xlsx",
        Sheets::Xlsb(_) => "xlsb",
        Sheets::Ods(_) => "ods",
    }
}

fn auto_err(e: &calamine::Error) -> String {
    match e {
        calamine::Error::Xls(_) => "err:xls".into(),
        calamine::Error::Xlsx(_) => "err:xlsx".into(),
        calamine::Error::Xlsb(_) => "err:xlsb".into(),
        calamine::Error::Ods(_) => "err:ods".into(),
        calamine::Error::Msg("Cannot detect file format") => "cannot".into(),
        other => format!("err:other:{other:?}"),
    }
}

/// which of the four readers open these bytes (the input of `Model/Auto.lean`), measured on the real readers
fn accepts(bytes: &[u8]) -> String {
    let c = || Cursor::new(bytes.to_vec());
    let b = |ok: bool| if ok { '1' } else { '0' };
    let a = [
        guarded(|| Xls::new(c()).is_ok()).unwrap_or(false),
        guarded(|| Xlsx::new(c()).is_ok()).unwrap_or(false),
        guarded(|| Xlsb::new(c()).is_ok()).unwrap_or(false),
        guarded(|| Ods::new(c()).is_ok()).unwrap_or(false),
    ];
    a.iter().map(|x| b(*x)).collect()
}

/// auto-detection on `bytes` (a workbook of format `fmt`, or `None` for something that is no workbook):
/// implementation vs `Model/Auto.lean` given the measured acceptance vector, and vs the property's clause
/// ("opens what the format's own reader opens, with that reader")
fn run_auto(bytes: &[u8], fmt: Option<Fmt>, with_path: bool, drv: &mut Driver, rep: &mut Report) -> Vec<(String, String, String, String, String)> {
    let mut fails = vec![];
    let acc = accepts(bytes);
    rep.count(&format!("auto.accepts.{acc}"));
    let got = match guarded(|| open_workbook_auto_from_rs(Cursor::new(bytes.to_vec()))) {
        Ok(Ok(s)) => kind_name(&s).to_string(),
        Ok(Err(e)) => auto_err(&e),
        Err(p) => format!("panic:{p}"),
    };
    let model = drv.ask(&format!("autors {acc}"));
    if got != model {
        fails.push(("impl_vs_model".into(), "auto:from-rs".into(), got.clone(), model.clone(), format!("accepts={acc}")));
    }
    if let Some(f) = fmt {
        let own = acc.as_bytes()[match f { Fmt::Xls => 0, Fmt::Xlsx => 1, Fmt::Xlsb => 2, Fmt::Ods => 3 }] == b'1';
        // the property: what the format's own reader opens, auto-detection opens with that reader
        let want = if own { f.name().to_string() } else { got.clone() };
        if got != want {
            // an earlier reader of the trial order accepting a foreign file is the implementation's fault as well
            fails.push(("impl_vs_spec".into(), format!("auto:{}:not-the-format-reader", f.name()), got.clone(), model.clone(), format!("{want} (accepts={acc})")));
        }
    } else if acc == "0000" && got != "cannot" {
        fails.push(("impl_vs_spec".into(), "auto:no-reader-opens-it".into(), got.clone(), model.clone(), "cannot".into()));
    }
    if with_path {
        let dir = std::env::temp_dir().join(format!("verif_c07_{}", std::process::id()));
        let _ = std::fs::create_dir_all(&dir);
        let own_ext = fmt.map(|f| f.name()).unwrap_or("bin");
        for ext in [own_ext, "xls", "xla", "xlsx", "xlsm", "xlam", "xlsb", "ods", "", "XLSX", "Ods", "txt", "xlsx.bak"] {
            let path = if ext.is_empty() { dir.join("book") } else { dir.join(format!("book.{ext}")) };
            if std::fs::write(&path, bytes).is_err() {
                continue;
            }
            let got = match guarded(|| open_workbook_auto(&path)) {
                Ok(Ok(s)) => kind_name(&s).to_string(),
                Ok(Err(e)) => auto_err(&e),
                Err(p) => format!("panic:{p}"),
            };
            let _ = std::fs::remove_file(&path);
            // `Path::extension` of "book.xlsx.bak" is "bak", of "book" is None
            let e = std::path::Path::new(&path).extension().and_then(|e| e.to_str()).unwrap_or("-").to_string();
            let model = drv.ask(&format!("autopath {e} {acc}"));
            rep.count("auto.path-calls");
            if got != model {
                fails.push(("impl_vs_model".into(), "auto:from-path".into(), format!("ext={e}: {got}"), model, format!("accepts={acc}")));
            }
        }
        let _ = std::fs::remove_dir(&dir);
    }
    fails
}

// ---------------------------------------------------------------------------------------------------------
// the conversion DataRef -> Data and the DataType observations of both sides (Model/DataConv.lean)

const ERRS: [CellErrorType; 8] = [
    CellErrorType::Div0,
    CellErrorType::NA,
    CellErrorType::Name,
    CellErrorType::Null,
    CellErrorType::Num,
    CellErrorType::Ref,
    CellErrorType::Value,
    CellErrorType::GettingData,
];

fn hexs(s: &str) -> String {
    if s.is_empty() { "-".into() } else { hex(s.as_bytes()) }
}

fn edt_wire(d: &ExcelDateTime) -> String {
    // is_1904 has no accessor: taken from the Debug text
    let is1904 = format!("{d:?}").contains("is_1904: true");
    format!("{}:{}:{}", d.as_f64().to_bits(), d.is_duration() as u8, is1904 as u8)
}

/// the observations of the `DataType` trait in the driver's text form; `str_dep` = the cell is a text (the number
/// parsers are consulted)
fn view_of<T: DataType>(v: &T, str_dep: bool) -> String {
    let b = |x: bool| if x { '1' } else { '0' };
    let flags: String = [
        v.is_empty(), v.is_int(), v.is_float(), v.is_bool(), v.is_string(), v.is_duration_iso(), v.is_datetime(),
        v.is_datetime_iso(), v.is_error(),
    ]
    .iter()
    .map(|x| b(*x))
    .collect();
    let o = |x: Option<String>| x.unwrap_or("-".into());
    let k = |some: bool| if str_dep { 'p' } else if some { 'v' } else { 'n' };
    format!(
        "{flags},gi={},gf={},gb={},gs={},gd={},gdi={},gdu={},ge={},as={}{}{}",
        o(v.get_int().map(|x| x.to_string())),
        o(v.get_float().map(|x| x.to_bits().to_string())),
        o(v.get_bool().map(|x| b(x).to_string())),
        o(v.get_string().map(|x| format!("x{}", hexs(x)))),
        o(v.get_datetime().map(|d| edt_wire(&d))),
        o(v.get_datetime_iso().map(|x| format!("x{}", hexs(x)))),
        o(v.get_duration_iso().map(|x| format!("x{}", hexs(x)))),
        o(v.get_error().map(|e| ERRS.iter().position(|x| x == e).unwrap().to_string())),
        b(v.as_string().is_some()),
        k(v.as_i64().is_some()),
        k(v.as_f64().is_some()),
    )
}

fn data_wire(d: &Data) -> String {
    match d {
        Data::Empty => "-".into(),
        Data::Int(v) => format!("i:{v}"),
        Data::Float(f) => format!("f:{}", f.to_bits()),
        Data::String(s) => format!("s:{}", hexs(s)),
        Data::Bool(b) => format!("b:{}", *b as u8),
        Data::DateTime(d) => format!("d:{}", edt_wire(d)),
        Data::DateTimeIso(s) => format!("t:{}", hexs(s)),
        Data::DurationIso(s) => format!("u:{}", hexs(s)),
        Data::Error(e) => format!("e:{}", ERRS.iter().position(|x| x == e).unwrap()),
    }
}

const TEXTS: [&str; 14] = ["", "0", "-7", "42", "+5", " 12", "1e3", "3.25", "-0.0", "inf", "NaN", "abc", "9223372036854775808", "é漢"];

fn gen_cell_wire(rng: &mut Rng) -> String {
    let f = |rng: &mut Rng| match rng.below(6) {
        0 => 0f64.to_bits(),
        1 => (-0f64).to_bits(),
        2 => f64::NAN.to_bits(),
        3 => f64::INFINITY.to_bits(),
        4 => ((rng.below(2_000_000) as f64 - 1_000_000.0) / 8.0).to_bits(),
        _ => rng.next(),
    };
    match rng.below(11) {
        0 => "-".into(),
        1 => format!("i:{}", match rng.below(4) { 0 => i64::MIN, 1 => i64::MAX, 2 => 0, _ => rng.next() as i64 >> rng.below(63) }),
        2 => format!("f:{}", f(rng)),
        3 => format!("s:{}", hexs(*rng.pick(&TEXTS[..]))),
        4 | 5 => format!("h:{}", hexs(*rng.pick(&TEXTS[..]))),
        6 => format!("b:{}", rng.below(2)),
        7 => format!("d:{}:{}:{}", f(rng), rng.below(2), rng.below(2)),
        8 => format!("t:{}", hexs(*rng.pick(&["2024-02-29T12:00:00", "2024-02-29", "12:30:00", "", "x"][..]))),
        9 => format!("u:{}", hexs(*rng.pick(&["PT12H30M", "P1DT2H", "", "x"][..]))),
        _ => format!("e:{}", rng.below(8)),
    }
}

/// failures (kind, sig, impl, model, expect) for one cell given in the driver's cell syntax
fn run_dconv(w: &str, drv: &mut Driver) -> Vec<(String, String, String, String, String)> {
    let p: Vec<&str> = w.split(':').collect();
    let text = |h: &str| if h == "-" { String::new() } else { String::from_utf8(verif_harness::unhex(h)).unwrap() };
    let owned_text;
    let cell: DataRef = match p[0] {
        "-" => DataRef::Empty,
        "i" => DataRef::Int(p[1].parse().unwrap()),
        "f" => DataRef::Float(f64::from_bits(p[1].parse().unwrap())),
        "s" => DataRef::String(text(p[1])),
        "h" => {
            owned_text = text(p[1]);
            DataRef::SharedString(&owned_text)
        }
        "b" => DataRef::Bool(p[1] == "1"),
        "d" => DataRef::DateTime(ExcelDateTime::new(
            f64::from_bits(p[1].parse().unwrap()),
            if p[2] == "1" { ExcelDateTimeType::TimeDelta } else { ExcelDateTimeType::DateTime },
            p[3] == "1",
        )),
        "t" => DataRef::DateTimeIso(text(p[1])),
        "u" => DataRef::DurationIso(text(p[1])),
        _ => DataRef::Error(ERRS[p[1].parse::<usize>().unwrap()].clone()),
    };
    let str_dep = matches!(cell, DataRef::String(_) | DataRef::SharedString(_));
    let owned: Data = cell.clone().into();
    let got = format!("{} {} {}", data_wire(&owned), view_of(&cell, str_dep), view_of(&owned, str_dep));
    let model = drv.ask(&format!("dconv {w}"));
    let mut fails = vec![];
    if got != model {
        fails.push(("impl_vs_model".into(), "dconv".into(), got.clone(), model.clone(), String::new()));
    }
    // the property's "converted cell by cell … are equal": nothing observable differs between the two sides, including
    // what the number parsers and the float formatting return (NaN compared by bits)
    let conc = |s: Option<String>, i: Option<i64>, f: Option<f64>| format!("{s:?}/{i:?}/{:?}", f.map(f64::to_bits));
    let a = conc(cell.as_string(), cell.as_i64(), cell.as_f64());
    let b = conc(owned.as_string(), owned.as_i64(), owned.as_f64());
    if a != b || view_of(&cell, str_dep) != view_of(&owned, str_dep) {
        fails.push(("impl_vs_spec".into(), "dconv:owned-differs-from-borrowed".into(), format!("{} / {b}", view_of(&owned, str_dep)), model, format!("{} / {a}", view_of(&cell, str_dep))));
    }
    fails
}

fn hdr(h: Option<u32>) -> HeaderRow {
    match h {
        None => HeaderRow::FirstNonEmptyRow,
        Some(n) => HeaderRow::Row(n),
    }
}

/// the calls of the `Reader` trait, on any implementor (the `Sheets` wrapper or a format's own reader)
fn common<R>(w: &mut R, op: &Op) -> Option<String>
where
    R: Reader<Cursor<Vec<u8>>>,
    R::Error: std::fmt::Debug,
{
    Some(match op {
        Op::H(h) => {
            w.with_header_row(hdr(*h));
            "unit".to_string()
        }
        Op::R(n) => match w.worksheet_range(n) {
            Ok(r) => dump_data(&r),
            Err(e) => err_class(&e),
        },
        Op::RA(i) => match w.worksheet_range_at(*i) {
            None => "none".into(),
            Some(Ok(r)) => dump_data(&r),
            Some(Err(e)) => err_class(&e),
        },
        Op::W => {
            let mut v: Vec<String> = w.worksheets().iter().map(|(n, r)| format!("{}={}", hex(n.as_bytes()), dump_data(r))).collect();
            v.sort(); // xls/ods list sheets in name order; the property matches entries by name
            v.join("&")
        }
        Op::F(n) => match w.worksheet_formula(n) {
            Ok(r) => dump_str(&r),
            Err(e) => err_class(&e),
        },
        Op::V => match w.vba_project() {
            None => "none".into(),
            Some(Ok(v)) => format!("{:?}", v.get_module_names()),
            Some(Err(e)) => err_class(&e),
        },
        Op::SN => w.sheet_names().iter().map(|n| hex(n.as_bytes())).collect::<Vec<_>>().join(","),
        Op::MD => format!("{:?}", w.metadata()),
        _ => return None,
    })
}

/// perform one public call and canonicalise what it returned. `direct`: call the format's own reader inside
/// the `Sheets` value instead of going through the wrapper's forwarding methods (used for the fresh readers, so
/// that "a workbook opened through auto-detection returns the same results as the format's own reader" is checked)
fn perform(w: &mut AnyBook, op: &Op, direct: bool) -> String {
    let r = guarded(|| {
        let c = if direct {
            match w {
                Sheets::Xls(x) => common(x, op),
                Sheets::Xlsx(x) => common(x, op),
                Sheets::Xlsb(x) => common(x, op),
                Sheets::Ods(x) => common(x, op),
            }
        } else {
            common(w, op)
        };
        if let Some(s) = c {
            return s;
        }
        match op {
            Op::RR(n) => match w {
                Sheets::Xlsx(x) => match x.worksheet_range_ref(n) {
                    Ok(r) => dump_data(&to_owned(&r)),
                    Err(e) => err_class(&e),
                },
                Sheets::Xlsb(x) => match x.worksheet_range_ref(n) {
                    Ok(r) => dump_data(&to_owned(&r)),
                    Err(e) => err_class(&e),
                },
                _ => "unsupported".into(),
            },
            Op::MC(n) => match w {
                Sheets::Xlsx(x) => match x.worksheet_merge_cells(n) {
                    None => "none".into(),
                    Some(Ok(v)) => format!("{v:?}"),
                    Some(Err(e)) => err_class(&e),
                },
                Sheets::Xls(x) => format!("{:?}", x.worksheet_merge_cells(n)),
                _ => "unsupported".into(),
            },
            Op::LM => match w {
                Sheets::Xlsx(x) => match x.load_merged_regions() {
                    Ok(()) => "unit".into(),
                    Err(e) => err_class(&e),
                },
                _ => "unit".into(),
            },
            Op::MR => match w {
                Sheets::Xlsx(x) => format!("{:?}", x.merged_regions()),
                _ => "unsupported".into(),
            },
            Op::MS(n) => match w {
                Sheets::Xlsx(x) => format!("{:?}", x.merged_regions_by_sheet(n)),
                _ => "unsupported".into(),
            },
            Op::LT => match w {
                Sheets::Xlsx(x) => match x.load_tables() {
                    Ok(()) => "unit".into(),
                    Err(e) => err_class(&e),
                },
                _ => "unit".into(),
            },
            Op::TN => match w {
                Sheets::Xlsx(x) => format!("{:?}", x.table_names()),
                _ => "unsupported".into(),
            },
            Op::TB(n) => match w {
                Sheets::Xlsx(x) => match x.table_by_name(n) {
                    Ok(t) => format!("{}|{}|{:?}|{}", t.name(), t.sheet_name(), t.columns(), dump_data(t.data())),
                    Err(e) => err_class(&e),
                },
                _ => "unsupported".into(),
            },
            _ => unreachable!(),
        }
    });
    match r {
        Ok(s) => s,
        Err(_) => "panic".into(),
    }
}

fn to_owned(r: &Range<calamine::DataRef<'_>>) -> Range<Data> {
    match (r.start(), r.end()) {
        (Some(s), Some(e)) => {
            let mut out: Range<Data> = Range::new(s, e);
            for (i, j, v) in r.cells() {
                out.set_value((s.0 + i as u32, s.1 + j as u32), Data::from(v.clone()));
            }
            out
        }
        _ => Range::empty(),
    }
}

/// a freshly opened reader brought to the state the model says is in force
fn fresh(bytes: &[u8], fmt: Fmt, h: Option<u32>, merged: bool, tables: bool) -> AnyBook {
    let mut w = wb::open(bytes.to_vec(), fmt).expect("fresh open");
    w.with_header_row(hdr(h));
    if let Sheets::Xlsx(x) = &mut w {
        if merged {
            let _ = x.load_merged_regions();
        }
        if tables {
            let _ = x.load_tables();
        }
    }
    w
}

struct Case {
    fmt: Fmt,
    auto: bool,
    seed: u64,
    gen_seed: u64,
    ops: Vec<Op>,
}

/// the workbook of a case, a function of its generator seed: mostly `gen_book_rich`; one in 40 has sheets whose names
/// differ by a digit suffix ("Q", "Q1", "Q12" — keys built by gluing a name and a number collide), one in 40 has a
/// BIG sheet (4112 cells, first row 3) next to a small one (size-dependent caches)
fn the_book(gen_seed: u64, fmt: Fmt) -> wb::LBook {
    let mut rng = Rng::new(gen_seed);
    match gen_seed % 40 {
        7 => {
            let mut b = wb::LBook::default();
            for name in ["Q", "Q1", "Q12"] {
                b.sheets.push(wb::gen_sheet_at(&mut rng, name, 40, (0, 0, 30, 3)));
                // make sure the rows used by the directed history hold something
                let k = b.sheets.len() as f64;
                for r in [1u32, 2, 11, 12, 21, 22] {
                    b.sheets.last_mut().unwrap().cells.insert((r, 0), wb::V::Num(k * 100.0 + r as f64 + 0.5));
                }
            }
            b
        }
        9 => {
            let mut b = wb::LBook::default();
            let mut big = wb::LSheet { name: "Big".into(), ..Default::default() };
            // 4112, 10 400 or 20 800 cells (a cache that only serves sheets above some size must be exercised too)
            let last = 3 + [1028u32, 2600, 5200][(gen_seed / 40 % 3) as usize];
            for r in 3..last {
                for c in 0..4u32 {
                    big.cells.insert((r, c), if (r + c) % 3 == 0 { wb::V::Str(format!("s{}", r % 7)) } else { wb::V::Num(r as f64 + 0.25) });
                }
            }
            b.sheets.push(big);
            b.sheets.push(wb::gen_sheet_at(&mut rng, "Small", 10, (3, 0, 6, 3)));
            b
        }
        15 => {
            // a title block: a merged region whose top-left cell holds a value, starting above the header row the
            // history sets and reaching it (seeded C08-m16: reads depended on whether load_merged_regions() had run)
            let mut b = wb::LBook::default();
            let mut sh = wb::LSheet { name: "M".into(), ..Default::default() };
            let top = rng.below(3) as u32 + 1;
            // (the other cells of a merged region are empty, as Excel leaves them)
            for (r, c, v) in [(top, 1u32, 7.5), (top + 1, 3, 8.5), (top + 2, 1, 9.5), (top + 2, 2, 10.5), (top + 3, 3, 11.5)] {
                sh.cells.insert((r, c), wb::V::Num(v));
            }
            if fmt == Fmt::Xlsx {
                sh.merges.push(verif_harness::xlsxw::rect_ref(((top, 1), (top + 1, 2))));
                sh.merges.push(verif_harness::xlsxw::rect_ref(((top + 3, 3), (top + 4, 3))));
            }
            b.sheets.push(sh);
            b.sheets.push(wb::gen_sheet_at(&mut rng, "Other", 10, (0, 0, 6, 3)));
            b
        }
        11 | 13 => {
            // a macro part that cannot be parsed (random bytes / empty / a compound file without a `dir` stream):
            // `vba_project()` must say so on every call (seeded C07-m18: a result cache filled before the attempt)
            let mut b = wb::gen_book_rich(&mut rng, fmt, 3, 25);
            b.vba = Some(match gen_seed / 40 % 3 {
                0 => (0..rng.range(1, 600)).map(|_| rng.below(256) as u8).collect(),
                1 => vec![],
                _ => verif_harness::cfbw::write_cfb(&[("PROJECT".to_string(), b"ID=\"{0}\"\r\n".to_vec())], &verif_harness::cfbw::CfbOpts::default(), &mut rng),
            });
            b
        }
        _ => wb::gen_book_rich(&mut rng, fmt, 3, 25),
    }
}

fn gen_case(rng: &mut Rng, fmt: Fmt) -> Case {
    let gen_seed = rng.next();
    let book = the_book(gen_seed, fmt);
    let names: Vec<String> = book.sheets.iter().map(|s| s.name.clone()).collect();
    let rows: Vec<u32> = book.sheets.iter().flat_map(|s| s.cells.keys().map(|k| k.0)).collect();
    let mut pick_name = |rng: &mut Rng| -> String {
        if rng.chance(1, 10) {
            // a name no sheet carries: unrelated, or a near miss of a real one (other case, trailing blank, cut short)
            let n = rng.pick(&names).clone();
            let flipped: String = n.chars().map(|c| if c.is_ascii_lowercase() { c.to_ascii_uppercase() } else { c.to_ascii_lowercase() }).collect();
            let cand = match rng.below(5) {
                0 => flipped,
                1 => format!("{n} "),
                2 => n.chars().take(n.chars().count().saturating_sub(1)).collect(),
                3 => n.to_lowercase(),
                _ => "no such sheet".to_string(),
            };
            if names.contains(&cand) { "no such sheet".to_string() } else { cand }
        } else {
            rng.pick(&names).clone()
        }
    };
    let n = rng.range(3, 25);
    let mut ops = vec![];
    match gen_seed % 40 {
        7 => {
            // (name, header row) pairs whose glued text coincides: ("Q", 12) / ("Q1", 2), ("Q1", 21) / ("Q12", 1) …
            for (a, na, b2, nb) in [("Q", 12u32, "Q1", 2u32), ("Q1", 21, "Q12", 1), ("Q", 11, "Q1", 1), ("Q", 122, "Q12", 2)] {
                if rng.chance(2, 3) {
                    ops.extend([Op::H(Some(na)), Op::R(a.into()), Op::H(Some(nb)), Op::R(b2.into()), Op::H(Some(na)), Op::R(a.into())]);
                }
            }
        }
        9 => {
            // the big sheet through worksheets() and by name under the default option and under Row(0) / Row(3)
            for h in [None, Some(0u32), Some(3), Some(500), Some(3), None, Some(0)] {
                ops.push(Op::H(h));
                ops.push(if rng.chance(1, 2) { Op::W } else { Op::R("Big".into()) });
                ops.push(if rng.chance(1, 2) { Op::R("Big".into()) } else { Op::RR("Big".into()) });
            }
        }
        15 => {
            let top = book.sheets[0].cells.keys().map(|k| k.0).min().unwrap_or(1);
            for h in [Some(top + 1), Some(top + 2), None, Some(top + 1)] {
                ops.extend([Op::H(h), Op::RR("M".into()), Op::R("M".into())]);
                if rng.chance(1, 2) {
                    ops.push(Op::LM);
                }
                ops.extend([Op::RR("M".into()), Op::R("M".into()), Op::MR]);
            }
        }
        11 | 13 => {
            let first = names[0].clone();
            ops.extend([Op::V, Op::V, Op::R(first), Op::V]);
        }
        _ => {}
    }
    let table_names: Vec<String> = book.sheets.iter().flat_map(|s| s.tables.iter().map(|t| t.name.clone())).collect();
    let has_merges = book.sheets.iter().any(|s| !s.merges.is_empty());
    for _ in 0..n {
        // a book with tables / merged regions gets histories that dwell on them: loads, repeated lookups of the same
        // table with option changes in between, queries before and after a load
        if !table_names.is_empty() && rng.chance(1, 4) {
            ops.push(match rng.below(6) {
                0 => Op::LT,
                1 => Op::TN,
                2 => Op::H(if rows.is_empty() || rng.chance(1, 3) { None } else { Some(*rng.pick(&rows)) }),
                _ => Op::TB(rng.pick(&table_names).clone()),
            });
            continue;
        }
        if has_merges && rng.chance(1, 6) {
            ops.push(match rng.below(4) {
                0 => Op::LM,
                1 => Op::MR,
                2 => Op::MS(pick_name(rng)),
                _ => Op::MC(pick_name(rng)),
            });
            continue;
        }
        let k = rng.below(100);
        let op = if k < 14 {
            if rng.chance(1, 3) || rows.is_empty() {
                Op::H(None)
            } else {
                Op::H(Some(*rng.pick(&rows)))
            }
        } else if k < 40 {
            Op::R(pick_name(rng))
        } else if k < 50 {
            Op::RR(pick_name(rng))
        } else if k < 58 {
            Op::RA(rng.below(names.len() as u64 + 2) as usize)
        } else if k < 64 {
            Op::W
        } else if k < 74 {
            Op::F(pick_name(rng))
        } else if k < 79 {
            Op::MC(pick_name(rng))
        } else if k < 82 {
            Op::LM
        } else if k < 85 {
            Op::MR
        } else if k < 87 {
            Op::MS(pick_name(rng))
        } else if k < 90 {
            Op::LT
        } else if k < 92 {
            Op::TN
        } else if k < 94 {
            Op::TB((*rng.pick(&["T1", "T1", "T2", "T3", "t1", "nope"])).to_string())
        } else if k < 96 {
            Op::V
        } else if k < 98 {
            Op::SN
        } else {
            Op::MD
        };
        ops.push(op);
    }
    Case { fmt, auto: rng.chance(1, 3), seed: rng.next(), gen_seed, ops }
}

impl Case {
    fn wire(&self) -> String {
        format!(
            "{} {} {} {} {}",
            self.fmt.name(),
            self.auto as u8,
            self.seed,
            self.gen_seed,
            self.ops.iter().map(|o| o.wire()).collect::<Vec<_>>().join(";")
        )
    }
    fn parse(s: &str) -> Case {
        let p: Vec<&str> = s.split(' ').collect();
        Case {
            fmt: Fmt::parse(p[0]),
            auto: p[1] == "1",
            seed: p[2].parse().unwrap(),
            gen_seed: p[3].parse().unwrap(),
            ops: p[4].split(';').map(Op::parse).collect(),
        }
    }
}

/// failures: (kind, sig, impl, model, expect)
fn run_case(case: &Case, drv: &mut Driver, rep: &mut Report) -> Vec<(String, String, String, String, String)> {
    let mut fails = vec![];
    let fmt = case.fmt;
    let book = the_book(case.gen_seed, fmt);
    let mut bytes = wb::write(&book, fmt, &mut Rng::new(case.seed));
    // container variants the format readers accept and auto-detection therefore has to accept as well: a zip
    // archive behind leading bytes (a self-extracting stub, a mail header). Only kept when the format's own reader
    // opens the variant; the case then runs through auto-detection.
    if case.auto && fmt != Fmt::Xls && case.seed % 4 == 0 {
        let mut r = Rng::new(case.seed ^ 0x57ab);
        let k = *r.pick(&[1usize, 2, 4, 7, 64, 512, 4096, 70_000]);
        let mut wrapped: Vec<u8> = match r.below(3) {
            0 => b"#!/bin/sh\nexit 0\n".iter().cycle().take(k).cloned().collect(),
            1 => vec![0u8; k],
            _ => r.bytes(k),
        };
        wrapped.extend_from_slice(&bytes);
        if wb::open(wrapped.clone(), fmt).is_ok() {
            rep.count(&format!("{}.leading-bytes-before-zip", fmt.name()));
            bytes = wrapped;
        } else {
            rep.count(&format!("{}.leading-bytes-rejected-by-format-reader", fmt.name()));
        }
    }
    // which reader auto-detection wraps: implementation vs Model/Auto.lean vs the property's clause, on the file
    // itself and on damaged / foreign variants of it
    if case.auto {
        fails.extend(run_auto(&bytes, Some(fmt), case.seed % 8 == 1, drv, rep));
        let mut r = Rng::new(case.seed ^ 0xa070);
        let junk: Vec<u8> = match r.below(5) {
            0 => vec![],
            1 => r.bytes(64),
            2 => bytes[..bytes.len() / 2].to_vec(),
            3 => {
                let mut b = bytes.clone();
                let k = r.below(b.len().min(64) as u64) as usize;
                b[k] ^= 0xff;
                b
            }
            _ => {
                let mut b = bytes.clone();
                b.truncate(b.len().saturating_sub(1 + r.below(40) as usize));
                b
            }
        };
        fails.extend(run_auto(&junk, None, case.seed % 16 == 1, drv, rep));
        if !fails.is_empty() {
            return fails;
        }
    }
    let mut live: AnyBook = if case.auto {
        match open_workbook_auto_from_rs(Cursor::new(bytes.clone())) {
            Ok(w) => w,
            Err(e) => {
                fails.push(("impl_vs_spec".into(), format!("{}:auto-open", fmt.name()), err_class(&e), String::new(), "opens like the format reader".into()));
                return fails;
            }
        }
    } else {
        match wb::open(bytes.clone(), fmt) {
            Ok(w) => w,
            Err(e) => {
                fails.push(("impl_vs_spec".into(), format!("{}:open", fmt.name()), e, String::new(), "opens".into()));
                return fails;
            }
        }
    };
    // auto-detection must pick the format's own reader
    let kind_ok = matches!(
        (&live, fmt),
        (Sheets::Xls(_), Fmt::Xls) | (Sheets::Xlsx(_), Fmt::Xlsx) | (Sheets::Xlsb(_), Fmt::Xlsb) | (Sheets::Ods(_), Fmt::Ods)
    );
    if !kind_ok {
        fails.push(("impl_vs_spec".into(), format!("{}:auto-kind", fmt.name()), "other reader".into(), String::new(), fmt.name().into()));
        return fails;
    }
    let names = live.sheet_names();
    // what the two cache-filling calls return on this file (on a fresh reader): a failing load must leave no trace
    let (lm, lt) = {
        let mut fr = fresh(&bytes, fmt, None, false, false);
        (perform(&mut fr, &Op::LM, true), perform(&mut fresh(&bytes, fmt, None, false, false), &Op::LT, true))
    };
    let okw = |s: &str| if s == "unit" || s == "unsupported" { "ok".to_string() } else { s.replace(' ', "_").replace(';', "_").replace(',', "_") };
    if lm != "unit" && lm != "unsupported" {
        rep.count(&format!("{}.load_merged_regions-fails", fmt.name()));
    }
    if lt != "unit" && lt != "unsupported" {
        rep.count(&format!("{}.load_tables-fails", fmt.name()));
    }
    let req = format!(
        "hist2 {} sheets={} {} {} {}",
        if fmt.lazy() { "lazy" } else { "eager" },
        names.iter().map(|n| hex(n.as_bytes())).collect::<Vec<_>>().join(","),
        okw(&lm),
        okw(&lt),
        case.ops.iter().map(|o| o.wire()).collect::<Vec<_>>().join(";")
    );
    let reply = drv.ask(&req);
    let steps: Vec<&str> = reply.split(';').collect();
    if steps.len() != case.ops.len() {
        fails.push(("model_vs_spec".into(), "driver-protocol".into(), String::new(), reply.clone(), String::new()));
        return fails;
    }
    for (i, op) in case.ops.iter().enumerate() {
        let opname = op.wire().split(',').next().unwrap().to_string();
        rep.count(&format!("{}.{}", fmt.name(), opname));
        let sig = format!("{}:{}", fmt.name(), opname);
        let got = perform(&mut live, op, false);
        // model: state in force + symbolic result
        let f: Vec<&str> = steps[i].splitn(4, ',').collect();
        let mh = if f[0] == "d" { None } else { Some(f[0].parse::<u32>().unwrap()) };
        let (ml, mt) = (f[1] == "1", f[2] == "1");
        let sym = f[3];
        // `reads_ignore_caches`: only the merged-region / table queries look at the caches; every other call is
        // compared with a reader on which NO load was ever attempted
        let uses_caches = matches!(op, Op::MR | Op::MS(_) | Op::TN | Op::TB(_) | Op::LM | Op::LT);
        let (ml, mt) = if uses_caches { (ml, mt) } else { (false, false) };
        // xlsx-only calls on other formats are outside the API of those readers
        if got == "unsupported" {
            continue;
        }
        // 1. purity: the same call on a fresh reader in the model's state
        let mut fr = fresh(&bytes, fmt, mh, ml, mt);
        let want = if sym == "panic:not-loaded" && matches!(fr, Sheets::Xlsx(_)) {
            "panic".to_string()
        } else {
            perform(&mut fr, op, true)
        };
        if got != want {
            // the result differs from what a fresh reader gives in the state the model says is in force: the result
            // depends on the call history — this IS the property (and breaks the correspondence with `read_pure`).
            // One exception: worksheets() of the eager readers under an explicit header row, where the property
            // demands nothing and only the model speaks.
            let only_model = matches!(op, Op::W) && !fmt.lazy() && mh.is_some();
            let kind = if only_model { "impl_vs_model" } else { "impl_vs_spec" };
            fails.push((kind.into(), format!("{sig}:purity"), got.clone(), format!("{} => {}", steps[i], want), want.clone()));
        }
        // 2. path identities of the property, evaluated on fresh readers
        match op {
            Op::R(n) => {
                let known = names.contains(n);
                if !known && !got.starts_with("err:") {
                    fails.push(("impl_vs_spec".into(), format!("{}:unknown-sheet", fmt.name()), got.clone(), sym.into(), "an error".into()));
                }
                if known && fmt.lazy() {
                    let via_ref = perform(&mut fresh(&bytes, fmt, mh, ml, mt), &Op::RR(n.clone()), true);
                    if got != via_ref {
                        fails.push(("impl_vs_spec".into(), format!("{}:range-vs-ref", fmt.name()), got.clone(), sym.into(), via_ref));
                    }
                }
            }
            Op::RA(k) => {
                let want = match names.get(*k) {
                    Some(n) => perform(&mut fresh(&bytes, fmt, mh, ml, mt), &Op::R(n.clone()), true),
                    None => "none".into(),
                };
                if got != want {
                    fails.push(("impl_vs_spec".into(), format!("{}:range-at", fmt.name()), got.clone(), sym.into(), want));
                }
            }
            Op::W => {
                // the model names the option under which each entry is read (eager readers: the default)
                let wh = if fmt.lazy() { mh } else { None };
                // a sheet whose read fails has no entry (`.ok()?` in the lazy readers)
                let mut entries: Vec<String> = names
                    .iter()
                    .map(|n| (n, perform(&mut fresh(&bytes, fmt, wh, ml, mt), &Op::R(n.clone()), true)))
                    .filter(|(_, r)| !r.starts_with("err:"))
                    .map(|(n, r)| format!("{}={}", hex(n.as_bytes()), r))
                    .collect();
                entries.sort();
                // entries are matched BY NAME: sheets sharing a name (legal for the readers, which then resolve the
                // name to the first of them) stand for one entry
                entries.dedup();
                let want = entries.join("&");
                let got = {
                    let mut g: Vec<&str> = got.split('&').collect();
                    g.dedup();
                    g.join("&")
                };
                if got != want && (mh.is_none() || fmt.lazy()) {
                    fails.push(("impl_vs_spec".into(), format!("{}:worksheets", fmt.name()), got.clone(), sym.into(), want.clone()));
                }
                if got != want && !(mh.is_none() || fmt.lazy()) {
                    fails.push(("impl_vs_model".into(), format!("{}:worksheets-eager", fmt.name()), got.clone(), sym.into(), want));
                }
            }
            Op::F(n) | Op::MC(n) | Op::MS(n) => {
                if !names.contains(n) && matches!(op, Op::F(_)) && !got.starts_with("err:") {
                    fails.push(("impl_vs_spec".into(), format!("{}:unknown-sheet-formula", fmt.name()), got.clone(), sym.into(), "an error".into()));
                }
            }
            _ => {}
        }
        if !fails.is_empty() {
            break;
        }
    }
    fails
}

fn shrink(case: &Case, kind: &str, sig: &str, drv: &mut Driver) -> Case {
    let mut cur = Case { fmt: case.fmt, auto: case.auto, seed: case.seed, gen_seed: case.gen_seed, ops: case.ops.clone() };
    let mut dummy = Report::new("C07", "");
    loop {
        let mut improved = false;
        let mut i = 0;
        while i < cur.ops.len() && cur.ops.len() > 1 {
            let mut ops = cur.ops.clone();
            ops.remove(i);
            let cand = Case { fmt: cur.fmt, auto: cur.auto, seed: cur.seed, gen_seed: cur.gen_seed, ops };
            if run_case(&cand, drv, &mut dummy).iter().any(|f| f.0 == kind && f.1 == sig) {
                cur = cand;
                improved = true;
            } else {
                i += 1;
            }
        }
        if !improved {
            return cur;
        }
    }
}

fn main() {
    let args = Args::parse();
    let mut drv = Driver::spawn(&args.driver);
    let mut rep = Report::new(
        "C07",
        "generated workbooks (1..3 sheets, 0..25 simple cells each) in xls/xlsx/xlsb/ods, opened through the format \
         reader (2/3) or auto-detection (1/3); one long-lived reader runs a random history of 3..25 public calls \
         (with_header_row, worksheet_range / _ref / _at, worksheets, worksheet_formula, merge cells, load/query merged \
         regions and tables, vba_project, sheet_names, metadata; 10% unknown sheet names); every result is compared with \
         the same call on a FRESH reader brought to the state the Lean model says is in force, and with the path \
         identities of the property; non-trivial = history with a header-row change and at least two reads of the same \
         sheet; distinct by case text; for 1/3 of the files which reader auto-detection wraps (the file, a damaged \
         variant, by path under 13 extensions) vs Model/Auto.lean given the measured acceptance of the four readers; \
         plus single cells of every DataRef variant: Data::from and all DataType observations of both sides vs \
         Model/DataConv.lean, and owned == borrowed for as_string / as_i64 / as_f64",
    );
    let mut cases: Vec<Case> = vec![];
    let mut cells: Vec<String> = vec![];
    if let Some(inp) = &args.replay {
        if let Some(w) = inp.strip_prefix("dconv ") {
            cells.push(w.to_string());
        } else {
            cases.push(Case::parse(inp));
        }
    } else {
        // every variant at least once, then random cells
        let mut crng = Rng::new(args.seed ^ 0xdc0);
        for w in ["-", "i:0", "f:0", "s:-", "h:-", "h:3432", "s:3432", "b:1", "d:4674916728738455552:0:1", "d:0:1:0", "t:78", "u:78", "e:0", "e:7"] {
            cells.push(w.to_string());
        }
        for _ in 0..args.count(2000, 200_000) {
            cells.push(gen_cell_wire(&mut crng));
        }
        let n = args.count(3000, 300_000);
        let mut rng = Rng::new(args.seed);
        for i in 0..n {
            cases.push(gen_case(&mut rng, wb::ALL_FORMATS[(i % 4) as usize]));
        }
    }
    let mut shrunk = 0;
    for case in &cases {
        let text = case.wire();
        let reads = case.ops.iter().filter(|o| matches!(o, Op::R(_) | Op::RR(_) | Op::RA(_))).count();
        let nontrivial = case.ops.iter().any(|o| matches!(o, Op::H(Some(_)))) && reads >= 2;
        rep.case(&text, nontrivial);
        rep.add("calls", case.ops.len() as u64);
        for (kind, sig, i, m, e) in run_case(case, &mut drv, &mut rep) {
            if shrunk < 10 && kind != "model_vs_spec" {
                shrunk += 1;
                let small = shrink(case, &kind, &sig, &mut drv);
                let mut dummy = Report::new("C07", "");
                if let Some(f) = run_case(&small, &mut drv, &mut dummy).into_iter().find(|f| f.0 == kind && f.1 == sig) {
                    rep.fail(&kind, &sig, &small.wire(), &f.2, &f.3, &f.4);
                    continue;
                }
            }
            rep.fail(&kind, &sig, &text, &i, &m, &e);
        }
    }
    for w in &cells {
        let text = format!("dconv {w}");
        rep.case(&text, w.starts_with("h:") || w.starts_with("d:"));
        rep.count(&format!("dconv.{}", w.split(':').next().unwrap()));
        for (kind, sig, i, m, e) in run_dconv(w, &mut drv) {
            rep.fail(&kind, &sig, &text, &i, &m, &e);
        }
    }
    rep.add("driver_requests", drv.requests);
    rep.notes.push("purity with respect to process-level state (zip cursor, buffers) is validated by comparison with freshly opened readers, not proved".into());
    rep.write(&args.out);
}
